import XmppVerif.Proofs.C02BytesLoop
import XmppVerif.Spec.C02Bytes
/-
Helper lemmas for the round-trip theorem of Props/C02Bytes: what each scanner returns on a rendered fragment.
-/
namespace XmppVerif.Proofs.C02Bytes
open XmppVerif.Model.C02Bytes XmppVerif.Spec.C02Bytes

/-! ### character classes -/

theorem char_le_toNat (a b : Char) (h : a ≤ b) : a.toNat ≤ b.toNat := h

theorem nameByte_lt (c : Char) (h : isNameByte c = true) : c.toNat < 128 := by
  simp only [isNameByte, Bool.or_eq_true, Bool.and_eq_true, decide_eq_true_eq] at h
  rcases h with (((((( ⟨_, h⟩ | ⟨_, h⟩) | ⟨_, h⟩) | h) | h) | h) | h)
  · have := char_le_toNat _ _ h; simp at this; omega
  · have := char_le_toNat _ _ h; simp at this; omega
  · have := char_le_toNat _ _ h; simp at this; omega
  all_goals (subst h; decide)

theorem nameByte_ascii (c : Char) (h : isNameByte c = true) : isAscii c = true := by
  simp [isAscii]; exact nameByte_lt c h

theorem nameByte_notBad (c : Char) (h : isNameByte c = true) : isBad c = false := by
  have := nameByte_lt c h
  simp [isBad]; omega

theorem nameByte_nameChar (c : Char) (h : isNameByte c = true) : isNameChar c = true := by
  simp [isNameChar, h]

theorem nameStart_nameByte (c : Char) (h : isNameStart c = true) : isNameByte c = true := by
  simp only [isNameStart, Bool.or_eq_true, Bool.and_eq_true, decide_eq_true_eq] at h
  simp only [isNameByte, Bool.or_eq_true, Bool.and_eq_true, decide_eq_true_eq]
  rcases h with (((h | h) | h) | h)
  · exact Or.inl (Or.inl (Or.inl (Or.inl (Or.inl (Or.inl h)))))
  · exact Or.inl (Or.inl (Or.inl (Or.inl (Or.inl (Or.inr h)))))
  · exact Or.inl (Or.inl (Or.inl (Or.inr h)))
  · exact Or.inl (Or.inl (Or.inr h))

theorem ncByte_nameByte (c : Char) (h : isNcByte c = true) : isNameByte c = true ∧ c ≠ ':' := by
  simpa [isNcByte] using h

theorem ncStart_props (c : Char) (h : isNcStart c = true) : isNameStart c = true ∧ c ≠ ':' := by
  simpa [isNcStart] using h

/-- a name-start character is none of the characters that select another branch after `<`, and no white space -/
theorem nameStart_not_special (c : Char) (h : isNameStart c = true) :
    c ≠ '/' ∧ c ≠ '?' ∧ c ≠ '!' ∧ c ≠ '>' ∧ c ≠ '<' ∧ c ≠ '=' ∧ isSpace c = false := by
  refine ⟨?_, ?_, ?_, ?_, ?_, ?_, ?_⟩
  all_goals (try (intro e; subst e; revert h; decide))
  cases hs : isSpace c with
  | false => rfl
  | true =>
    simp only [isSpace, Bool.or_eq_true, decide_eq_true_eq] at hs
    rcases hs with ((e | e) | e) | e <;> (subst e; revert h; decide)

/-! ### names -/

theorem spanName_render (n : List Char) (c : Char) (rest : List Char)
    (hn : n.all isNameChar = true) (hc : isNameChar c = false) : spanName (n ++ c :: rest) = .ok n (c :: rest) := by
  unfold spanName
  induction n with
  | nil => simp [scan, hc]
  | cons x xs ih =>
    simp only [List.all_cons, Bool.and_eq_true] at hn
    simp only [List.cons_append, scan, hn.1, if_true, ih hn.2, R.cons]

theorem classify_good (s : List Char) (c : Char) (r : List Char) (hs : s = c :: r)
    (h1 : isNameStart c = true) (h2 : s.all isNameByte = true) : classifyName s = .good := by
  subst hs
  have hx : ∀ x ∈ c :: r, isNameByte x = true := by simpa using h2
  have ha : (c :: r).any (fun x => !isAscii x && !isBad x) = false := by
    rw [List.any_eq_false]
    intro x hx'
    simp [nameByte_ascii x (hx x hx')]
  have hb : (c :: r).any isBad = false := by
    rw [List.any_eq_false]
    intro x hx'
    simp [nameByte_notBad x (hx x hx')]
  simp only [classifyName, ha, hb, h1]
  simp

theorem cutColon_none (s : List Char) (h : ':' ∉ s) : cutColon s = (s, none) := by
  induction s with
  | nil => rfl
  | cons c r ih =>
    have hc : c ≠ ':' := fun e => h (by simp [e])
    have hr : ':' ∉ r := fun e => h (by simp [e])
    simp [cutColon, hc, ih hr]

theorem cutColon_colon (p l : List Char) (h : ':' ∉ p) : cutColon (p ++ ':' :: l) = (p, some l) := by
  induction p with
  | nil => simp [cutColon]
  | cons c r ih =>
    have hc : c ≠ ':' := fun e => h (by simp [e])
    have hr : ':' ∉ r := fun e => h (by simp [e])
    simp [cutColon, hc, ih hr]

theorem count_zero (s : List Char) (h : ':' ∉ s) : s.count ':' = 0 := List.count_eq_zero.mpr h

theorem nc_no_colon (s : List Char) (h : ncOk s = true) : ':' ∉ s ∧ s ≠ [] := by
  cases s with
  | nil => simp [ncOk] at h
  | cons c r =>
    simp only [ncOk, Bool.and_eq_true, List.all_eq_true] at h
    refine ⟨?_, by simp⟩
    intro hm
    rcases List.mem_cons.mp hm with e | e
    · exact (ncStart_props c h.1).2 e.symm
    · exact (ncByte_nameByte _ (h.2 _ e)).2 rfl

theorem nc_all_nameByte (s : List Char) (h : ncOk s = true) : s.all isNameByte = true := by
  cases s with
  | nil => simp
  | cons c r =>
    simp only [ncOk, Bool.and_eq_true, List.all_eq_true] at h
    simp only [List.all_cons, Bool.and_eq_true, List.all_eq_true]
    exact ⟨nameStart_nameByte c (ncStart_props c h.1).1, fun x hx => (ncByte_nameByte x (h.2 x hx)).1⟩

theorem nc_head (s : List Char) (h : ncOk s = true) : ∃ c r, s = c :: r ∧ isNameStart c = true := by
  cases s with
  | nil => simp [ncOk] at h
  | cons c r =>
    simp only [ncOk, Bool.and_eq_true] at h
    exact ⟨c, r, rfl, (ncStart_props c h.1).1⟩

/-- the rendered qualified name: all name bytes, starts with a name-start character, splits back -/
theorem renderQ_props (q : QName) (h : qnameOk q = true) :
    (renderQ q).all isNameByte = true ∧ (∃ c r, renderQ q = c :: r ∧ isNameStart c = true) ∧
      splitName (renderQ q) = some q := by
  obtain ⟨p, l⟩ := q
  simp only [qnameOk, Bool.and_eq_true, Bool.or_eq_true, List.isEmpty_iff] at h
  obtain ⟨hp, hl⟩ := h
  obtain ⟨hlc, hlne⟩ := nc_no_colon l hl
  rcases hp with hp | hp
  · subst hp
    simp only [renderQ, List.isEmpty_nil, if_true]
    refine ⟨nc_all_nameByte l hl, nc_head l hl, ?_⟩
    simp [splitName, count_zero l hlc, cutColon_none l hlc]
  · obtain ⟨hpc, hpne⟩ := nc_no_colon p hp
    have hpe : p.isEmpty = false := by cases p <;> simp_all
    simp only [renderQ, hpe]
    refine ⟨?_, ?_, ?_⟩
    · simp only [Bool.false_eq_true, if_false, List.all_append, List.all_cons, Bool.and_eq_true]
      exact ⟨nc_all_nameByte p hp, by decide, nc_all_nameByte l hl⟩
    · obtain ⟨c, r, e, hc⟩ := nc_head p hp
      exact ⟨c, r ++ ':' :: l, by simp [e], hc⟩
    · have hcount : (p ++ ':' :: l).count ':' = 1 := by
        simp [List.count_append, count_zero p hpc, count_zero l hlc]
      simp only [Bool.false_eq_true, if_false, splitName, hcount, cutColon_colon p l hpc]
      have : l ≠ [] := hlne
      simp [hpne, this]

theorem scanQName_render (q : QName) (c : Char) (rest : List Char) (h : qnameOk q = true) (hc : isNameChar c = false) :
    scanQName (renderQ q ++ c :: rest) = .ok q (c :: rest) := by
  obtain ⟨h1, ⟨x, r, e, hx⟩, h3⟩ := renderQ_props q h
  have hall : (renderQ q).all isNameChar = true := by
    rw [List.all_eq_true] at h1 ⊢
    intro y hy; exact nameByte_nameChar y (h1 y hy)
  simp only [scanQName, scanName, spanName_render _ c rest hall hc, R.bind, classify_good _ x r e hx h1, h3]

theorem scanName_render (n : List Char) (c : Char) (rest : List Char) (h : ncOk n = true) (hc : isNameChar c = false) :
    scanName (n ++ c :: rest) = .ok n (c :: rest) := by
  have h1 := nc_all_nameByte n h
  obtain ⟨x, r, e, hx⟩ := nc_head n h
  have hall : n.all isNameChar = true := by
    rw [List.all_eq_true] at h1 ⊢
    intro y hy; exact nameByte_nameChar y (h1 y hy)
  simp only [scanName, spanName_render _ c rest hall hc, R.bind, classify_good _ x r e hx h1]

/-! ### white space -/

theorem skipSpace_render (w : List Char) (c : Char) (rest : List Char) (hw : wsOk w = true) (hc : isSpace c = false) :
    skipSpace (w ++ c :: rest) = .ok [] (c :: rest) := by
  unfold skipSpace
  induction w with
  | nil => simp [scan, hc]
  | cons x xs ih =>
    simp only [wsOk, List.all_cons, Bool.and_eq_true] at hw
    have : wsOk xs = true := hw.2
    simp only [List.cons_append, scan, hw.1, if_true, ih this]

/-! ### character data and attribute values -/

/-- prepend a list to the value of a scanner result -/
def rapp : List Char → R (List Char) → R (List Char)
  | [], x => x
  | c :: cs, x => R.cons c (rapp cs x)

theorem rapp_ok (l v r : List Char) : rapp l (.ok v r) = .ok (l ++ v) r := by
  induction l with
  | nil => rfl
  | cons c cs ih => simp [rapp, ih, R.cons]

theorem rapp_okEof (l v : List Char) : rapp l (.okEof v) = .okEof (l ++ v) := by
  induction l with
  | nil => rfl
  | cons c cs ih => simp [rapp, ih, R.cons]

/-- the `]]>` / CR state after the pieces -/
def endSt : Char → Char → List Piece → Char × Char
  | p0, p1, [] => (p0, p1)
  | _, p1, .raw c :: ps => endSt p1 c ps
  | _, _, .named _ :: ps => endSt nul nul ps
  | _, _, .num _ _ :: ps => endSt nul nul ps

theorem digit_not_special (hex : Bool) (c : Char) (d : Nat) (h : digitVal hex c = some d) : c ≠ ';' ∧ c ≠ 'x' := by
  constructor
  · intro e; subst e
    have : (digitVal hex ';').isSome = false := by cases hex <;> decide
    rw [h] at this; simp at this
  · intro e; subst e
    have : (digitVal hex 'x').isSome = false := by cases hex <;> decide
    rw [h] at this; simp at this

theorem scanText_cons (q : Option Char) (cd : Bool) (st : TSt) (c : Char) (r : List Char) :
    scanText q cd st (c :: r) =
      (match tstep q cd st c with
       | .go st' => scanText q cd st' r
       | .put x st' => R.cons x (scanText q cd st' r)
       | .stop => .ok [] (c :: r)
       | .stopEat => .ok [] r
       | .fail => .err
       | .unsup w => .unsup w) := by
  simp only [scanText, scan]
  cases tstep q cd st c <;> rfl

theorem step_amp (q : Option Char) (hq : q ≠ some '&') (p0 p1 : Char) (r : List Char) :
    scanText q false (.plain p0 p1) ('&' :: r) = scanText q false .amp r := by
  have hq' : ¬ (q = some '&') := hq
  rw [scanText_cons]; simp [tstep, hq']

theorem step_hash (q : Option Char) (r : List Char) : scanText q false .amp ('#' :: r) = scanText q false .hash r := by
  rw [scanText_cons]; simp [tstep]

theorem step_x (q : Option Char) (r : List Char) :
    scanText q false .hash ('x' :: r) = scanText q false (.num true false 0) r := by
  rw [scanText_cons]; simp [tstep]

theorem step_dec (q : Option Char) (d : Char) (dv : Nat) (r : List Char) (h : digitVal false d = some dv) :
    scanText q false .hash (d :: r) = scanText q false (.num false true dv) r := by
  have hnx := (digit_not_special false d dv h).2
  rw [scanText_cons]; simp [tstep, hnx, h]

theorem step_digit (q : Option Char) (hex any : Bool) (n : Nat) (d : Char) (dv : Nat) (r : List Char)
    (h : digitVal hex d = some dv) :
    scanText q false (.num hex any n) (d :: r) = scanText q false (.num hex true (n * base hex + dv)) r := by
  have hne := (digit_not_special hex d dv h).1
  rw [scanText_cons]; simp [tstep, hne, h, base]

theorem step_semi (q : Option Char) (hex : Bool) (n : Nat) (r : List Char) (h : n < 0x10FF00) :
    scanText q false (.num hex true n) (';' :: r) = R.cons (runeOf n) (scanText q false (.plain nul nul) r) := by
  have h1 : n ≤ 1114111 := by omega
  have h2 : ¬ (1113856 ≤ n) := by omega
  rw [scanText_cons]; simp [tstep, h1, h2]

theorem scan_digits (q : Option Char) (hex : Bool) (rest : List Char) : ∀ (ds : List Char) (any : Bool) (n : Nat),
    ds.all (fun c => (digitVal hex c).isSome) = true →
    scanText q false (.num hex any n) (ds ++ ';' :: rest) =
      scanText q false (.num hex (any || !ds.isEmpty) (numFrom hex n ds)) (';' :: rest) := by
  intro ds
  induction ds with
  | nil => intro any n _; simp [numFrom]
  | cons c cs ih =>
    intro any n h
    simp only [List.all_cons, Bool.and_eq_true] at h
    obtain ⟨d, hd⟩ := Option.isSome_iff_exists.mp h.1
    rw [List.cons_append, step_digit q hex any n c d _ hd, ih true (n * base hex + d) h.2]
    simp [numFrom, hd]

/-- the scanner reads rendered pieces back: the characters they denote, then goes on after them -/
theorem scanText_pieces (q : Option Char) (hq : q ≠ some '&') (rest : List Char) : ∀ (ps : List Piece) (p0 p1 : Char),
    piecesOk q p0 p1 ps = true → p1 ≠ '\r' →
    scanText q false (.plain p0 p1) (renderPieces ps ++ rest) =
      rapp (chars ps) (scanText q false (.plain (endSt p0 p1 ps).1 (endSt p0 p1 ps).2) rest) := by
  intro ps
  induction ps with
  | nil => intro p0 p1 _ _; simp [renderPieces, chars, rapp, endSt]
  | cons p ps ih =>
    intro p0 p1 hok hp1
    cases p with
    | raw c =>
      simp only [piecesOk, Bool.and_eq_true, rawOk, bne_iff_ne, ne_eq, Bool.not_eq_true'] at hok
      obtain ⟨⟨⟨⟨⟨⟨hx, hlt⟩, hamp⟩, hcr⟩, hqc⟩, hcd⟩, hrest⟩ := hok
      have hqc' : ¬ (q = some c) := hqc
      have := ih p1 c hrest hcr
      simp only [renderPieces, Piece.render, List.cons_append, List.nil_append]
      rw [scanText_cons]
      simp only [tstep, hcd, hlt, hamp, hcr, hqc', hp1, chars, List.map_cons, Piece.char, rapp, endSt]
      simp only [chars] at this
      simp [this]
    | named e =>
      simp only [piecesOk, Bool.and_eq_true] at hok
      have := ih nul nul hok.2 (by decide)
      simp only [chars] at this
      simp only [renderPieces, Piece.render, List.cons_append, List.append_assoc]
      rw [step_amp q hq]
      cases e <;>
        simp [Ent.name, scanText_cons, tstep, isNameChar, isNameByte, entityOf, chars,
          Piece.char, Ent.char, rapp, endSt, this]
    | num hex ds =>
      simp only [piecesOk, Piece.ok, Bool.and_eq_true, Bool.not_eq_true', decide_eq_true_eq] at hok
      obtain ⟨⟨⟨⟨hne, hds⟩, hlt⟩, hx⟩, hrest⟩ := hok
      have := ih nul nul hrest (by decide)
      simp only [chars] at this
      cases hex with
      | true =>
        simp only [renderPieces, Piece.render, if_true, List.cons_append, List.nil_append, List.append_assoc]
        rw [step_amp q hq, step_hash, step_x, scan_digits q true _ ds false 0 hds]
        simp only [hne, Bool.not_false, Bool.or_true]
        rw [step_semi q true _ _ hlt, this]
        simp [chars, Piece.char, rapp, endSt]
      | false =>
        cases ds with
        | nil => simp at hne
        | cons d ds' =>
          simp only [List.all_cons, Bool.and_eq_true] at hds
          obtain ⟨dv, hdv⟩ := Option.isSome_iff_exists.mp hds.1
          have hn : numFrom false 0 (d :: ds') = numFrom false dv ds' := by simp [numFrom, hdv, base]
          simp only [renderPieces, Piece.render, List.cons_append, List.nil_append, List.append_assoc]
          simp only [Bool.false_eq_true, if_false, List.nil_append, List.cons_append]
          rw [step_amp q hq, step_hash, step_dec q d dv _ hdv, scan_digits q false _ ds' true dv hds.2]
          simp only [Bool.true_or]
          rw [hn] at hlt
          rw [step_semi q false _ _ hlt, this]
          simp [chars, Piece.char, rapp, endSt, hn]

theorem ent_xml (e : Ent) : isXmlChar e.char = true := by cases e <;> decide

theorem chars_ok (q : Option Char) : ∀ (ps : List Piece) (p0 p1 : Char), piecesOk q p0 p1 ps = true → textOk (chars ps) = true := by
  intro ps
  induction ps with
  | nil => intro _ _ _; simp [textOk, chars]
  | cons p ps ih =>
    intro p0 p1 h
    cases p with
    | raw c =>
      simp only [piecesOk, Bool.and_eq_true, rawOk] at h
      have := ih _ _ h.2
      simp only [textOk, chars, List.map_cons, List.all_cons, Piece.char, Bool.and_eq_true] at this ⊢
      exact ⟨h.1.1.1.1.1.1, this⟩
    | named e =>
      simp only [piecesOk, Bool.and_eq_true] at h
      have := ih _ _ h.2
      simp only [textOk, chars, List.map_cons, List.all_cons, Piece.char, Bool.and_eq_true] at this ⊢
      exact ⟨ent_xml e, this⟩
    | num hex ds =>
      simp only [piecesOk, Piece.ok, Bool.and_eq_true] at h
      have := ih _ _ h.2
      simp only [textOk, chars, List.map_cons, List.all_cons, Piece.char, Bool.and_eq_true] at this ⊢
      exact ⟨h.1.2, this⟩

/-! ### one lexical step on rendered fragments -/

theorem text_stop_lt (a b : Char) (r : List Char) : scanText none false (.plain a b) ('<' :: r) = .ok [] ('<' :: r) := by
  rw [scanText_cons]; simp [tstep]

theorem text_stop_quote (qc a b : Char) (r : List Char) (hq : qc = '"' ∨ qc = '\'') :
    scanText (some qc) false (.plain a b) (qc :: r) = .ok [] r := by
  rw [scanText_cons]
  rcases hq with e | e <;> (subst e; simp [tstep])

theorem text_eof (a b : Char) : scanText none false (.plain a b) [] = .okEof [] := by
  simp [scanText, scan, TSt.isPlain]

/-- the list starts with a character that cannot continue a name -/
def NoName (x : List Char) : Prop := ∃ c r, x = c :: r ∧ isNameChar c = false
/-- the list starts with a character that is not white space -/
def NoSpace (x : List Char) : Prop := ∃ c r, x = c :: r ∧ isSpace c = false

theorem space_not_name (c : Char) (h : isSpace c = true) : isNameChar c = false := by
  simp only [isSpace, Bool.or_eq_true, decide_eq_true_eq] at h
  rcases h with ((e | e) | e) | e <;> (subst e; decide)

theorem noName_ws (w : List Char) (c : Char) (x : List Char) (hw : wsOk w = true) (hc : isNameChar c = false) :
    NoName (w ++ c :: x) := by
  cases w with
  | nil => exact ⟨c, x, rfl, hc⟩
  | cons d ds =>
    simp only [wsOk, List.all_cons, Bool.and_eq_true] at hw
    exact ⟨d, ds ++ c :: x, rfl, space_not_name d hw.1⟩

theorem noSpace_q (q : QName) (x : List Char) (h : qnameOk q = true) : NoSpace (renderQ q ++ x) := by
  obtain ⟨_, ⟨c, r, e, hc⟩, _⟩ := renderQ_props q h
  exact ⟨c, r ++ x, by simp [e], (nameStart_not_special c hc).2.2.2.2.2.2⟩

theorem scanQName_render' (q : QName) (x : List Char) (h : qnameOk q = true) (hx : NoName x) :
    scanQName (renderQ q ++ x) = .ok q x := by
  obtain ⟨c, r, e, hc⟩ := hx
  subst e
  exact scanQName_render q c r h hc

theorem skipSpace_render' (w x : List Char) (hw : wsOk w = true) (hx : NoSpace x) : skipSpace (w ++ x) = .ok [] x := by
  obtain ⟨c, r, e, hc⟩ := hx
  subst e
  exact skipSpace_render w c r hw hc

theorem quote_cases (a : SAttr) : a.quote = '"' ∨ a.quote = '\'' := by
  unfold SAttr.quote; cases a.dq <;> simp

/-- one attribute is one lexical step -/
theorem lexTag_attr (q : QName) (as : List RawAttr) (a : SAttr) (rest : List Char) (h : a.ok = true) :
    lexTag q as (a.render ++ rest) = .ok (.tag q (as ++ [a.raw]), .none) rest := by
  simp only [SAttr.ok, Bool.and_eq_true, Bool.not_eq_true'] at h
  obtain ⟨⟨⟨⟨⟨_, hpre⟩, hname⟩, heq1⟩, heq2⟩, hval⟩ := h
  obtain ⟨_, ⟨c, r, e, hc⟩, _⟩ := renderQ_props a.name hname
  have hq := quote_cases a
  have hqa : some a.quote ≠ some '&' := by rcases hq with e' | e' <;> (rw [e']; decide)
  have hqs : isSpace a.quote = false := by rcases hq with e' | e' <;> (rw [e']; decide)
  have hqb : (a.quote = '"' || a.quote = '\'') = true := by rcases hq with e' | e' <;> (rw [e']; decide)
  obtain ⟨h1, h2, h3, h4, h5, h6, h7⟩ := nameStart_not_special c hc
  -- the characters after the leading white space
  have hbody : lexTagBody q as (renderQ a.name ++ (a.eq1 ++ '=' :: (a.eq2 ++ a.quote :: (renderPieces a.val ++ a.quote :: rest))))
      = .ok (.tag q (as ++ [a.raw]), .none) rest := by
    have hattr : lexAttr q as (renderQ a.name ++ (a.eq1 ++ '=' :: (a.eq2 ++ a.quote :: (renderPieces a.val ++ a.quote :: rest))))
        = .ok (.tag q (as ++ [a.raw]), .none) rest := by
      unfold lexAttr
      rw [scanQName_render' a.name _ hname (noName_ws a.eq1 '=' _ heq1 (by decide))]
      simp only [R.bind]
      rw [skipSpace_render' a.eq1 _ heq1 ⟨'=', _, rfl, by decide⟩]
      simp only [R.bind, nextIf, decide_true, if_true]
      rw [skipSpace_render' a.eq2 _ heq2 ⟨a.quote, _, rfl, hqs⟩]
      simp only [R.bind, nextIf, hqb, if_true]
      rw [scanText_pieces (some a.quote) hqa _ a.val nul nul hval (by decide), text_stop_quote a.quote _ _ rest hq, rapp_ok]
      simp only [List.append_nil, checkedText, chars_ok _ a.val nul nul hval, if_true, SAttr.raw]
    rw [e] at hattr ⊢
    simp only [List.cons_append] at hattr ⊢
    unfold lexTagBody
    split
    · simp at *
    · rename_i heq; injection heq with e1 e2; exact (h1 e1).elim
    · rename_i heq; injection heq with e1 e2; exact (h4 e1).elim
    · rename_i heq; injection heq with e1 e2; subst e1 e2; exact hattr
  unfold lexTag
  simp only [SAttr.render, List.append_assoc, List.cons_append, List.nil_append]
  rw [skipSpace_render' a.pre _ hpre (noSpace_q a.name _ hname)]
  simp only [R.bind]
  exact hbody

theorem lexTag_close (q : QName) (as : List RawAttr) (tail rest : List Char) (h : wsOk tail = true) :
    lexTag q as (tail ++ '>' :: rest) = .ok (.content, .startTag q as false) rest := by
  unfold lexTag
  rw [skipSpace_render' tail _ h ⟨'>', rest, rfl, by decide⟩]
  simp [R.bind, lexTagBody]

theorem lexTag_selfClose (q : QName) (as : List RawAttr) (tail rest : List Char) (h : wsOk tail = true) :
    lexTag q as (tail ++ '/' :: '>' :: rest) = .ok (.content, .startTag q as true) rest := by
  unfold lexTag
  rw [skipSpace_render' tail _ h ⟨'/', _, rfl, by decide⟩]
  simp [R.bind, lexTagBody, nextIf]

/-- `<name` is one lexical step (what follows cannot continue the name) -/
theorem lexContent_open (q : QName) (x : List Char) (h : qnameOk q = true) (hx : NoName x) :
    lexContent ('<' :: (renderQ q ++ x)) = .ok (.tag q [], .none) x := by
  obtain ⟨_, ⟨c, r, e, hc⟩, _⟩ := renderQ_props q h
  obtain ⟨h1, h2, h3, _⟩ := nameStart_not_special c hc
  have hs := scanQName_render' q x h hx
  simp only [lexContent, if_true]
  rw [e] at hs ⊢
  simp only [List.cons_append] at hs ⊢
  unfold lexMarkup
  split
  · simp at *
  · rename_i heq; injection heq with e1 e2; exact (h1 e1).elim
  · rename_i heq; injection heq with e1 e2; exact (h2 e1).elim
  · rename_i heq; injection heq with e1 e2; exact (h3 e1).elim
  · rename_i heq; injection heq with e1 e2; subst e1 e2; simp [hs, R.bind]

theorem lexContent_endTag (q : QName) (etail rest : List Char) (h : qnameOk q = true) (hw : wsOk etail = true) :
    lexContent ('<' :: '/' :: (renderQ q ++ (etail ++ '>' :: rest))) = .ok (.content, .endTag q) rest := by
  simp only [lexContent, if_true, lexMarkup, lexEndTag]
  rw [scanQName_render' q _ h (noName_ws etail '>' rest hw (by decide))]
  simp only [R.bind]
  rw [skipSpace_render' etail _ hw ⟨'>', rest, rfl, by decide⟩]
  simp [R.bind, nextIf]

/-! ### character data, CDATA, comments, processing instructions -/

theorem pieces_head (ps : List Piece) (x : List Char) (hne : ps.isEmpty = false) (h : piecesOk none nul nul ps = true) :
    ∃ c r, renderPieces ps ++ x = c :: r ∧ c ≠ '<' := by
  cases ps with
  | nil => simp at hne
  | cons p ps' =>
    cases p with
    | raw c =>
      simp only [piecesOk, Bool.and_eq_true, rawOk, bne_iff_ne, ne_eq] at h
      exact ⟨c, _, rfl, h.1.1.1.1.1.2⟩
    | named e => exact ⟨'&', _, rfl, by decide⟩
    | num hex ds => exact ⟨'&', _, rfl, by decide⟩

theorem lexContent_text (ps : List Piece) (r : List Char) (hne : ps.isEmpty = false) (h : piecesOk none nul nul ps = true) :
    lexContent (renderPieces ps ++ '<' :: r) = .ok (.content, .text (chars ps)) ('<' :: r) := by
  obtain ⟨c, r', e, hc⟩ := pieces_head ps ('<' :: r) hne h
  have : lexText (renderPieces ps ++ '<' :: r) = .ok (.content, .text (chars ps)) ('<' :: r) := by
    unfold lexText
    rw [scanText_pieces none (by decide) _ ps nul nul h (by decide), text_stop_lt, rapp_ok]
    simp [checkedText, chars_ok none ps nul nul h]
  rw [e] at this ⊢
  simp only [lexContent, hc, if_false]
  exact this

theorem lexContent_text_eof (ps : List Piece) (hne : ps.isEmpty = false) (h : piecesOk none nul nul ps = true) :
    lexContent (renderPieces ps) = .okEof (.content, .text (chars ps)) := by
  obtain ⟨c, r', e, hc⟩ := pieces_head ps [] hne h
  have : lexText (renderPieces ps ++ []) = .okEof (.content, .text (chars ps)) := by
    unfold lexText
    rw [scanText_pieces none (by decide) _ ps nul nul h (by decide), text_eof, rapp_okEof]
    simp [checkedText, chars_ok none ps nul nul h]
  rw [e] at this
  simp only [List.append_nil] at e
  rw [e]
  simp only [lexContent, hc, if_false]
  exact this

theorem dropLast2 (s : List Char) (a b : Char) : (s ++ [a, b]).dropLast.dropLast = s := by
  have : s ++ [a, b] = (s ++ [a]) ++ [b] := by simp
  rw [this, List.dropLast_concat, List.dropLast_concat]

theorem cdata_body (rest : List Char) : ∀ (s : List Char) (p0 p1 : Char), cdataOk p0 p1 s = true → p1 ≠ '\r' →
    scanText none true (.plain p0 p1) (s ++ ']' :: ']' :: '>' :: rest) = .ok (s ++ [']', ']']) rest := by
  intro s
  induction s with
  | nil =>
    intro p0 p1 _ hp1
    simp only [List.nil_append]
    rw [scanText_cons]
    simp only [tstep]
    simp [hp1]
    rw [scanText_cons]
    simp [tstep]
    rw [scanText_cons]
    simp [tstep, R.cons]
  | cons c cs ih =>
    intro p0 p1 h hp1
    simp only [cdataOk, Bool.and_eq_true, bne_iff_ne, ne_eq, Bool.not_eq_true'] at h
    obtain ⟨⟨⟨hx, hcr⟩, hcd⟩, hrest⟩ := h
    rw [List.cons_append, scanText_cons]
    simp only [tstep, hcd, hcr, hp1]
    simp [ih p1 c hrest hcr, R.cons]

theorem cdata_textOk : ∀ (s : List Char) (p0 p1 : Char), cdataOk p0 p1 s = true → textOk s = true := by
  intro s
  induction s with
  | nil => intro _ _ _; rfl
  | cons c cs ih =>
    intro p0 p1 h
    simp only [cdataOk, Bool.and_eq_true] at h
    simp only [textOk, List.all_cons, Bool.and_eq_true]
    exact ⟨h.1.1.1, ih _ _ h.2⟩

theorem lexContent_cdata (s rest : List Char) (h : cdataOk nul nul s = true) :
    lexContent (['<', '!', '[', 'C', 'D', 'A', 'T', 'A', '['] ++ (s ++ [']', ']', '>'] ++ rest)) = .ok (.content, .text s) rest := by
  have : ['<', '!', '[', 'C', 'D', 'A', 'T', 'A', '['] ++ (s ++ [']', ']', '>'] ++ rest)
      = '<' :: '!' :: '[' :: 'C' :: 'D' :: 'A' :: 'T' :: 'A' :: '[' :: (s ++ ']' :: ']' :: '>' :: rest) := by
    simp
  rw [this]
  simp only [lexContent, if_true, lexMarkup, lexBang, lexCData]
  have he : expectLit ['C', 'D', 'A', 'T', 'A', '['] ('C' :: 'D' :: 'A' :: 'T' :: 'A' :: '[' :: (s ++ ']' :: ']' :: '>' :: rest))
      = .ok () (s ++ ']' :: ']' :: '>' :: rest) := by
    simp [expectLit]
  rw [he]
  simp only [R.bind]
  rw [cdata_body rest s nul nul h (by decide)]
  simp [dropLast2, checkedText, cdata_textOk s nul nul h, R.bind]

theorem scanComment_cons (k : Nat) (c : Char) (r : List Char) :
    scanComment k (c :: r) =
      (if k = 2 then (if c = '>' then .ok [] r else .err)
       else if c = '-' then R.cons c (scanComment (k + 1) r) else R.cons c (scanComment 0 r)) := by
  by_cases hk : k = 2 <;> by_cases hc : c = '>' <;> by_cases hd : c = '-' <;> simp [scanComment, scan, hk, hc, hd]

theorem comment_body (rest : List Char) : ∀ (s : List Char) (k : Nat), k < 2 → commentOk k s = true →
    scanComment k (s ++ '-' :: '-' :: '>' :: rest) = .ok (s ++ ['-', '-']) rest := by
  intro s
  induction s with
  | nil =>
    intro k _ h
    simp only [commentOk, decide_eq_true_eq] at h
    subst h
    simp [scanComment_cons, R.cons]
  | cons c cs ih =>
    intro k hk h
    simp only [commentOk] at h
    rw [List.cons_append, scanComment_cons]
    have hk2 : k ≠ 2 := by omega
    split at h
    · rename_i hc
      simp only [Bool.and_eq_true, decide_eq_true_eq] at h
      obtain ⟨h0, h1⟩ := h
      subst h0
      simp [hc, ih 1 (by omega) h1, R.cons]
    · rename_i hc
      simp [hk2, hc, ih 0 (by omega) h, R.cons]

theorem lexContent_comment (s rest : List Char) (h : commentOk 0 s = true) :
    lexContent (['<', '!', '-', '-'] ++ (s ++ ['-', '-', '>'] ++ rest)) = .ok (.content, .comment s) rest := by
  have : ['<', '!', '-', '-'] ++ (s ++ ['-', '-', '>'] ++ rest) = '<' :: '!' :: '-' :: '-' :: (s ++ '-' :: '-' :: '>' :: rest) := by
    simp
  rw [this]
  simp only [lexContent, if_true, lexMarkup, lexBang, nextIf, decide_true, R.bind, lexComment]
  rw [comment_body rest s 0 (by omega) h]
  simp [dropLast2]

theorem scanPI_cons (qm : Bool) (c : Char) (r : List Char) :
    scanPI qm (c :: r) = (if qm && c = '>' then .ok [] r else R.cons c (scanPI (c = '?') r)) := by
  cases qm <;> by_cases hc : c = '>' <;> simp [scanPI, scan, hc]

theorem pi_body (rest : List Char) : ∀ (d : List Char) (qm : Bool), piDataOk qm d = true →
    scanPI qm (d ++ '?' :: '>' :: rest) = .ok (d ++ ['?']) rest := by
  intro d
  induction d with
  | nil => intro qm _; simp [scanPI_cons, R.cons]
  | cons c cs ih =>
    intro qm h
    simp only [piDataOk, Bool.and_eq_true, Bool.not_eq_true'] at h
    rw [List.cons_append, scanPI_cons]
    simp only [h.1]
    simp [ih _ h.2, R.cons]

theorem lexContent_pi (t sep d rest : List Char) (h : piOk t sep d = true) :
    lexContent ('<' :: '?' :: (t ++ (sep ++ (d ++ '?' :: '>' :: rest)))) = .ok (.content, .pi t d) rest := by
  simp only [piOk, Bool.and_eq_true, bne_iff_ne, ne_eq] at h
  obtain ⟨⟨⟨⟨ht, hxml⟩, hsep⟩, hd0⟩, hdata⟩ := h
  have hnn : NoName (sep ++ (d ++ '?' :: '>' :: rest)) := by
    cases d with
    | nil => exact noName_ws sep '?' _ hsep (by decide)
    | cons c cs =>
      simp only [Bool.and_eq_true, Bool.not_eq_true'] at hd0
      cases sep with
      | nil => simp at hd0
      | cons x xs =>
        simp only [wsOk, List.all_cons, Bool.and_eq_true] at hsep
        exact ⟨x, _, rfl, space_not_name x hsep.1⟩
  have hns : NoSpace (d ++ '?' :: '>' :: rest) := by
    cases d with
    | nil => exact ⟨'?', _, rfl, by decide⟩
    | cons c cs =>
      simp only [Bool.and_eq_true, Bool.not_eq_true'] at hd0
      exact ⟨c, _, rfl, hd0.2⟩
  obtain ⟨c, r, e, hc⟩ := hnn
  simp only [lexContent, if_true, lexMarkup, lexPI]
  rw [e, scanName_render t c r ht hc, ← e]
  simp only [R.bind]
  rw [skipSpace_render' sep _ hsep hns]
  simp only [R.bind]
  rw [pi_body rest d false hdata]
  simp
  intro e'
  exact (hxml (by simpa using e')).elim

end XmppVerif.Proofs.C02Bytes
