import XmppVerif.Proofs.C02BytesRoundTrip
/-
Cutting a rendered stream at a character offset (for C12, stage B): the complete tokens of a proper prefix of a
rendered tree are a PROPER prefix of the tree's tokens - the element's closing token is missing - because no proper
prefix of a lexeme is itself a lexeme (a lexical step is deterministic and stable under extension of the input).
-/
namespace XmppVerif.Proofs.C02Bytes
open XmppVerif.Model.C02Bytes XmppVerif.Spec.C02Bytes

/-- a proper prefix of what one lexical step consumes is not accepted by that step -/
theorem not_ok_strict {m : Mode} {a b rest0 : List Char} {v0 : Mode × Ev}
    (hL : lexStep m (a ++ (b ++ rest0)) = .ok v0 rest0) (hb : b ≠ []) : ∀ v r, lexStep m a ≠ .ok v r := by
  intro v r h
  have := (good1_lexStep m a v r h).2 (b ++ rest0)
  rw [hL] at this
  injection this with _ h2
  have := congrArg List.length h2
  simp only [List.length_append] at this
  have : b.length = 0 := by omega
  exact hb (List.eq_nil_of_length_eq_zero this)

theorem complete_nil_of_not_ok (m : Mode) (st : Stack) (a : List Char) (h : ∀ v r, lexStep m a ≠ .ok v r) :
    (tokenizeFrom m st a).complete = [] := by
  unfold tokenizeFrom
  simp only [tokF]
  split
  · simp [Result.complete]
  · cases hl : lexStep m a with
    | ok v rest => exact absurd hl (h v rest)
    | okEof v =>
      obtain ⟨t, ht⟩ := lexStep_okEof hl
      simp [ht, applyEv_text, Result.complete]
    | eof => simp [Result.complete]
    | err => simp [Result.complete]
    | unsup w => simp [Result.complete]

theorem complete_pre' (ts : List BTok) (m : Mode) (st : Stack) (cs : List Char) :
    ((tokenizeFrom m st cs).pre ts).complete = ts ++ (tokenizeFrom m st cs).complete :=
  complete_pre ts _ (cut_nonempty' m st cs)

/-- everything but the last character of a rendered tree: the tree's tokens without (at least) the last one -/
theorem cut_last (t : STree) (st : Stack) (body : List Char) (c : Char) (hok : t.ok = true) (h : render t = body ++ [c]) :
    ∃ ys, ys ≠ [] ∧ btoks (curEnv st) t = (tokenizeFrom .content st body).complete ++ ys := by
  cases t with
  | elem q as tail kids etail =>
    simp only [STree.ok, Bool.and_eq_true] at hok
    obtain ⟨⟨⟨⟨hq, has⟩, ht⟩, het⟩, hkids⟩ := hok
    have hr : render (.elem q as tail kids etail) =
        ('<' :: (renderQ q ++ (renderAttrs as ++ (tail ++ '>' :: (renderL kids ++ '<' :: '/' :: (renderQ q ++ etail)))))) ++ ['>'] := by
      simp [render]
    rw [hr] at h
    obtain ⟨hb, _⟩ := List.append_inj' h rfl
    subst hb
    rw [tok_open q as tail st '>' _ hq has ht (by decide), step_tag (lexTag_close q _ tail _ ht)]
    simp only [applyEv, Bool.false_eq_true, if_false]
    rw [rt_list kids (⟨q, addDecls (curEnv st) (as.map SAttr.raw)⟩ :: st) _ hkids (fun _ => ⟨_, rfl⟩)]
    have hend : ∀ v r, lexStep .content ('<' :: '/' :: (renderQ q ++ etail)) ≠ .ok v r := by
      apply not_ok_strict (b := ['>']) (rest0 := []) (v0 := (.content, .endTag q))
      · have := lexContent_endTag q etail [] hq het
        simpa [lexStep, List.append_assoc] using this
      · simp
    refine ⟨[stopTok (curEnv st) q as], by simp, ?_⟩
    rw [pre_pre, complete_pre', complete_nil_of_not_ok _ _ _ hend]
    simp [btoks, startTok, stopTok, envOf, curEnv]
  | empty q as tail =>
    simp only [STree.ok, Bool.and_eq_true] at hok
    obtain ⟨⟨hq, has⟩, ht⟩ := hok
    have hr : render (.empty q as tail) = ('<' :: (renderQ q ++ (renderAttrs as ++ (tail ++ ['/'])))) ++ ['>'] := by
      simp [render]
    rw [hr] at h
    obtain ⟨hb, _⟩ := List.append_inj' h rfl
    subst hb
    rw [tok_open q as tail st '/' [] hq has ht (by decide)]
    have hend : ∀ v r, lexStep (.tag q (as.map SAttr.raw)) (tail ++ ['/']) ≠ .ok v r := by
      apply not_ok_strict (b := ['>']) (rest0 := []) (v0 := (.content, .startTag q (as.map SAttr.raw) true))
      · have := lexTag_selfClose q (as.map SAttr.raw) tail [] ht
        simpa [lexStep, List.append_assoc] using this
      · simp
    refine ⟨btoks (curEnv st) (.empty q as tail), by simp [btoks], ?_⟩
    rw [complete_nil_of_not_ok _ _ _ hend]
    simp
  | text ps =>
    simp only [STree.ok, Bool.and_eq_true, Bool.not_eq_true'] at hok
    simp only [render] at h
    have hend : ∀ v r, lexStep .content body ≠ .ok v r := by
      apply not_ok_strict (b := [c]) (rest0 := ['<']) (v0 := (.content, .text (chars ps)))
      · have := lexContent_text ps [] hok.1 hok.2
        rw [h] at this
        simpa [lexStep, List.append_assoc] using this
      · simp
    refine ⟨btoks (curEnv st) (.text ps), by simp [btoks], ?_⟩
    rw [complete_nil_of_not_ok _ _ _ hend]
    simp
  | cdata s =>
    simp only [STree.ok] at hok
    have hr : render (.cdata s) = (['<', '!', '[', 'C', 'D', 'A', 'T', 'A', '['] ++ (s ++ [']', ']'])) ++ ['>'] := by
      simp [render]
    rw [hr] at h
    obtain ⟨hb, _⟩ := List.append_inj' h rfl
    subst hb
    have hend : ∀ v r, lexStep .content (['<', '!', '[', 'C', 'D', 'A', 'T', 'A', '['] ++ (s ++ [']', ']'])) ≠ .ok v r := by
      apply not_ok_strict (b := ['>']) (rest0 := []) (v0 := (.content, .text s))
      · have := lexContent_cdata s [] hok
        simpa [lexStep, List.append_assoc] using this
      · simp
    refine ⟨btoks (curEnv st) (.cdata s), by simp [btoks], ?_⟩
    rw [complete_nil_of_not_ok _ _ _ hend]
    simp
  | comment s =>
    simp only [STree.ok] at hok
    have hr : render (.comment s) = (['<', '!', '-', '-'] ++ (s ++ ['-', '-'])) ++ ['>'] := by
      simp [render]
    rw [hr] at h
    obtain ⟨hb, _⟩ := List.append_inj' h rfl
    subst hb
    have hend : ∀ v r, lexStep .content (['<', '!', '-', '-'] ++ (s ++ ['-', '-'])) ≠ .ok v r := by
      apply not_ok_strict (b := ['>']) (rest0 := []) (v0 := (.content, .comment s))
      · have := lexContent_comment s [] hok
        simpa [lexStep, List.append_assoc] using this
      · simp
    refine ⟨btoks (curEnv st) (.comment s), by simp [btoks], ?_⟩
    rw [complete_nil_of_not_ok _ _ _ hend]
    simp
  | pi t sep d =>
    simp only [STree.ok] at hok
    have hr : render (.pi t sep d) = ('<' :: '?' :: (t ++ (sep ++ (d ++ ['?'])))) ++ ['>'] := by
      simp [render]
    rw [hr] at h
    obtain ⟨hb, _⟩ := List.append_inj' h rfl
    subst hb
    have hend : ∀ v r, lexStep .content ('<' :: '?' :: (t ++ (sep ++ (d ++ ['?'])))) ≠ .ok v r := by
      apply not_ok_strict (b := ['>']) (rest0 := []) (v0 := (.content, .pi t d))
      · have := lexContent_pi t sep d [] hok
        simpa [lexStep, List.append_assoc] using this
      · simp
    refine ⟨btoks (curEnv st) (.pi t sep d), by simp [btoks], ?_⟩
    rw [complete_nil_of_not_ok _ _ _ hend]
    simp

/-- any proper prefix of a rendered tree: its complete tokens are a proper prefix of the tree's tokens -/
theorem cut_tree (t : STree) (st : Stack) (a b : List Char) (hok : t.ok = true) (h : render t = a ++ b) (hb : b ≠ []) :
    ∃ ys, ys ≠ [] ∧ btoks (curEnv st) t = (tokenizeFrom .content st a).complete ++ ys := by
  have hbl := List.dropLast_concat_getLast hb
  have h' : render t = (a ++ b.dropLast) ++ [b.getLast hb] := by
    rw [List.append_assoc, hbl]; exact h
  obtain ⟨ys, hys, he⟩ := cut_last t st _ _ hok h'
  obtain ⟨zs, hz⟩ := complete_mono a.length .content st a b.dropLast (Nat.le_refl _)
  refine ⟨zs ++ ys, by simp [hys], ?_⟩
  rw [he, ← hz, List.append_assoc]

/-! ### forests -/

theorem okL_split : ∀ (pre : List STree) (t : STree) (post : List STree), okL (pre ++ t :: post) = true →
    okL pre = true ∧ t.ok = true ∧ (lastIsText pre = true → t.isText = false) := by
  intro pre
  induction pre with
  | nil =>
    intro t post h
    refine ⟨rfl, ?_, by simp [lastIsText]⟩
    cases post with
    | nil => simpa [okL] using h
    | cons u r => simp only [List.nil_append, okL, Bool.and_eq_true] at h; exact h.1.1
  | cons x xs ih =>
    intro t post h
    cases xs with
    | nil =>
      simp only [List.cons_append, List.nil_append, okL, Bool.and_eq_true, Bool.not_eq_true'] at h
      obtain ⟨⟨hx, hadj⟩, hrest⟩ := h
      have := ih t post (by simpa using hrest)
      refine ⟨by simpa [okL] using hx, this.2.1, ?_⟩
      intro hl
      have hxt : x.isText = true := by simpa [lastIsText] using hl
      simpa [hxt] using hadj
    | cons y ys =>
      simp only [List.cons_append, okL, Bool.and_eq_true, Bool.not_eq_true'] at h
      obtain ⟨⟨hx, hadj⟩, hrest⟩ := h
      have := ih t post (by simpa using hrest)
      refine ⟨by simp [okL, hx, hadj, this.1], this.2.1, ?_⟩
      intro hl
      exact this.2.2 (by simpa [lastIsText] using hl)

theorem startsLt_prefix (t : STree) (a b : List Char) (ht : t.isText = false) (h : render t = a ++ b) (ha : a ≠ []) :
    StartsLt a := by
  obtain ⟨r, hr⟩ := startsLt_of_nonText t [] ht
  simp only [List.append_nil] at hr
  rw [hr] at h
  cases a with
  | nil => exact absurd rfl ha
  | cons x xs =>
    simp only [List.cons_append, List.cons.injEq] at h
    exact ⟨xs, by rw [← h.1]⟩

/-- **cut inside a forest**: all trees before the cut deliver their tokens, the tree that is cut delivers a proper
prefix of its tokens (character data that is cut, or ends exactly at the cut, delivers nothing complete) -/
theorem cut_forest (pre : List STree) (t : STree) (post : List STree) (st : Stack) (a b : List Char)
    (hok : okL (pre ++ t :: post) = true) (h : render t = a ++ b) (hb : b ≠ [] ∨ t.isText = true)
    (hpre : lastIsText pre = true → a ≠ []) :
    ∃ P ys, ys ≠ [] ∧ btoks (curEnv st) t = P ++ ys ∧
      (tokenizeFrom .content st (renderL pre ++ a)).complete = btoksL (curEnv st) pre ++ P := by
  obtain ⟨hokpre, hokt, hadj⟩ := okL_split pre t post hok
  have hlt : lastIsText pre = true → StartsLt a := fun hl => startsLt_prefix t a b (hadj hl) h (hpre hl)
  rw [rt_list pre st a hokpre hlt, complete_pre']
  by_cases hbe : b = []
  · -- the cut falls exactly after character data
    have htx : t.isText = true := by rcases hb with hb | hb; exact absurd hbe hb; exact hb
    cases t with
    | text ps =>
      subst hbe
      simp only [STree.ok, Bool.and_eq_true, Bool.not_eq_true'] at hokt
      simp only [render, List.append_nil] at h
      refine ⟨[], btoks (curEnv st) (.text ps), by simp [btoks], by simp, ?_⟩
      have : (tokenizeFrom .content st a).complete = [] := by
        rw [← h]
        unfold tokenizeFrom
        have hne : (renderPieces ps).isEmpty = false := by
          obtain ⟨c, r, e, _⟩ := pieces_head ps [] hokt.1 hokt.2
          simp only [List.append_nil] at e
          simp [e]
        simp only [tokF, hne, Bool.false_and, lexStep, lexContent_text_eof ps hokt.1 hokt.2, applyEv]
        simp [Result.complete]
      rw [this]
    | elem q as tail kids etail => simp [STree.isText] at htx
    | empty q as tail => simp [STree.isText] at htx
    | cdata s => simp [STree.isText] at htx
    | comment s => simp [STree.isText] at htx
    | pi t' sep d => simp [STree.isText] at htx
  · obtain ⟨ys, hys, he⟩ := cut_tree t st a b hokt h hbe
    exact ⟨_, ys, hys, he, rfl⟩

end XmppVerif.Proofs.C02Bytes
