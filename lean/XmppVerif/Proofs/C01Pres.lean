import XmppVerif.Proofs.C01Msg
namespace XmppVerif.Proofs.C01
open XmppVerif.Model.C01 XmppVerif.Spec.C01 XmppVerif.Props.C01

/-! ### Presence -/

theorem presKid_error (ctx : Str) (p : Presence) (a : List Attr) (ks : List El) (hx : extSpaces.contains ctx = false) :
    presKid p (.elem ⟨ctx, (['e', 'r', 'r', 'o', 'r'] : Str)⟩ a ks) =
      some { p with error := decErrOnto p.error (.elem ⟨ctx, (['e', 'r', 'r', 'o', 'r'] : Str)⟩ a ks) } := by
  have e1 : ¬ ((['e', 'r', 'r', 'o', 'r'] : Str) = (['s', 'h', 'o', 'w'] : Str)) := by decide
  have e2 : ¬ ((['e', 'r', 'r', 'o', 'r'] : Str) = (['s', 't', 'a', 't', 'u', 's'] : Str)) := by decide
  have e3 : ¬ ((['e', 'r', 'r', 'o', 'r'] : Str) = (['p', 'r', 'i', 'o', 'r', 'i', 't', 'y'] : Str)) := by decide
  rw [presKid]; dsimp only
  rw [if_neg (by rw [hx]; simp), if_neg e1, if_neg e2, if_neg e3, if_pos rfl]

theorem presKid_show (ctx : Str) (p : Presence) (s : Str) (hx : extSpaces.contains ctx = false) :
    presKid p (.elem ⟨ctx, (['s', 'h', 'o', 'w'] : Str)⟩ [] [.text true s]) = some { p with show_ := s } := by
  rw [presKid]; dsimp only
  rw [if_neg (by rw [hx]; simp), if_pos rfl]
  simp [contentOf]

theorem presKid_status (ctx : Str) (p : Presence) (s : Str) (hx : extSpaces.contains ctx = false) :
    presKid p (.elem ⟨ctx, (['s', 't', 'a', 't', 'u', 's'] : Str)⟩ [] [.text true s]) = some { p with status := s } := by
  have e1 : ¬ ((['s', 't', 'a', 't', 'u', 's'] : Str) = (['s', 'h', 'o', 'w'] : Str)) := by decide
  rw [presKid]; dsimp only
  rw [if_neg (by rw [hx]; simp), if_neg e1, if_pos rfl]
  simp [contentOf]

theorem presKid_priority (ctx : Str) (p : Presence) (i : Int) (hi : intFits 8 i = true)
    (hx : extSpaces.contains ctx = false) :
    presKid p (.elem ⟨ctx, (['p', 'r', 'i', 'o', 'r', 'i', 't', 'y'] : Str)⟩ [] [.text true (showInt i)]) = some { p with priority := i } := by
  have e1 : ¬ ((['p', 'r', 'i', 'o', 'r', 'i', 't', 'y'] : Str) = (['s', 'h', 'o', 'w'] : Str)) := by decide
  have e2 : ¬ ((['p', 'r', 'i', 'o', 'r', 'i', 't', 'y'] : Str) = (['s', 't', 'a', 't', 'u', 's'] : Str)) := by decide
  rw [presKid]; dsimp only
  rw [if_neg (by rw [hx]; simp), if_neg e1, if_neg e2, if_pos rfl]
  have hc : contentOf [El.text true (showInt i)] = showInt i := by simp [contentOf]
  rw [hc, if_neg (showInt_ne_nil i), trimSpace_id _ (showInt_noSpace i), parseIntBits_showInt 8 i hi]
  rfl

theorem pres_err_kid (ctx : Str) (p : Presence) (e : Err) (hctx : ctxOk ctx = true) (hp : p.error = Err.zero)
    (he : e.wf = true) : presKid p (view ctx (errElem e)) = some { p with error := e } := by
  have hrt := err_rt ctx e he
  obtain ⟨a, ks, hv⟩ := view_errElem ctx e
  rw [hv] at hrt ⊢
  rw [presKid_error ctx p a ks (ctx_not_ext ctx hctx), hp, hrt]

theorem pres_fold_err (ctx : Str) (p : Presence) (e : Err) (hctx : ctxOk ctx = true) (hp : p.error = Err.zero)
    (he : e.wf = true) :
    foldKids presKid p (viewL ctx (encErr e)) = some (if e.isEmpty then p else { p with error := e }) := by
  unfold encErr
  cases h : e.isEmpty with
  | true => simp [viewL, foldKids]
  | false => simp [viewL, foldKids, pres_err_kid ctx p e hctx hp he]

theorem pres_rt (ctx : Str) (p : Presence) (hctx : ctxOk ctx = true) (hw : p.wf = true) :
    decPresence (view ctx (encPresence p)) = some p := by
  obtain ⟨a, s, t, i, e⟩ := p
  simp only [Presence.wf, Bool.and_eq_true] at hw
  obtain ⟨⟨⟨⟨ha, hs⟩, ht⟩, hi⟩, he⟩ := hw
  have hns : nsOf ctx ⟨[], ['p', 'r', 'e', 's', 'e', 'n', 'c', 'e']⟩ = ctx := by simp [nsOf]
  have hx := ctx_not_ext ctx hctx
  have hpv : viewL ctx (if i = 0 then [] else [.elem ⟨[], (['p', 'r', 'i', 'o', 'r', 'i', 't', 'y'] : Str)⟩ [] [.text true (showInt i)]]) =
      if i = 0 then [] else [.elem ⟨ctx, (['p', 'r', 'i', 'o', 'r', 'i', 't', 'y'] : Str)⟩ [] [.text true (showInt i)]] := by
    split
    · simp [viewL]
    · simp [viewL, view, nsOf, viewAttrs, sanitize_legal _ (legal_showInt i)]
  rw [encPresence, view_elem]
  simp only [if_true, List.nil_append, attrs_view a ha, decPresence, decAttrs_encAttrs, hns, viewL_append,
    view_optText ctx _ _ hs, view_optText ctx _ _ ht, foldKids_append]
  rw [hpv]
  have k1 : ∀ p : Presence, foldKids presKid p (if s = [] then [] else [.elem ⟨ctx, (['s', 'h', 'o', 'w'] : Str)⟩ [] [.text true s]]) =
      some (if s = [] then p else { p with show_ := s }) := by
    intro p; split
    · rfl
    · simp only [foldKids, presKid_show ctx p s hx]
  have k2 : ∀ p : Presence, foldKids presKid p (if t = [] then [] else [.elem ⟨ctx, (['s', 't', 'a', 't', 'u', 's'] : Str)⟩ [] [.text true t]]) =
      some (if t = [] then p else { p with status := t }) := by
    intro p; split
    · rfl
    · simp only [foldKids, presKid_status ctx p t hx]
  have k3 : ∀ p : Presence, foldKids presKid p (if i = 0 then [] else [.elem ⟨ctx, (['p', 'r', 'i', 'o', 'r', 'i', 't', 'y'] : Str)⟩ [] [.text true (showInt i)]]) =
      some (if i = 0 then p else { p with priority := i }) := by
    intro p; split
    · rfl
    · simp only [foldKids, presKid_priority ctx p i hi hx]
  simp only [k1, k2, k3, Option.bind_some]
  rw [pres_fold_err ctx _ e hctx (by split <;> split <;> split <;> rfl) he]
  by_cases h1 : s = [] <;> by_cases h2 : t = [] <;> by_cases h3 : i = 0 <;> cases h4 : e.isEmpty <;>
    simp [h1, h2, h3, Err.zero] <;> (try exact (isEmpty_zero e h4).symm) <;> (try simp [isEmpty_zero e h4, Err.zero])

end XmppVerif.Proofs.C01
