import XmppVerif.Model.C02Bytes
/-
Helper lemmas for Props/C02Bytes: every scanner of the character-level tokenizer, and hence one lexical step, is
  * stable: a result `ok v rest` obtained on an input `a` is obtained again, with `rest ++ b`, on every extension
    `a ++ b` (the decision never depends on characters that were not there), and
  * shrinking: `rest` is no longer than the input (one lexical step consumes at least one character).
-/
namespace XmppVerif.Proofs.C02Bytes
open XmppVerif.Model.C02Bytes

def Good {α : Type} (p : List Char → R α) : Prop :=
  ∀ a v r, p a = .ok v r → r.length ≤ a.length ∧ ∀ b, p (a ++ b) = .ok v (r ++ b)

theorem cons_ok {c : Char} {x : R (List Char)} {v : List Char} {r : List Char} (h : R.cons c x = .ok v r) :
    ∃ v', x = .ok v' r ∧ v = c :: v' := by
  cases x <;> simp [R.cons] at h
  rename_i a rest
  exact ⟨a, by simp [h.2], h.1.symm⟩

theorem bind_ok {α β : Type} {x : R α} {f : α → List Char → R β} {v : β} {r : List Char}
    (h : x.bind f = .ok v r) : ∃ a r1, x = .ok a r1 ∧ f a r1 = .ok v r := by
  cases x <;> simp [R.bind] at h
  rename_i a r1
  exact ⟨a, r1, rfl, h⟩

theorem Good.bind {α β : Type} {p : List Char → R α} {f : α → List Char → R β}
    (hp : Good p) (hf : ∀ x, Good (f x)) : Good (fun cs => (p cs).bind f) := by
  intro a v r h
  obtain ⟨x, r1, h1, h2⟩ := bind_ok h
  obtain ⟨l1, s1⟩ := hp a x r1 h1
  obtain ⟨l2, s2⟩ := hf x r1 v r h2
  refine ⟨by omega, ?_⟩
  intro b
  simp only [s1 b, R.bind, s2 b]

theorem Good.pure {α : Type} (x : α) : Good (fun r => R.ok x r) := by
  intro a v r h
  injection h with h1 h2
  subst h1 h2
  exact ⟨Nat.le_refl _, fun _ => rfl⟩

theorem Good.err {α : Type} : Good (fun _ => (R.err : R α)) := by
  intro a v r h; simp at h

theorem Good.ite {α : Type} (c : Bool) {p q : List Char → R α} (hp : Good p) (hq : Good q) :
    Good (fun r => if c then p r else q r) := by
  cases c <;> simpa

/-- the generic scanner is good whatever the step function -/
theorem good_scan {σ : Type} (step : σ → Char → Act σ) (fin : σ → Bool) : ∀ st, Good (scan step fin st) := by
  intro st a
  induction a generalizing st with
  | nil => intro v r h; simp only [scan] at h; split at h <;> simp at h
  | cons c cs ih =>
    intro v r h
    simp only [scan] at h
    split at h
    · rename_i st' hs
      obtain ⟨l, s⟩ := ih st' v r h
      refine ⟨by simp; omega, ?_⟩
      intro b
      simp only [List.cons_append, scan, hs, s b]
    · rename_i x st' hs
      obtain ⟨v', h1, h2⟩ := cons_ok h
      obtain ⟨l, s⟩ := ih st' v' r h1
      refine ⟨by simp; omega, ?_⟩
      intro b
      simp only [List.cons_append, scan, hs, s b, R.cons, h2]
    · rename_i hs
      injection h with h1 h2
      subst h1 h2
      refine ⟨by simp, ?_⟩
      intro b
      simp only [List.cons_append, scan, hs]
    · rename_i hs
      injection h with h1 h2
      subst h1 h2
      refine ⟨by simp, ?_⟩
      intro b
      simp only [List.cons_append, scan, hs]
    · simp at h
    · simp at h

theorem good_spanName : Good spanName := good_scan _ _ _
theorem good_skipSpace : Good skipSpace := good_scan _ _ _
theorem good_scanText (q : Option Char) (cdata : Bool) (st : TSt) : Good (scanText q cdata st) := good_scan _ _ _
theorem good_scanComment (k : Nat) : Good (scanComment k) := good_scan _ _ _
theorem good_scanPI (b : Bool) : Good (scanPI b) := good_scan _ _ _

theorem good_scanName : Good scanName := by
  unfold scanName
  apply Good.bind good_spanName
  intro s a v r h
  split at h <;> simp at h
  obtain ⟨h1, h2⟩ := h
  subst h1 h2
  refine ⟨Nat.le_refl _, ?_⟩
  intro b
  rename_i hc
  simp [hc]

theorem good_scanQName : Good scanQName := by
  unfold scanQName
  apply Good.bind good_scanName
  intro s a v r h
  split at h <;> simp at h
  obtain ⟨h1, h2⟩ := h
  subst h1 h2
  refine ⟨Nat.le_refl _, ?_⟩
  intro b
  rename_i hc
  simp [hc]

theorem good_expectLit : ∀ l, Good (expectLit l) := by
  intro l
  induction l with
  | nil =>
    intro a v r h
    simp only [expectLit] at h
    injection h with h1 h2
    subst h2
    exact ⟨Nat.le_refl _, fun b => by simp [expectLit]⟩
  | cons x xs ih =>
    intro a v r h
    cases a with
    | nil => simp [expectLit] at h
    | cons c cs =>
      simp only [expectLit] at h
      split at h
      · rename_i hc
        obtain ⟨l, s⟩ := ih cs v r h
        refine ⟨by simp; omega, ?_⟩
        intro b
        simp only [List.cons_append, expectLit, hc, if_true, s b]
      · simp at h

theorem good_nextIf (p : Char → Bool) : Good (nextIf p) := by
  intro a v r h
  cases a with
  | nil => simp [nextIf] at h
  | cons c cs =>
    simp only [nextIf] at h
    split at h
    · rename_i hc
      injection h with h1 h2
      subst h1 h2
      refine ⟨by simp, ?_⟩
      intro b
      simp [nextIf, hc]
    · simp at h

theorem checkedText_ok {plain : Bool} {x : R (List Char)} {v r} (h : checkedText plain x = .ok v r) :
    x = .ok v r ∧ textOk v = true := by
  cases x with
  | ok v' r' =>
    simp only [checkedText] at h
    split at h
    · injection h with h1 h2; subst h1 h2; exact ⟨rfl, by assumption⟩
    · simp at h
  | okEof v' =>
    simp only [checkedText] at h
    split at h
    · split at h <;> simp at h
    · simp at h
  | eof => simp [checkedText] at h
  | err => simp [checkedText] at h
  | unsup w => simp [checkedText] at h

theorem good_checkedText (plain : Bool) {p : List Char → R (List Char)} (hp : Good p) :
    Good (fun cs => checkedText plain (p cs)) := by
  intro a v r h
  obtain ⟨h1, h2⟩ := checkedText_ok h
  obtain ⟨l, s⟩ := hp a v r h1
  refine ⟨l, ?_⟩
  intro b
  simp only [s b, checkedText, h2, if_true]

theorem good_lexComment : Good lexComment := by
  unfold lexComment
  exact Good.bind (good_scanComment 0) (fun _ => Good.pure _)

theorem good_chop {p : List Char → R (List Char)} (hp : Good p) :
    Good (fun cs => match p cs with
                    | .ok v rest => R.ok (v.dropLast.dropLast) rest
                    | x => x) := by
  intro a v r h
  cases hpa : p a with
  | ok v' r' =>
    simp only [hpa] at h
    injection h with h1 h2
    subst h1 h2
    obtain ⟨l, s⟩ := hp a v' r' hpa
    refine ⟨l, ?_⟩
    intro b
    simp only [s b]
  | okEof v' => simp [hpa] at h
  | eof => simp [hpa] at h
  | err => simp [hpa] at h
  | unsup w => simp [hpa] at h

theorem good_lexCData : Good lexCData := by
  unfold lexCData
  apply Good.bind (good_expectLit _)
  intro _
  exact Good.bind (good_checkedText false (good_chop (good_scanText none true _))) (fun _ => Good.pure _)

theorem good_lexBang : Good lexBang := by
  intro a v r h
  unfold lexBang at h
  split at h
  · simp at h
  · rename_i r0
    have g : Good (fun cs => (nextIf (· = '-') cs).bind fun _ r' => lexComment r') :=
      Good.bind (good_nextIf _) (fun _ => good_lexComment)
    obtain ⟨l, s⟩ := g r0 v r h
    refine ⟨by simp; omega, ?_⟩
    intro b
    simpa [lexBang] using s b
  · rename_i r0
    obtain ⟨l, s⟩ := good_lexCData r0 v r h
    refine ⟨by simp; omega, ?_⟩
    intro b
    simpa [lexBang] using s b
  · simp at h

theorem good_lexPI : Good lexPI := by
  unfold lexPI
  apply Good.bind good_scanName
  intro t
  apply Good.bind good_skipSpace
  intro _
  apply Good.bind (good_scanPI false)
  intro v
  exact Good.ite _ Good.err (Good.pure _)

theorem good_lexEndTag : Good lexEndTag := by
  unfold lexEndTag
  apply Good.bind good_scanQName
  intro q
  apply Good.bind good_skipSpace
  intro _
  exact Good.bind (good_nextIf _) (fun _ => Good.pure _)

theorem lexText_ok {a : List Char} {v : Mode × Ev} {r : List Char} (h : lexText a = .ok v r) :
    ∃ t, v = (.content, .text t) ∧ checkedText true (scanText none false (.plain nul nul) a) = .ok t r := by
  unfold lexText at h
  cases hc : checkedText true (scanText none false (.plain nul nul) a) with
  | ok t r' =>
    simp only [hc] at h
    injection h with h1 h2
    exact ⟨t, h1.symm, by rw [h2]⟩
  | okEof t => simp [hc] at h
  | eof => simp [hc] at h
  | err => simp [hc] at h
  | unsup w => simp [hc] at h

theorem good_lexText : Good lexText := by
  intro a v r h
  obtain ⟨t, hv, hc⟩ := lexText_ok h
  obtain ⟨l, s⟩ := good_checkedText true (good_scanText none false (.plain nul nul)) a t r hc
  refine ⟨l, ?_⟩
  intro b
  have := s b
  simp only at this
  simp only [lexText, this, hv]

theorem good_lexMarkup : Good lexMarkup := by
  intro a v r h
  unfold lexMarkup at h
  split at h
  · simp at h
  · rename_i r0
    obtain ⟨l, s⟩ := good_lexEndTag r0 v r h
    exact ⟨by simp; omega, fun b => by simpa [lexMarkup] using s b⟩
  · rename_i r0
    obtain ⟨l, s⟩ := good_lexPI r0 v r h
    exact ⟨by simp; omega, fun b => by simpa [lexMarkup] using s b⟩
  · rename_i r0
    obtain ⟨l, s⟩ := good_lexBang r0 v r h
    exact ⟨by simp; omega, fun b => by simpa [lexMarkup] using s b⟩
  · rename_i c r0 h1 h2 h3
    have g : Good (fun cs => (scanQName cs).bind fun q rest => R.ok (Mode.tag q [], Ev.none) rest) :=
      Good.bind good_scanQName (fun _ => Good.pure _)
    obtain ⟨l, s⟩ := g (c :: r0) v r h
    refine ⟨l, ?_⟩
    intro b
    have := s b
    simp only [List.cons_append] at this ⊢
    unfold lexMarkup
    split
    · simp at *
    · rename_i heq; injection heq with e1 e2; subst e1; exact (h1 rfl).elim
    · rename_i heq; injection heq with e1 e2; subst e1; exact (h2 rfl).elim
    · rename_i heq; injection heq with e1 e2; subst e1; exact (h3 rfl).elim
    · rename_i heq; injection heq with e1 e2; subst e1 e2; exact this

/-- the first character of plain character data is consumed -/
theorem scanText_plain_shrinks {c : Char} {cs v r : List Char} (hc : c ≠ '<')
    (h : scanText none false (.plain nul nul) (c :: cs) = .ok v r) : r.length < (c :: cs).length := by
  simp only [scanText, scan] at h
  split at h
  · rename_i st' _
    have := (good_scan _ _ st' cs v r h).1
    simp; omega
  · rename_i x st' _
    obtain ⟨v'', h4, _⟩ := cons_ok h
    have := (good_scan _ _ st' cs v'' r h4).1
    simp; omega
  · rename_i hs
    exfalso
    simp only [tstep] at hs
    repeat' split at hs
    all_goals simp_all
  · injection h with _ h5; subst h5; simp
  · simp at h
  · simp at h

/-- one lexical step in content mode consumes at least one character -/
theorem good_lexContent : ∀ a v r, lexContent a = .ok v r → r.length < a.length ∧ ∀ b, lexContent (a ++ b) = .ok v (r ++ b) := by
  intro a v r h
  cases a with
  | nil => simp [lexContent] at h
  | cons c cs =>
    simp only [lexContent] at h
    split at h
    · rename_i hc
      obtain ⟨l, s⟩ := good_lexMarkup cs v r h
      exact ⟨by simp; omega, fun b => by simp only [List.cons_append, lexContent, if_pos hc, s b]⟩
    · rename_i hc
      obtain ⟨l, s⟩ := good_lexText (c :: cs) v r h
      refine ⟨?_, fun b => by simp only [List.cons_append, lexContent, if_neg hc]; exact s b⟩
      obtain ⟨t, _, hc'⟩ := lexText_ok h
      exact scanText_plain_shrinks hc (checkedText_ok hc').1

/-- good, and at least one character is consumed -/
def Good1 {α : Type} (p : List Char → R α) : Prop :=
  ∀ a v r, p a = .ok v r → r.length < a.length ∧ ∀ b, p (a ++ b) = .ok v (r ++ b)

theorem Good1.good {α : Type} {p : List Char → R α} (h : Good1 p) : Good p :=
  fun a v r e => ⟨Nat.le_of_lt (h a v r e).1, (h a v r e).2⟩

theorem Good1.bind_right {α β : Type} {p : List Char → R α} {f : α → List Char → R β}
    (hp : Good p) (hf : ∀ x, Good1 (f x)) : Good1 (fun cs => (p cs).bind f) := by
  intro a v r h
  obtain ⟨x, r1, h1, h2⟩ := bind_ok h
  obtain ⟨l1, s1⟩ := hp a x r1 h1
  obtain ⟨l2, s2⟩ := hf x r1 v r h2
  refine ⟨by omega, ?_⟩
  intro b
  simp only [s1 b, R.bind, s2 b]

theorem Good1.bind_left {α β : Type} {p : List Char → R α} {f : α → List Char → R β}
    (hp : Good1 p) (hf : ∀ x, Good (f x)) : Good1 (fun cs => (p cs).bind f) := by
  intro a v r h
  obtain ⟨x, r1, h1, h2⟩ := bind_ok h
  obtain ⟨l1, s1⟩ := hp a x r1 h1
  obtain ⟨l2, s2⟩ := hf x r1 v r h2
  refine ⟨by omega, ?_⟩
  intro b
  simp only [s1 b, R.bind, s2 b]

theorem good1_nextIf (p : Char → Bool) : Good1 (nextIf p) := by
  intro a v r h
  cases a with
  | nil => simp [nextIf] at h
  | cons c cs =>
    simp only [nextIf] at h
    split at h
    · rename_i hc
      injection h with h1 h2
      subst h1 h2
      refine ⟨by simp, ?_⟩
      intro b
      simp [nextIf, hc]
    · simp at h

theorem good1_lexAttr (q : QName) (as : List RawAttr) : Good1 (lexAttr q as) := by
  unfold lexAttr
  apply Good1.bind_right good_scanQName
  intro an
  apply Good1.bind_right good_skipSpace
  intro _
  apply Good1.bind_left (good1_nextIf _)
  intro _
  apply Good.bind good_skipSpace
  intro _
  apply Good.bind (good_nextIf _)
  intro qc
  exact Good.bind (good_checkedText false (good_scanText _ _ _)) (fun _ => Good.pure _)

theorem good1_lexTagBody (q : QName) (as : List RawAttr) : Good1 (lexTagBody q as) := by
  intro a v r h
  unfold lexTagBody at h
  split at h
  · simp at h
  · rename_i r0
    have g : Good (fun cs => (nextIf (· = '>') cs).bind fun _ rest => R.ok (Mode.content, Ev.startTag q as true) rest) :=
      Good.bind (good_nextIf _) (fun _ => Good.pure _)
    obtain ⟨l, s⟩ := g r0 v r h
    exact ⟨by simp; omega, fun b => by simpa [lexTagBody] using s b⟩
  · rename_i r0
    injection h with h1 h2
    subst h1 h2
    exact ⟨by simp, fun b => by simp [lexTagBody]⟩
  · rename_i c r0 h1 h2
    obtain ⟨l, s⟩ := good1_lexAttr q as (c :: r0) v r h
    refine ⟨l, ?_⟩
    intro b
    have := s b
    simp only [List.cons_append] at this ⊢
    unfold lexTagBody
    split
    · simp at *
    · rename_i heq; injection heq with e1 e2; subst e1; exact (h1 rfl).elim
    · rename_i heq; injection heq with e1 e2; subst e1; exact (h2 rfl).elim
    · rename_i heq; injection heq with e1 e2; subst e1 e2; exact this

theorem good1_lexTag (q : QName) (as : List RawAttr) : Good1 (lexTag q as) := by
  unfold lexTag
  exact Good1.bind_right good_skipSpace (fun _ => good1_lexTagBody q as)

/-- **one lexical step**: consumes at least one character, and its result does not depend on what follows the
characters it has seen -/
theorem good1_lexStep (m : Mode) : Good1 (lexStep m) := by
  cases m with
  | content => exact good_lexContent
  | tag q as => exact good1_lexTag q as

end XmppVerif.Proofs.C02Bytes
