import XmppVerif.Proofs.C01Dispatch
/-
C01: PubSubOwner and PubSubEvent - registered types whose hand-written UnmarshalXML dispatches on the child's local
name to a reflection-coded struct. One theorem for every well-formed dispatcher and every value of the class
(`DVal.wf`: no ResultSet - F-01l -, the interface field nil or a fitting value of a type with a well-formed schema and
a TAGGED XMLName whose local name is the label of the arm decoding that type - F-01k otherwise), two instances.
-/
namespace XmppVerif.Props.C01S
open XmppVerif.Model.C01 hiding Schema Field FKind FVal FlatVal schemas fld conforms fvalOk encField decField decFields
open XmppVerif.Model.C01S XmppVerif.Spec.C01 XmppVerif.Proofs.C01 XmppVerif.Proofs.C01S

theorem C01_roundtrip_dispatch (d : DSpec) (hd : d.wf = true) (ctx : Str) (v : DVal) (rest : List Tok)
    (hv : v.wf d = true) : unmarshalWith (decDispatch d) (marshalX ctx (encDispatch d) v ++ rest) = some (v, rest) := by
  have h := dispatch_rt d hd ctx v hv
  rw [encDispatch, viewS_elem] at h
  simp only [unmarshalWith, marshalX, encDispatch, viewS_elem, parse_toks, h, Option.map]

theorem C01_reserialise_dispatch (d : DSpec) (hd : d.wf = true) (ctx : Str) (v : DVal) (hv : v.wf d = true) :
    (unmarshalWith (decDispatch d) (marshalX ctx (encDispatch d) v)).map (fun r => render (encDispatch d r.1)) =
      some (render (encDispatch d v)) := by
  have := C01_roundtrip_dispatch d hd ctx v [] hv
  rw [List.append_nil] at this; rw [this]; rfl

theorem C01_roundtrip_PubSubOwner (ctx : Str) (v : DVal) (rest : List Tok) (hv : v.wf dPubSubOwner = true) :
    unmarshalWith (decDispatch dPubSubOwner) (marshalX ctx (encDispatch dPubSubOwner) v ++ rest) = some (v, rest) :=
  C01_roundtrip_dispatch _ (by decide) ctx v rest hv

theorem C01_roundtrip_PubSubEvent (ctx : Str) (v : DVal) (rest : List Tok) (hv : v.wf dPubSubEvent = true) :
    unmarshalWith (decDispatch dPubSubEvent) (marshalX ctx (encDispatch dPubSubEvent) v ++ rest) = some (v, rest) :=
  C01_roundtrip_dispatch _ (by decide) ctx v rest hv

-- non-vacuity: a configure request with a form; an items event with a payload; and the two recorded regions are outside
example : (DVal.mk (some ⟨"PurgeOwner", .struct noName [.str "n<1>".toList]⟩) .nil).wf dPubSubOwner = true := by decide
example : (DVal.mk (some ⟨"PurgeEvent", .struct noName [.str "princely_musings".toList]⟩) .nil).wf dPubSubEvent = true := by
  decide
example : (DVal.mk (some ⟨"DeleteEvent", .struct noName [.str "n".toList, .nil]⟩) .nil).wf dPubSubEvent = false := by decide
example : (DVal.mk none (.ref (.struct noName [.nil, .nil, .nil, .nil, .nil, .nil, .nil]))).wf dPubSubOwner = false := by decide

end XmppVerif.Props.C01S

#print axioms XmppVerif.Props.C01S.C01_roundtrip_dispatch
#print axioms XmppVerif.Props.C01S.C01_reserialise_dispatch
#print axioms XmppVerif.Props.C01S.C01_roundtrip_PubSubOwner
#print axioms XmppVerif.Props.C01S.C01_roundtrip_PubSubEvent
