import XmppVerif.Props.Recv
import XmppVerif.Props.C05
import XmppVerif.Spec.RecvObs
/-
C12 - a lost connection is reported exactly once at every cut point (token level: a cut is a decoder error at any
position of the packet sequence; the byte-level cut points are mapped to these by the harness and sampled).
-/
namespace XmppVerif.Props.C12
open XmppVerif.Model.Recv XmppVerif.Spec.Recv XmppVerif.Spec.RecvObs XmppVerif.Props.Recv

/-- **Exactly once**: whatever precedes the end of the stream (loss or graceful close), the run raises
exactly one Disconnected event, and it carries the current stream-management state (id and stanza count). -/
theorem C12_one_disconnected_event (s : St) (ins : List In) :
    discEvents (clientRecv s ins).2 = [(s.smId, s.inbound + stanzaCount (processed ins))] :=
  (client_facts ins s).disc

/-- exactly one error callback for the loss (plus one per stream error received before it) -/
theorem C12_one_error_callback (s : St) (ins : List In) (h : isClose (stopper ins) = false) :
    errhCount (clientRecv s ins).2 = serrCount (processed ins) + 1 := by
  rw [(client_facts ins s).errh, h]; rfl

/-- the receive loop always closes the keepalive quit channel, exactly once (so the keepalive stops, C18) - and BEFORE
the loss is reported: no Disconnected event precedes it (the handler of that event reconnects at once under a
StreamManager; the keepalive of the lost session must be told to stop by then - F-18b) -/
theorem C12_quit_closed_before_report (s : St) (ins : List In) :
    ((clientRecv s ins).2.filter (· == .quitClosed)).length = 1 ∧
    discEvents ((clientRecv s ins).2.takeWhile (· != .quitClosed)) = [] :=
  (client_facts ins s).quit

/-- **Every cut position**: cutting after any prefix `pre` of a history (whatever follows) reports once and routes
every stanza of `pre`, provided `pre` itself contains nothing that stops the loop. -/
theorem C12_every_cut_position (s : St) (pre post : List In) (h : ∀ i ∈ pre, stops i = false) :
    discEvents (clientRecv s (pre ++ .cut :: post)).2 = [(s.smId, s.inbound + stanzaCount pre)] ∧
    errhCount (clientRecv s (pre ++ .cut :: post)).2 = serrCount pre + 1 ∧
    routedStanzas (clientRecv s (pre ++ .cut :: post)).2 = pre.filterMap stanzaOf := by
  have hp : processed (pre ++ .cut :: post) = pre := by
    unfold processed
    rw [List.takeWhile_append_of_pos (by intro i hi; simp [h i hi])]
    simp [List.takeWhile, stops]
  have hs : stopper (pre ++ .cut :: post) = some .cut := by
    unfold stopper
    rw [List.dropWhile_append_of_pos (by intro i hi; simp [h i hi])]
    simp [List.dropWhile, stops]
  have hc : isClose (stopper (pre ++ .cut :: post)) = false := by rw [hs]; rfl
  refine ⟨?_, ?_, ?_⟩
  · rw [C12_one_disconnected_event, hp]
  · rw [C12_one_error_callback _ _ hc, hp]
  · rw [XmppVerif.Props.C05.C05_client_exactly_once, hp]

private theorem takeWhile_all {α} (p : α → Bool) : ∀ l : List α, (∀ x ∈ l, p x = true) → l.takeWhile p = l := by
  intro l; induction l with
  | nil => intro _; rfl
  | cons y ys ih =>
    intro h
    simp [List.takeWhile, h y (by simp), ih (fun x hx => h x (List.mem_cons_of_mem _ hx))]

private theorem dropWhile_all {α} (p : α → Bool) : ∀ l : List α, (∀ x ∈ l, p x = true) → l.dropWhile p = [] := by
  intro l; induction l with
  | nil => intro _; rfl
  | cons y ys ih =>
    intro h
    simp [List.dropWhile, h y (by simp), ih (fun x hx => h x (List.mem_cons_of_mem _ hx))]

/-- the same when the input simply ends (EOF): reported like a cut -/
theorem C12_eof (s : St) (pre : List In) (h : ∀ i ∈ pre, stops i = false) :
    discEvents (clientRecv s pre).2 = [(s.smId, s.inbound + stanzaCount pre)] := by
  have hp : processed pre = pre := by
    unfold processed; exact takeWhile_all _ _ (by intro i hi; simp [h i hi])
  have hs : stopper pre = none := by
    unfold stopper
    rw [dropWhile_all _ _ (by intro i hi; simp [h i hi])]; rfl
  rw [C12_one_disconnected_event, hp]

/-- a failed write of an `<a/>` answer is a detected loss too: one event, one callback (fix F-12) -/
theorem C12_failed_answer_reported (s : St) (rest : List In) :
    discEvents (clientRecv s (.pkt .r true :: rest)).2 = [(s.smId, s.inbound)] ∧
    errhCount (clientRecv s (.pkt .r true :: rest)).2 = 1 := by
  constructor <;> simp [clientRecv, clientStep, discEvents, errhCount]

private theorem routed_filter (acts : List Act) :
    (routedAll acts).filter (·.isStanza) = routedStanzas acts := by
  induction acts with
  | nil => rfl
  | cons a rest ih =>
    cases a <;> simp_all [routedAll, routedStanzas, List.filterMap_cons, List.filter_cons]
    split <;> simp_all

theorem C12_oracle_accepts_model (c : Case) (hc : c.client = true) : holdsC12 c (modelSummary c) = true := by
  unfold holdsC12 modelSummary sameRouted expectedStanzas
  have f := client_facts c.ins ⟨c.smId, c.n0⟩
  simp only [hc, if_true, summarise, Bool.not_false, Bool.and_true, Bool.and_eq_true, Bool.or_eq_true,
    decide_eq_true_eq]
  refine ⟨⟨?_, ?_⟩, ?_⟩
  · rw [routed_filter, f.routed]; exact List.isPerm_iff.mpr (List.Perm.refl _)
  · have := f.quit.1
    rw [List.any_eq_true]
    have hne : (clientRecv ⟨c.smId, c.n0⟩ c.ins).2.filter (· == .quitClosed) ≠ [] := by
      intro e; rw [e] at this; simp at this
    obtain ⟨a, ha⟩ := List.exists_mem_of_ne_nil _ hne
    have hm := List.mem_filter.mp ha
    refine ⟨a, hm.1, ?_⟩
    have : a = .quitClosed := by simpa using hm.2
    subst this; rfl
  · cases hcl : isClose (stopper c.ins) with
    | true => left; rfl
    | false =>
      right
      exact ⟨f.disc, by rw [f.errh, hcl]; rfl⟩

-- non-vacuity
example : discEvents (clientRecv ⟨"sm", 2⟩ [.pkt (.msg "1") false, .pkt .r false, .cut]).2 = [("sm", 3)] := by decide

end XmppVerif.Props.C12

#print axioms XmppVerif.Props.C12.C12_one_disconnected_event
#print axioms XmppVerif.Props.C12.C12_one_error_callback
#print axioms XmppVerif.Props.C12.C12_quit_closed_before_report
#print axioms XmppVerif.Props.C12.C12_every_cut_position
#print axioms XmppVerif.Props.C12.C12_eof
#print axioms XmppVerif.Props.C12.C12_failed_answer_reported
#print axioms XmppVerif.Props.C12.C12_oracle_accepts_model
