import XmppVerif.Spec.C16
/-
C16 - the component handshake digest is exact; success requires the server's handshake.
-/
namespace XmppVerif.Props.C16
open XmppVerif.Model.C16 XmppVerif.Spec.C16 XmppVerif.Util

-- ---------------------------------------------------------------------------------------------
-- hex

private theorem digit_mem_fin : ∀ n : Fin 16, hexDigit n.val ∈ hexChars := by decide
private theorem digit_val_fin : ∀ n : Fin 16, hexVal (hexDigit n.val) = some n.val := by decide
private theorem digit_mem {n : Nat} (h : n < 16) : hexDigit n ∈ hexChars := digit_mem_fin ⟨n, h⟩
private theorem digit_val {n : Nat} (h : n < 16) : hexVal (hexDigit n) = some n := digit_val_fin ⟨n, h⟩

private theorem lt256 (a : UInt8) : a.toNat < 256 := UInt8.toNat_lt a

private theorem hexChars_safe :
    ∀ c ∈ hexChars, (c.isDigit = true ∨ ('a' ≤ c ∧ c ≤ 'f')) ∧ c.isUpper = false ∧ c ∉ ['<', '>', '&', '"', '\''] := by
  decide

/-- **hex shape**: two characters per byte, each one of 0-9a-f: lower case, and no XML metacharacter (so the text
inside `<handshake>%s</handshake>` cannot inject markup). -/
theorem C16_hex_shape (bs : List UInt8) :
    (hexLower bs).length = 2 * bs.length ∧
    ∀ c ∈ hexLower bs, c ∈ hexChars ∧ c.isUpper = false ∧ c ∉ ['<', '>', '&', '"', '\''] := by
  induction bs with
  | nil => simp [hexLower]
  | cons b bs ih =>
    have hb := lt256 b
    have e : hexLower (b :: bs) = hexDigit (b.toNat / 16) :: hexDigit (b.toNat % 16) :: hexLower bs := by
      simp [hexLower]
    rw [e]
    refine ⟨by simp only [List.length_cons, ih.1]; omega, ?_⟩
    intro c hc
    simp only [List.mem_cons] at hc
    have ok : ∀ c, c ∈ hexChars → c ∈ hexChars ∧ c.isUpper = false ∧ c ∉ ['<', '>', '&', '"', '\''] :=
      fun c h => ⟨h, (hexChars_safe c h).2⟩
    rcases hc with hc | hc | hc
    · rw [hc]; exact ok _ (digit_mem (by omega))
    · rw [hc]; exact ok _ (digit_mem (by omega))
    · exact ih.2 c hc

/-- decoding the hex text returns the bytes -/
theorem C16_hex_rt (bs : List UInt8) : hexToBytesAux (hexLower bs) = some bs := by
  induction bs with
  | nil => simp [hexLower, hexToBytesAux]
  | cons b bs ih =>
    have hb := lt256 b
    have e : hexLower (b :: bs) = hexDigit (b.toNat / 16) :: hexDigit (b.toNat % 16) :: hexLower bs := by
      simp [hexLower]
    have hn : b.toNat / 16 * 16 + b.toNat % 16 = b.toNat := by omega
    rw [e]
    simp only [hexToBytesAux, digit_val (show b.toNat / 16 < 16 by omega), digit_val (show b.toNat % 16 < 16 by omega),
      ih, Option.bind_eq_bind, Option.bind_some, Option.pure_def, hn, UInt8.ofNat_toNat]

/-- **hex injective**: different hashes never share a hex text. -/
theorem C16_hex_inj (x y : List UInt8) (h : hexLower x = hexLower y) : x = y := by
  have := C16_hex_rt x
  rw [h, C16_hex_rt y] at this
  exact (Option.some.inj this).symm

-- ---------------------------------------------------------------------------------------------
-- SHA-1: structural facts (the function itself is validated on the FIPS vectors below and against crypto/sha1)

/-- the padded message is a whole number of 64-byte blocks, for every message length -/
theorem C16_pad_length (m : List UInt8) : (pad m).length % 64 = 0 ∧ m.length + 9 ≤ (pad m).length := by
  unfold pad be64
  simp only [List.length_append, List.length_cons, List.length_replicate, List.length_nil]
  omega

private theorem words_length : ∀ (n : Nat) (l : List UInt8), l.length ≤ n → (words l).length = l.length / 4
  | 0, l, h => by
    have : l = [] := List.eq_nil_of_length_eq_zero (by omega)
    subst this; simp [words]
  | n + 1, l, h => by
    match l with
    | [] => simp [words]
    | [_] => simp [words]
    | [_, _] => simp [words]
    | [_, _, _] => simp [words]
    | a :: b :: c :: d :: rest =>
      simp only [List.length_cons] at h
      have := words_length n rest (by omega)
      simp only [words, List.length_cons, this]
      omega

/-- every word of the padded message is consumed: 16 words per block, `length / 64` blocks -/
theorem C16_pad_blocks (m : List UInt8) : (words (pad m)).length = 16 * ((pad m).length / 64) := by
  rw [words_length _ _ (Nat.le_refl _)]
  have := (C16_pad_length m).1
  omega

/-- the hash is 20 bytes for every input -/
theorem C16_sha1_length (m : List UInt8) : (sha1 m).length = 20 := by
  simp [sha1, be32]

/-- **digest length**: the handshake text is 40 lower-case hex characters for every stream id and secret. -/
theorem C16_digest_len (streamId secret : List UInt8) :
    (digest streamId secret).length = 40 ∧
    ∀ c ∈ digest streamId secret, c ∈ hexChars ∧ c.isUpper = false ∧ c ∉ ['<', '>', '&', '"', '\''] := by
  unfold digest
  have h := C16_hex_shape (sha1 (streamId ++ secret))
  rw [C16_sha1_length] at h
  exact h

/-- the digest identifies the hash: equal handshake texts mean equal SHA-1 values -/
theorem C16_digest_inj (i s i' s' : List UInt8) (h : digest i s = digest i' s') :
    sha1 (i ++ s) = sha1 (i' ++ s') := C16_hex_inj _ _ h

-- ---------------------------------------------------------------------------------------------
-- the stream id

private theorem foldl_id (attrs : List Attr) : ∀ init : List UInt8,
    attrs.foldl (fun acc a => if a.space = "" ∧ a.loc = "id" then a.value else acc) init =
      match (attrs.filter unqualifiedId).getLast? with
      | some a => a.value
      | none => init := by
  induction attrs with
  | nil => intro init; rfl
  | cons x xs ih =>
    intro init
    simp only [List.foldl_cons, ih]
    by_cases hx : x.space = "" ∧ x.loc = "id"
    · have hu : unqualifiedId x = true := by simp [unqualifiedId, hx.1, hx.2]
      simp only [if_pos hx, List.filter_cons, hu, if_true, List.getLast?_cons]
      cases (List.filter unqualifiedId xs).getLast? <;> rfl
    · have hu : unqualifiedId x = false := by
        simp only [unqualifiedId, Bool.and_eq_false_iff, beq_eq_false_iff_ne, ne_eq]
        by_cases h1 : x.space = ""
        · right; exact fun h2 => hx ⟨h1, h2⟩
        · left; exact h1
      simp only [if_neg hx, List.filter_cons, hu]
      rfl

/-- **stream id**: the id hashed is the value of the unqualified `id` attribute of the stream header. -/
theorem C16_stream_id (attrs : List Attr) : streamIdOf attrs = specId attrs := by
  unfold streamIdOf specId
  exact foldl_id attrs []

/-- namespaced attributes with local name `id` (`xml:id`, `xmlns:id`, `x:id`) never replace it, wherever they stand -/
theorem C16_stream_id_ignores_qualified (pre post : List Attr) (v : List UInt8)
    (hpost : ∀ a ∈ post, unqualifiedId a = false) :
    streamIdOf (pre ++ ⟨"", "id", v⟩ :: post) = v := by
  rw [C16_stream_id]
  unfold specId
  have hf : List.filter unqualifiedId post = [] := List.filter_eq_nil_iff.mpr (fun a h => by simp [hpost a h])
  have hu : unqualifiedId ⟨"", "id", v⟩ = true := by simp [unqualifiedId]
  simp [List.filter_append, hu, hf]

-- ---------------------------------------------------------------------------------------------
-- Component.Resume

/-- **established iff handshake**: the connection is reported established - nil returned, the established state
announced, the receive loop started - exactly when the stream was opened, the digest written and the server answered
with a handshake element. -/
theorem C16_established_iff_handshake (conn : Connect) (secret : List UInt8) (w : Bool) (r : Reply) :
    let res := resume conn secret w r
    let good := (∃ attrs, conn = .opened attrs) ∧ w = true ∧ r = .handshake
    (res.established = true ↔ good) ∧ (res.err = none ↔ good) ∧ (res.recvStarted = true ↔ good) := by
  cases conn with
  | refused => simp [resume, Result.established]
  | noStream => simp [resume, Result.established]
  | opened attrs => cases w <;> cases r <;> simp [resume, Result.established]

/-- **any other reply**: a stream error, another packet, a malformed or closed stream yield an error (a permanent
ConnError when the digest had been written), no established state, and no receive loop: nothing is routed. -/
theorem C16_other_reply_error_not_established (conn : Connect) (secret : List UInt8) (w : Bool) (r : Reply)
    (h : r ≠ .handshake) :
    let res := resume conn secret w r
    res.err.isSome = true ∧ res.established = false ∧ res.recvStarted = false ∧
    (∀ s ∈ res.states, s = .streamError ∨ s = .permanentError) ∧
    (res.sentDigest.isSome = true → res.err = some true) := by
  cases conn with
  | refused => simp [resume, Result.established]
  | noStream => simp [resume, Result.established]
  | opened attrs => cases w <;> cases r <;> simp_all [resume, Result.established]

/-- exactly one state is announced per attempt, and it is the final one -/
theorem C16_one_state (conn : Connect) (secret : List UInt8) (w : Bool) (r : Reply) :
    (resume conn secret w r).states.length = 1 := by
  cases conn with
  | refused => rfl
  | noStream => rfl
  | opened attrs => cases w <;> cases r <;> rfl

/-- **digest sent**: whatever is written inside `<handshake>` is the 40-character lower-case hex SHA-1 of the
unqualified stream id followed by the secret. -/
theorem C16_digest_sent (conn : Connect) (secret : List UInt8) (w : Bool) (r : Reply) (d : List Char)
    (h : (resume conn secret w r).sentDigest = some d) :
    ∃ attrs, conn = .opened attrs ∧ d = hexLower (sha1 (specId attrs ++ secret)) ∧ d.length = 40 := by
  cases conn with
  | refused => simp [resume] at h
  | noStream => simp [resume] at h
  | opened attrs =>
    refine ⟨attrs, rfl, ?_⟩
    have hd : d = digest (streamIdOf attrs) secret := by
      cases w <;> cases r <;> simp [resume] at h <;> exact h.symm
    subst hd
    refine ⟨?_, (C16_digest_len _ _).1⟩
    rw [C16_stream_id]; rfl

/-- **oracle accepts model**: for every case the oracle accepts the model's own observation. -/
theorem C16_oracle_accepts_model (c : Case) : holds c (modelObs c) = true := by
  obtain ⟨conn, secret, w, r, posts⟩ := c
  cases conn with
  | refused => simp [holds, modelObs, resume, established, ConnState.code]
  | noStream => simp [holds, modelObs, resume, established, ConnState.code]
  | opened attrs =>
    have hid := C16_stream_id attrs
    cases w <;> cases r <;> simp [holds, modelObs, resume, established, ConnState.code, digest, hid]

-- ---------------------------------------------------------------------------------------------
-- tests and non-vacuity (concrete values: `example`s, not theorems)

/-- ASCII text as bytes (tests only) -/
private def ascii (s : String) : List UInt8 := s.toList.map fun c => UInt8.ofNat c.toNat

-- FIPS 180 / RFC 3174 test vectors
example : hexLower (sha1 (ascii "abc")) = "a9993e364706816aba3e25717850c26c9cd0d89d".toList := by decide +kernel
example : hexLower (sha1 []) = "da39a3ee5e6b4b0d3255bfef95601890afd80709".toList := by decide +kernel
example : hexLower (sha1 (ascii "abcdbcdecdefdefgefghfghighijhijkijkljklmklmnlmnomnopnopq")) =
    "84983e441c3bd26ebaae4aa1f95129e5e54670f1".toList := by decide +kernel
-- XEP-0114 example 3 style: id ++ secret
example : digest (ascii "3BF96D32") (ascii "test") = hexLower (sha1 (ascii "3BF96D32test")) := rfl
example : (pad (ascii "abc")).length = 64 := by decide +kernel
example : (pad (List.replicate 56 0)).length = 128 := by decide +kernel
example : streamIdOf [⟨"", "id", [1]⟩, ⟨"http://www.w3.org/XML/1998/namespace", "id", [2]⟩] = [1] := by decide
-- the hypothesis of C16_stream_id_ignores_qualified is satisfiable
example : ∀ a ∈ [(⟨"xml", "id", [2]⟩ : Attr), ⟨"xmlns", "id", [3]⟩], unqualifiedId a = false := by decide
example : (resume (.opened []) [] true .handshake).established = true := by decide +kernel
example : (resume (.opened []) [] true .streamError).err = some true := by decide +kernel

/-- **A failed further attempt never leaves the component "established"**: whatever state it was in before (in
particular after the server closed the previous session gracefully, which leaves it established), `Resume` with any
reply other than a handshake - and with any connect or write failure - returns an error AND announces a state, and
that state is not "session established". -/
theorem C16_failed_attempt_not_established (conn : Connect) (secret : List UInt8) (writeOk : Bool) (reply : Reply)
    (h : ¬ (writeOk = true ∧ reply = .handshake ∧ ∃ a, conn = .opened a)) :
    let r := resume conn secret writeOk reply
    r.err.isSome = true ∧ ∃ st, r.states.getLast? = some st ∧ st ≠ .sessionEstablished := by
  cases conn with
  | refused => simp [resume]
  | noStream => simp [resume]
  | opened a =>
    cases writeOk with
    | false => simp [resume]
    | true =>
      cases reply with
      | handshake => exact absurd ⟨rfl, rfl, a, rfl⟩ h
      | streamError => simp [resume]
      | other => simp [resume]
      | decodeError => simp [resume]

theorem C16_reconnect_oracle_accepts_model (reply : Reply) :
    XmppVerif.Spec.C16.holdsReconnect reply (XmppVerif.Spec.C16.modelReconnect reply).1
      (XmppVerif.Spec.C16.modelReconnect reply).2 = true := by
  cases reply <;> decide

/-- Every life of one component value is judged on its own reply: whatever replies the earlier connections of the same
component met, the model reports a handshake reply as established (nil, state, announcement) and every other reply as
an error with a non-established state and no announcement. -/
theorem C16_lives_oracle_accepts_model (rs : List Reply) :
    XmppVerif.Spec.C16.holdsLives rs (XmppVerif.Spec.C16.modelLives rs) = true := by
  unfold XmppVerif.Spec.C16.holdsLives XmppVerif.Spec.C16.modelLives
  simp only [List.length_map, beq_self_eq_true, Bool.true_and, List.all_eq_true]
  intro x hx
  obtain ⟨r, hr, rfl⟩ : ∃ r, r ∈ rs ∧ x = (r, XmppVerif.Spec.C16.modelLife r) := by
    induction rs with
    | nil => simp at hx
    | cons a t ih =>
      simp only [List.map_cons, List.zip_cons_cons, List.mem_cons] at hx
      rcases hx with h | h
      · exact ⟨a, List.mem_cons_self, h⟩
      · obtain ⟨r, hr, e⟩ := ih h
        exact ⟨r, List.mem_cons_of_mem _ hr, e⟩
  cases r <;> decide

example : XmppVerif.Spec.C16.holdsLives [.other, .handshake, .streamError]
    [(some true, 4, 0), (none, 2, 1), (some true, 3, 0)] = true := by decide
-- a component that stays in its earlier state is refused by the oracle (the seeded changes C16-h1 / C16-h2)
example : XmppVerif.Spec.C16.holdsLives [.other, .handshake] [(some true, 4, 0), (none, 4, 0)] = false := by decide
example : XmppVerif.Spec.C16.holdsLives [.streamError, .handshake, .streamError]
    [(some true, 3, 0), (none, 2, 1), (some true, 2, 0)] = false := by decide

end XmppVerif.Props.C16

#print axioms XmppVerif.Props.C16.C16_hex_shape
#print axioms XmppVerif.Props.C16.C16_hex_rt
#print axioms XmppVerif.Props.C16.C16_hex_inj
#print axioms XmppVerif.Props.C16.C16_pad_length
#print axioms XmppVerif.Props.C16.C16_pad_blocks
#print axioms XmppVerif.Props.C16.C16_sha1_length
#print axioms XmppVerif.Props.C16.C16_digest_len
#print axioms XmppVerif.Props.C16.C16_digest_inj
#print axioms XmppVerif.Props.C16.C16_stream_id
#print axioms XmppVerif.Props.C16.C16_stream_id_ignores_qualified
#print axioms XmppVerif.Props.C16.C16_established_iff_handshake
#print axioms XmppVerif.Props.C16.C16_other_reply_error_not_established
#print axioms XmppVerif.Props.C16.C16_one_state
#print axioms XmppVerif.Props.C16.C16_digest_sent
#print axioms XmppVerif.Props.C16.C16_oracle_accepts_model
#print axioms XmppVerif.Props.C16.C16_failed_attempt_not_established
#print axioms XmppVerif.Props.C16.C16_reconnect_oracle_accepts_model
#print axioms XmppVerif.Props.C16.C16_lives_oracle_accepts_model
