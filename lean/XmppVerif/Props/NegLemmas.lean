import XmppVerif.Spec.Neg
/-
Lemmas about the two phases of the negotiation model, shared by C03 / C04 / C11.
Each `phase1_*` lemma is one exhaustive case analysis over the reply classes of the pre-SASL-restart steps.
-/
set_option linter.unusedSimpArgs false
namespace XmppVerif.Props.Neg
open XmppVerif.Model.Neg XmppVerif.Spec.Neg

def isResume : WKind → Bool
  | .resume _ _ => true
  | _ => false

def noSM (ws : List Write) : Prop := ∀ w ∈ ws, (w.kind == .enable) = false ∧ isResume w.kind = false

/-- steps after SASL: resumption or bind / session / enable -/
def completesAfterAuth (s : Sess) (f3 : Features) (sc : Script) : Bool :=
  let canResume := f3.sm && s.smId != ""
  (canResume && sc.resumeReply == .resumedSame) ||
  ((!canResume || sc.resumeReply == .failed) && sc.bindReply == .resultBind &&
   (!f3.sessionMandatory || sc.sessReply == .result) &&
   (!(f3.sm && s.smReq) || isEnabled sc.enableReply))

theorem orderRun_append (a b : List WKind) : ∀ q,
    orderRun q (a ++ b) = (orderRun q a).bind (fun q' => orderRun q' b) := by
  induction a with
  | nil => intro q; rfl
  | cons k ks ih =>
    intro q
    simp only [List.cons_append, orderRun]
    cases orderStep q k with
    | none => rfl
    | some q' => exact ih q'

-- the exhaustive split over the phase-1 reply classes (names `cfg`, `s0`, `sc` of the enclosing theorem are used
-- un-hygienically); every leaf is closed by `simp` with the given lemmas
set_option hygiene false in
macro "phase1_split" "[" ls:Lean.Parser.Tactic.simpLemma,* "]" : tactic => `(tactic|
  (cases h1 : sc.feat1 with
   | none => (unfold phase1; cases hc : sc.conn <;> simp [*, $ls,*])
   | some f1 =>
     cases htd : (f1.starttls && sc.tlsReply == .proceed && sc.tlsOk) with
     | true =>
       (have htd2 : f1.starttls = true ∧ sc.tlsReply = .proceed ∧ sc.tlsOk = true := by
          simpa [Bool.and_eq_true, and_assoc] using htd
        unfold phase1; simp only [h1, htd]
        cases hc : sc.conn <;> (try simp [*, $ls,*]) <;>
        cases hins : cfg.insecure <;> (try simp [*, $ls,*]) <;>
        cases ho2 : sc.open2 <;> (try simp [*, $ls,*]) <;>
        cases hf2 : sc.feat2 with
        | none => simp [*, $ls,*]
        | some fa =>
          (try simp [*, $ls,*]) <;>
          cases hm : fa.mech <;> (try simp [*, $ls,*]) <;> cases ha : sc.authReply <;> (try simp [*, $ls,*]) <;>
          cases ho3 : sc.open3 <;> (try simp [*, $ls,*]) <;> cases hf3 : sc.feat3 <;> (try simp [*, $ls,*]))
     | false =>
       (have htd2 : ¬(f1.starttls = true ∧ sc.tlsReply = .proceed ∧ sc.tlsOk = true) := by
          simpa [Bool.and_eq_true, and_assoc] using htd
        unfold phase1; simp only [h1, htd]
        cases hc : sc.conn <;> (try simp [*, $ls,*]) <;>
        cases hins : cfg.insecure <;> cases hst : f1.starttls <;> (try simp [*, $ls,*]) <;>
        cases hm : f1.mech <;> (try simp [*, $ls,*]) <;> cases ha : sc.authReply <;> (try simp [*, $ls,*]) <;>
        cases ho3 : sc.open3 <;> (try simp [*, $ls,*]) <;> cases hf3 : sc.feat3 <;> (try simp [*, $ls,*]))))

/-- a stopped negotiation never succeeded, and the server did not complete the mandatory steps -/
theorem phase1_outcome (cfg : Cfg) (s0 : Sess) (sc : Script) :
    match phase1 cfg s0 sc with
    | .stop r => r.outcome ≠ .established ∧ r.resumed = false ∧
                 (r.sess = s0 ∨ r.sess = s0.dropped ∨ r.sess = sfix s0)
    | .go _ f3 _ => sc.feat3 = some f3 := by
  phase1_split []

/-- order of the writes of phase 1 -/
theorem phase1_order (cfg : Cfg) (s0 : Sess) (sc : Script) :
    match phase1 cfg s0 sc with
    | .stop r => (orderRun 0 (r.writes.map (·.kind))).isSome = true
    | .go _ _ w => orderRun 0 (w.map (·.kind)) = some 5 := by
  phase1_split [orderRun, orderStep]

/-- phase 1 writes no stream-management element -/
theorem phase1_noSM (cfg : Cfg) (s0 : Sess) (sc : Script) :
    match phase1 cfg s0 sc with
    | .stop r => noSM r.writes
    | .go _ _ w => noSM w := by
  phase1_split [noSM, isResume]

/-- the gate in phase 1: without insecure mode, `<auth>` is written only under TLS, and phase 2 starts under TLS -/
theorem phase1_gate (cfg : Cfg) (s0 : Sess) (sc : Script) :
    match phase1 cfg s0 sc with
    | .stop r => gateOk cfg r.writes = true
    | .go sec _ w => gateOk cfg w = true ∧ (cfg.insecure = false → sec = true) := by
  phase1_split [gateOk, sensitive]

/-- the secure flag in phase 1 means: STARTTLS offered, `<proceed/>`, `StartTLS()` succeeded -/
theorem phase1_secure (cfg : Cfg) (s0 : Sess) (sc : Script) :
    match phase1 cfg s0 sc with
    | .stop r => ∀ w ∈ r.writes, w.secure = true → ∃ f1, sc.feat1 = some f1 ∧ tlsNegotiated f1 sc = true
    | .go sec _ w => (sec = true → ∃ f1, sc.feat1 = some f1 ∧ tlsNegotiated f1 sc = true) ∧
                     (∀ x ∈ w, x.secure = true → sec = true) := by
  phase1_split [tlsNegotiated]

theorem sfix_smId (s0 : Sess) : (sfix s0).smId = heldId s0 := by
  unfold sfix heldId; cases s0.present <;> simp [Sess.dropped]
theorem sfix_smReq (s0 : Sess) : (sfix s0).smReq = heldSmReq s0 := by
  unfold sfix heldSmReq; cases s0.present <;> simp [Sess.dropped]
theorem sfix_present (s0 : Sess) : (sfix s0).present = true := by
  unfold sfix; cases h : s0.present <;> simp [h]

/-- the reference `completes`, split along the two phases -/
theorem phase1_completes (cfg : Cfg) (s0 : Sess) (sc : Script) :
    match phase1 cfg s0 sc with
    | .stop _ => completes cfg s0 sc = false
    | .go _ f3 _ => completes cfg s0 sc = completesAfterAuth (sfix s0) f3 sc := by
  phase1_split [completes, tlsNegotiated, completesAfterAuth, sfix_smId, sfix_smReq]

/-- phase 1 writes only stream headers, `<starttls/>` and `<auth/>`; reaching phase 2 needs `<success/>`, the
stream restart and decodable features -/
theorem phase1_kinds (cfg : Cfg) (s0 : Sess) (sc : Script) :
    match phase1 cfg s0 sc with
    | .stop r => ∀ w ∈ r.writes, w.kind = .open_ ∨ w.kind = .starttls ∨ w.kind = .auth
    | .go _ _ w => (∀ x ∈ w, x.kind = .open_ ∨ x.kind = .starttls ∨ x.kind = .auth) ∧
                   (sc.authReply = .success ∧ sc.open3 = true ∧ sc.feat3.isSome = true) := by
  phase1_split []

end XmppVerif.Props.Neg

#print axioms XmppVerif.Props.Neg.phase1_outcome
#print axioms XmppVerif.Props.Neg.phase1_order
#print axioms XmppVerif.Props.Neg.phase1_noSM
#print axioms XmppVerif.Props.Neg.phase1_gate
#print axioms XmppVerif.Props.Neg.phase1_secure
#print axioms XmppVerif.Props.Neg.phase1_completes
#print axioms XmppVerif.Props.Neg.phase1_kinds
