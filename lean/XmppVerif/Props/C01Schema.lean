import XmppVerif.Proofs.C01SchemaShape
/-
C01, schema-coded types (the registered extension / payload types whose codec is encoding/xml's reflection walk).
ONE round-trip theorem for every schema satisfying the decidable `Schema.wf` and every value satisfying the decidable
`Val.fits`: marshal, print + tokenize under any default namespace, DecodeElement = the value, the rest of the stream
untouched (`C01_schema_roundtrip`); the second serialization is identical (`C01_schema_reserialise`); the output has
two '<' and two '>' per element of what the value's structure encodes to, whatever the strings contain - for EVERY value,
fitting or not (`C01_schema_structure`), and that skeleton is the same for any two values that differ only in the content
of non-empty strings (`C01_schema_shape_text_independent`); the oracle accepts the model.
Instances (schemas proved equal to the ones regenerated from the struct tags in Tie/C01Schema.lean): below.
-/
namespace XmppVerif.Props.C01S
open XmppVerif.Model.C01 hiding Schema Field FKind FVal FlatVal schemas fld conforms fvalOk encField decField decFields
open XmppVerif.Model.C01S XmppVerif.Spec.C01 XmppVerif.Spec.C01S XmppVerif.Proofs.C01 XmppVerif.Proofs.C01S

private theorem wf_parts (s : Ty) (h : Ty.wf s = true) :
    (∃ tn xn hs ts, s = .struct tn xn hs ts) ∧ nameOk (topLoc s) = true ∧ Ty.wfE ⟨[], topLoc s⟩ false s = true := by
  simp only [Ty.wf, Bool.and_eq_true] at h
  refine ⟨?_, h.1.2, h.2⟩
  cases s <;> simp at h
  exact ⟨_, _, _, _, rfl⟩

/-- at top level there is no field: the start name is the XMLName tag or the Go type name either way -/
private theorem encS_top (s : Ty) (v : Val) (h : Ty.wf s = true) : encS s v = encD [] ⟨[], topLoc s⟩ false s v := by
  obtain ⟨⟨tn, xn, hs, ts, rfl⟩, hn, hw⟩ := wf_parts s h
  have hne := nameOk_ne_nil _ hn
  cases v with
  | struct dn vs =>
    have hx : xn ≠ .dyn := by
      intro e; subst e; simp [Ty.wfE, xnOk] at hw
    have : startName tn xn dn noName = startName tn xn dn ⟨[], topLoc (.struct tn xn hs ts)⟩ := by
      cases xn with
      | dyn => exact absurd rfl hx
      | tag n => simp [startName]
      | absent =>
        have : topLoc (.struct tn .absent hs ts) = tn := by simp [topLoc, startName, noName]
        rw [this] at hne ⊢
        simp [startName, noName, hne]
    simp only [encS, encD_struct, this]
  | _ => simp [encS, encD]

/-- element level (what the hand-written loops of the stanzas use): xml.Marshal writes exactly one element, and
Decoder.DecodeElement on a fresh value of the type reads it back as `v`, under every default namespace -/
theorem C01_schema_roundtrip_el (ctx : Str) (s : Ty) (v : Val) (hs : Ty.wf s = true) (hv : v.fits s = true) :
    ∃ n a ks, encS s v = [.elem n a ks] ∧ decS s (viewS ctx (.elem n a ks)) = some v := by
  obtain ⟨_, hn, hw⟩ := wf_parts s hs
  obtain ⟨n, a, ks, henc, _, _, hdec⟩ :=
    rtE s ⟨[], topLoc s⟩ false (nameOk_ne_nil _ hn) hw ctx [] false v (by simp) hv
  exact ⟨n, a, ks, by rw [encS_top s v hs, henc], hdec⟩

/-- THE round trip: for every well-formed schema and every fitting value, under every default namespace and before any
rest of the stream, Unmarshal (Marshal v) = v and the rest is untouched. -/
theorem C01_schema_roundtrip (ctx : Str) (s : Ty) (v : Val) (rest : List Tok)
    (hs : Schema.wf s = true) (hv : v.fits s = true) :
    unmarshalS s (marshalS ctx s v ++ rest) = some (v, rest) := by
  obtain ⟨n, a, ks, henc, hdec⟩ := C01_schema_roundtrip_el ctx s v hs hv
  rw [viewS_elem] at hdec
  simp only [unmarshalS, marshalS, unmarshalWith, henc, viewSL, toksL, List.append_nil, viewS_elem, parse_toks, hdec,
    Option.map]

/-- the second serialization is identical: tokens and bytes -/
theorem C01_schema_reserialise (ctx : Str) (s : Ty) (v : Val) (hs : Schema.wf s = true) (hv : v.fits s = true) :
    (unmarshalS s (marshalS ctx s v)).map (fun p => (marshalS ctx s p.1, bytesS s p.1)) =
      some (marshalS ctx s v, bytesS s v) := by
  have := C01_schema_roundtrip ctx s v [] hs hv
  rw [List.append_nil] at this; rw [this]; rfl

/-- text never injects XML: the bytes written for ANY value of a well-formed schema - strings of any content, fitting
or not; only the fields that are element names by design (a dynamic XMLName, the names inside a Node) must hold names -
contain exactly two '<' and two '>' per element of the encoded structure -/
theorem C01_schema_structure (c : Char) (hc : c = '<' ∨ c = '>') (s : Ty) (v : Val) (hs : Schema.wf s = true)
    (hv : v.namesOk = true) : count c (bytesS s v) = 2 * elemCountL (encS s v) := by
  obtain ⟨_, hn, hw⟩ := wf_parts s hs
  have := namesE s ⟨[], topLoc s⟩ false hn hw [] false v hv
  rw [← encS_top s v hs] at this
  exact struct_els c hc _ this

/-- in particular for every fitting value -/
theorem C01_schema_structure_fits (c : Char) (hc : c = '<' ∨ c = '>') (s : Ty) (v : Val) (hs : Schema.wf s = true)
    (hv : v.fits s = true) : count c (bytesS s v) = 2 * elemCountL (encS s v) := by
  obtain ⟨_, hn, hw⟩ := wf_parts s hs
  exact C01_schema_structure c hc s v hs (fits_names s ⟨[], topLoc s⟩ false hn hw v hv)

/-- … and the element skeleton (names and nesting) the decoder sees is that of the value with every text blanked
(any schema, any value) -/
theorem C01_schema_shape_text_independent (ctx : Str) (s : Ty) (v : Val) :
    shapeL (viewSL ctx (encS s v)) = shapeL (encS s v.mask) := by
  rw [shapeL_viewS, encS, encS, maskE]

/-- so two values that differ only in the content of their non-empty strings are written with the same skeleton -/
theorem C01_schema_same_skeleton (ctx : Str) (s : Ty) (v w : Val) (h : v.mask = w.mask) :
    shapeL (viewSL ctx (encS s v)) = shapeL (viewSL ctx (encS s w)) := by
  rw [C01_schema_shape_text_independent, C01_schema_shape_text_independent, h]

/-! ### the oracle accepts the model -/
mutual
private theorem beq_refl (v : Val) : Val.beq v v = true := by
  cases v with
  | struct dn fs => simp [Val.beq, beqL_refl fs]
  | ref x => simp [Val.beq, beq_refl x]
  | slice l => simp [Val.beq, beqL_refl l]
  | node t => simp [Val.beq, Tree.beq_refl]
  | _ => simp [Val.beq]
private theorem beqL_refl (l : List Val) : Val.beqL l l = true := by
  cases l with
  | nil => simp [Val.beqL]
  | cons x xs => simp [Val.beqL, beq_refl x, beqL_refl xs]
end

theorem C01_schema_oracle_accepts_model (ctx : Str) (s : Ty) (v : Val) (np : String)
    (hnp : np = "same" ∨ np = "-") : holdsS s v (modelObsS ctx s v np) = true := by
  unfold holdsS
  by_cases hq : (Ty.wf s && v.fits s) = true
  · have hq' := hq
    simp only [Bool.and_eq_true] at hq'
    have hrt := C01_schema_roundtrip ctx s v [] hq'.1 hq'.2
    rw [List.append_nil] at hrt
    have hnp' : (np == "same" || np == "-") = true := by rcases hnp with e | e <;> subst e <;> decide
    simp [hq, modelObsS, hrt, beq_refl, shapeL_viewS, hnp']
  · simp [hq]

-- non-vacuity: metacharacter-heavy values fit
example : (Val.struct noName [.nil, .str "a<b>&\"'\r\n]]>".toList, .str " x ".toList]).fits tyOOB = true := by decide
example : Schema.wf tyDiscoInfo = true := by decide

end XmppVerif.Props.C01S

#print axioms XmppVerif.Props.C01S.C01_schema_roundtrip_el
#print axioms XmppVerif.Props.C01S.C01_schema_roundtrip
#print axioms XmppVerif.Props.C01S.C01_schema_reserialise
#print axioms XmppVerif.Props.C01S.C01_schema_structure
#print axioms XmppVerif.Props.C01S.C01_schema_structure_fits
#print axioms XmppVerif.Props.C01S.C01_schema_shape_text_independent
#print axioms XmppVerif.Props.C01S.C01_schema_same_skeleton
#print axioms XmppVerif.Props.C01S.C01_schema_oracle_accepts_model
