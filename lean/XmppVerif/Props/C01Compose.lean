import XmppVerif.Proofs.C01Compose
/-
C01: a stanza TOGETHER with its registered extensions / payload - the envelope theorems and the schema theorem composed
through the registry lookup of the hand-written loops.
  Message  with any list (any number, any order, repetitions) of extensions whose types are registered for messages
  Presence with any list of extensions registered for presences
  IQ       with at most one registered payload, an error and a generic payload (`Any`)
For every default namespace that is not itself a registered namespace: decode (marshal v) = v, the rest of the stream
untouched; hence a byte-identical second serialization. An extension is in the class (`extOk`, decidable) when its Go
type has a well-formed schema with a tagged, namespaced XMLName, the registry maps that name to this very type (so not
Roster: F-01n), and the value fits the schema.
-/
namespace XmppVerif.Props.C01S
open XmppVerif.Model.C01 hiding Schema Field FKind FVal FlatVal schemas fld conforms fvalOk encField decField decFields
open XmppVerif.Model.C01S XmppVerif.Spec.C01 XmppVerif.Proofs.C01 XmppVerif.Proofs.C01S

private theorem unmarshal_marshalX {α : Type} (ctx : Str) (enc : α → El) (dec : El → Option α) (v : α)
    (rest : List Tok) (hel : ∃ n a ks, enc v = .elem n a ks) (h : dec (viewS ctx (enc v)) = some v) :
    unmarshalWith dec (marshalX ctx enc v ++ rest) = some (v, rest) := by
  obtain ⟨n, a, ks, he⟩ := hel
  rw [he, viewS_elem] at h
  simp only [unmarshalWith, marshalX, he, viewS_elem, parse_toks, h, Option.map]

theorem C01_roundtrip_MessageX (ctx : Str) (m : MessageX) (rest : List Tok) (hctx : ctxOkX ctx = true)
    (hw : m.wf = true) : unmarshalWith decMessageX (marshalX ctx encMessageX m ++ rest) = some (m, rest) :=
  unmarshal_marshalX ctx _ _ m rest ⟨_, _, _, rfl⟩ (msgx_rt ctx m hctx hw)

theorem C01_roundtrip_PresenceX (ctx : Str) (p : PresenceX) (rest : List Tok) (hctx : ctxOkX ctx = true)
    (hw : p.wf = true) : unmarshalWith decPresenceX (marshalX ctx encPresenceX p ++ rest) = some (p, rest) :=
  unmarshal_marshalX ctx _ _ p rest ⟨_, _, _, rfl⟩ (presx_rt ctx p hctx hw)

theorem C01_roundtrip_IQX (ctx : Str) (q : IQX) (rest : List Tok) (hw : q.wf ctx = true) :
    unmarshalWith decIQX (marshalX ctx encIQX q ++ rest) = some (q, rest) :=
  unmarshal_marshalX ctx _ _ q rest ⟨_, _, _, rfl⟩ (iqx_rt ctx q hw)

/-- the second serialization of each is byte-identical -/
theorem C01_reserialise_X (ctx : Str) (m : MessageX) (p : PresenceX) (q : IQX) (hctx : ctxOkX ctx = true)
    (hm : m.wf = true) (hp : p.wf = true) (hq : q.wf ctx = true) :
    (unmarshalWith decMessageX (marshalX ctx encMessageX m)).map (fun r => render (encMessageX r.1)) =
        some (render (encMessageX m)) ∧
    (unmarshalWith decPresenceX (marshalX ctx encPresenceX p)).map (fun r => render (encPresenceX r.1)) =
        some (render (encPresenceX p)) ∧
    (unmarshalWith decIQX (marshalX ctx encIQX q)).map (fun r => render (encIQX r.1)) = some (render (encIQX q)) := by
  have h1 := C01_roundtrip_MessageX ctx m [] hctx hm
  have h2 := C01_roundtrip_PresenceX ctx p [] hctx hp
  have h3 := C01_roundtrip_IQX ctx q [] hq
  rw [List.append_nil] at h1 h2 h3
  rw [h1, h2, h3]
  exact ⟨rfl, rfl, rfl⟩

/-- where no extension writes `xmlns=""` the decoder's view is the `view` of the envelope theorems -/
theorem C01_viewS_eq_view (ctx : Str) (e : El) (h : noDecl e = true) : viewS ctx e = view ctx e :=
  viewS_eq_view ctx e h

-- non-vacuity: the usual stream namespaces; a message with three extensions (one twice); an IQ with a disco#info payload
example : ctxOkX "jabber:client".toList = true ∧ ctxOkX [] = true ∧ ctxOkX "jabber:component:accept".toList = true := by
  decide
example : (MessageX.mk ⟨⟨"chat".toList, "1".toList, [], [], []⟩, [], "a<b>&\"'\r\n]]>".toList, [], Err.zero⟩
    [⟨"StateActive", .struct noName [.nil]⟩,
     ⟨"OOB", .struct noName [.nil, .str "http://x/?a=1&b=<2>".toList, .str []]⟩,
     ⟨"ReceiptReceived", .struct noName [.nil, .str "id\"1".toList]⟩,
     ⟨"StateActive", .struct noName [.nil]⟩]).wf = true := by decide
example : (IQX.mk ⟨"result".toList, "7".toList, [], [], []⟩
    (some ⟨"DiscoInfo", .struct noName [.str "n".toList, .slice [.struct noName [.str "a".toList, .str [], .str "c".toList]],
      .slice [.struct noName [.str "urn:x".toList]], .nil]⟩) none none).wf "jabber:client".toList = true := by decide
example : (PresenceX.mk ⟨⟨[], [], "room@muc/nick".toList, [], []⟩, [], [], 0, Err.zero⟩
    [⟨"MucPresence", .struct noName [.nil, .str "s3cr<t".toList, .history (some 0) none (some 3600)]⟩]).wf = true := by decide
-- Roster is registered under a name that the registry maps to RosterItems (F-01n): outside the class
example : extOk "PKTIQ" ⟨"Roster", .struct noName [.nil]⟩ = false := by decide

end XmppVerif.Props.C01S

#print axioms XmppVerif.Props.C01S.C01_roundtrip_MessageX
#print axioms XmppVerif.Props.C01S.C01_roundtrip_PresenceX
#print axioms XmppVerif.Props.C01S.C01_roundtrip_IQX
#print axioms XmppVerif.Props.C01S.C01_reserialise_X
#print axioms XmppVerif.Props.C01S.C01_viewS_eq_view
