import XmppVerif.Props.C01Schema
/-
C01, schema-coded types: the generic theorems instantiated. `C01_roundtrip_modelled` covers every struct type of
stanza/ reachable from the registry whose schema is well-formed (`modelled`, 69 types; the list is pinned in
Tie/C01Schema.lean); below it one named instance per REGISTERED type among them (26), `Schema.wf` by `decide`.
Delegation: the class has `Forwarded = nil` (Forwarded has a hand-written UnmarshalXML).
PubSubGeneric: Item.Any (`,any` *Node) holds a tree of the exact class of the Node theorems (every element with its own
namespace, no namespaced attribute) whose root name no field of Item takes; Form.Reported / Form.Items (dynamic
XMLName) hold the name the decoder stores, ⟨"", field name⟩.
MucPresence: History (hand-written MarshalXML / UnmarshalXML, a leaf of the schema type) with `Since` the zero time.
-/
namespace XmppVerif.Props.C01S
open XmppVerif.Model.C01 hiding Schema Field FKind FVal FlatVal schemas fld conforms fvalOk encField decField decFields
open XmppVerif.Model.C01S XmppVerif.Spec.C01 XmppVerif.Spec.C01S

theorem C01_roundtrip_modelled (name : String) (s : Ty) (hm : (name, s) ∈ modelled) (ctx : Str) (v : Val)
    (rest : List Tok) (hv : v.fits s = true) : unmarshalS s (marshalS ctx s v ++ rest) = some (v, rest) := by
  have : Ty.wf s = true := by
    have := (List.mem_filter.mp hm).2
    simpa using this
  exact C01_schema_roundtrip ctx s v rest this hv

theorem C01_structure_modelled (name : String) (s : Ty) (hm : (name, s) ∈ modelled) (c : Char)
    (hc : c = '<' ∨ c = '>') (v : Val) (hv : v.namesOk = true) : count c (bytesS s v) = 2 * elemCountL (encS s v) := by
  have : Ty.wf s = true := by
    have := (List.mem_filter.mp hm).2
    simpa using this
  exact C01_schema_structure c hc s v this hv

theorem C01_roundtrip_Delegation (ctx : Str) (v : Val) (rest : List Tok) (hv : v.fits tyDelegation = true) :
    unmarshalS tyDelegation (marshalS ctx tyDelegation v ++ rest) = some (v, rest) :=
  C01_schema_roundtrip ctx _ v rest (by decide) hv
theorem C01_roundtrip_DiscoInfo (ctx : Str) (v : Val) (rest : List Tok) (hv : v.fits tyDiscoInfo = true) :
    unmarshalS tyDiscoInfo (marshalS ctx tyDiscoInfo v ++ rest) = some (v, rest) :=
  C01_schema_roundtrip ctx _ v rest (by decide) hv
theorem C01_roundtrip_DiscoItems (ctx : Str) (v : Val) (rest : List Tok) (hv : v.fits tyDiscoItems = true) :
    unmarshalS tyDiscoItems (marshalS ctx tyDiscoItems v ++ rest) = some (v, rest) :=
  C01_schema_roundtrip ctx _ v rest (by decide) hv
theorem C01_roundtrip_Roster (ctx : Str) (v : Val) (rest : List Tok) (hv : v.fits tyRoster = true) :
    unmarshalS tyRoster (marshalS ctx tyRoster v ++ rest) = some (v, rest) :=
  C01_schema_roundtrip ctx _ v rest (by decide) hv
theorem C01_roundtrip_RosterItems (ctx : Str) (v : Val) (rest : List Tok) (hv : v.fits tyRosterItems = true) :
    unmarshalS tyRosterItems (marshalS ctx tyRosterItems v ++ rest) = some (v, rest) :=
  C01_schema_roundtrip ctx _ v rest (by decide) hv
theorem C01_roundtrip_Version (ctx : Str) (v : Val) (rest : List Tok) (hv : v.fits tyVersion = true) :
    unmarshalS tyVersion (marshalS ctx tyVersion v ++ rest) = some (v, rest) :=
  C01_schema_roundtrip ctx _ v rest (by decide) hv
theorem C01_roundtrip_Markable (ctx : Str) (v : Val) (rest : List Tok) (hv : v.fits tyMarkable = true) :
    unmarshalS tyMarkable (marshalS ctx tyMarkable v ++ rest) = some (v, rest) :=
  C01_schema_roundtrip ctx _ v rest (by decide) hv
theorem C01_roundtrip_MarkReceived (ctx : Str) (v : Val) (rest : List Tok) (hv : v.fits tyMarkReceived = true) :
    unmarshalS tyMarkReceived (marshalS ctx tyMarkReceived v ++ rest) = some (v, rest) :=
  C01_schema_roundtrip ctx _ v rest (by decide) hv
theorem C01_roundtrip_MarkDisplayed (ctx : Str) (v : Val) (rest : List Tok) (hv : v.fits tyMarkDisplayed = true) :
    unmarshalS tyMarkDisplayed (marshalS ctx tyMarkDisplayed v ++ rest) = some (v, rest) :=
  C01_schema_roundtrip ctx _ v rest (by decide) hv
theorem C01_roundtrip_MarkAcknowledged (ctx : Str) (v : Val) (rest : List Tok) (hv : v.fits tyMarkAcknowledged = true) :
    unmarshalS tyMarkAcknowledged (marshalS ctx tyMarkAcknowledged v ++ rest) = some (v, rest) :=
  C01_schema_roundtrip ctx _ v rest (by decide) hv
theorem C01_roundtrip_StateActive (ctx : Str) (v : Val) (rest : List Tok) (hv : v.fits tyStateActive = true) :
    unmarshalS tyStateActive (marshalS ctx tyStateActive v ++ rest) = some (v, rest) :=
  C01_schema_roundtrip ctx _ v rest (by decide) hv
theorem C01_roundtrip_StateComposing (ctx : Str) (v : Val) (rest : List Tok) (hv : v.fits tyStateComposing = true) :
    unmarshalS tyStateComposing (marshalS ctx tyStateComposing v ++ rest) = some (v, rest) :=
  C01_schema_roundtrip ctx _ v rest (by decide) hv
theorem C01_roundtrip_StateGone (ctx : Str) (v : Val) (rest : List Tok) (hv : v.fits tyStateGone = true) :
    unmarshalS tyStateGone (marshalS ctx tyStateGone v ++ rest) = some (v, rest) :=
  C01_schema_roundtrip ctx _ v rest (by decide) hv
theorem C01_roundtrip_StateInactive (ctx : Str) (v : Val) (rest : List Tok) (hv : v.fits tyStateInactive = true) :
    unmarshalS tyStateInactive (marshalS ctx tyStateInactive v ++ rest) = some (v, rest) :=
  C01_schema_roundtrip ctx _ v rest (by decide) hv
theorem C01_roundtrip_StatePaused (ctx : Str) (v : Val) (rest : List Tok) (hv : v.fits tyStatePaused = true) :
    unmarshalS tyStatePaused (marshalS ctx tyStatePaused v ++ rest) = some (v, rest) :=
  C01_schema_roundtrip ctx _ v rest (by decide) hv
theorem C01_roundtrip_HintNoPermanentStore (ctx : Str) (v : Val) (rest : List Tok) (hv : v.fits tyHintNoPermanentStore = true) :
    unmarshalS tyHintNoPermanentStore (marshalS ctx tyHintNoPermanentStore v ++ rest) = some (v, rest) :=
  C01_schema_roundtrip ctx _ v rest (by decide) hv
theorem C01_roundtrip_HintNoStore (ctx : Str) (v : Val) (rest : List Tok) (hv : v.fits tyHintNoStore = true) :
    unmarshalS tyHintNoStore (marshalS ctx tyHintNoStore v ++ rest) = some (v, rest) :=
  C01_schema_roundtrip ctx _ v rest (by decide) hv
theorem C01_roundtrip_HintNoCopy (ctx : Str) (v : Val) (rest : List Tok) (hv : v.fits tyHintNoCopy = true) :
    unmarshalS tyHintNoCopy (marshalS ctx tyHintNoCopy v ++ rest) = some (v, rest) :=
  C01_schema_roundtrip ctx _ v rest (by decide) hv
theorem C01_roundtrip_HintStore (ctx : Str) (v : Val) (rest : List Tok) (hv : v.fits tyHintStore = true) :
    unmarshalS tyHintStore (marshalS ctx tyHintStore v ++ rest) = some (v, rest) :=
  C01_schema_roundtrip ctx _ v rest (by decide) hv
theorem C01_roundtrip_OOB (ctx : Str) (v : Val) (rest : List Tok) (hv : v.fits tyOOB = true) :
    unmarshalS tyOOB (marshalS ctx tyOOB v ++ rest) = some (v, rest) :=
  C01_schema_roundtrip ctx _ v rest (by decide) hv
theorem C01_roundtrip_ReceiptRequest (ctx : Str) (v : Val) (rest : List Tok) (hv : v.fits tyReceiptRequest = true) :
    unmarshalS tyReceiptRequest (marshalS ctx tyReceiptRequest v ++ rest) = some (v, rest) :=
  C01_schema_roundtrip ctx _ v rest (by decide) hv
theorem C01_roundtrip_ReceiptReceived (ctx : Str) (v : Val) (rest : List Tok) (hv : v.fits tyReceiptReceived = true) :
    unmarshalS tyReceiptReceived (marshalS ctx tyReceiptReceived v ++ rest) = some (v, rest) :=
  C01_schema_roundtrip ctx _ v rest (by decide) hv
theorem C01_roundtrip_Bind (ctx : Str) (v : Val) (rest : List Tok) (hv : v.fits tyBind = true) :
    unmarshalS tyBind (marshalS ctx tyBind v ++ rest) = some (v, rest) :=
  C01_schema_roundtrip ctx _ v rest (by decide) hv
theorem C01_roundtrip_StreamSession (ctx : Str) (v : Val) (rest : List Tok) (hv : v.fits tyStreamSession = true) :
    unmarshalS tyStreamSession (marshalS ctx tyStreamSession v ++ rest) = some (v, rest) :=
  C01_schema_roundtrip ctx _ v rest (by decide) hv
theorem C01_roundtrip_PubSubGeneric (ctx : Str) (v : Val) (rest : List Tok) (hv : v.fits tyPubSubGeneric = true) :
    unmarshalS tyPubSubGeneric (marshalS ctx tyPubSubGeneric v ++ rest) = some (v, rest) :=
  C01_schema_roundtrip ctx _ v rest (by decide) hv
theorem C01_roundtrip_MucPresence (ctx : Str) (v : Val) (rest : List Tok) (hv : v.fits tyMucPresence = true) :
    unmarshalS tyMucPresence (marshalS ctx tyMucPresence v ++ rest) = some (v, rest) :=
  C01_schema_roundtrip ctx _ v rest (by decide) hv

end XmppVerif.Props.C01S

#print axioms XmppVerif.Props.C01S.C01_roundtrip_modelled
#print axioms XmppVerif.Props.C01S.C01_structure_modelled
#print axioms XmppVerif.Props.C01S.C01_roundtrip_Delegation
#print axioms XmppVerif.Props.C01S.C01_roundtrip_DiscoInfo
#print axioms XmppVerif.Props.C01S.C01_roundtrip_DiscoItems
#print axioms XmppVerif.Props.C01S.C01_roundtrip_Roster
#print axioms XmppVerif.Props.C01S.C01_roundtrip_RosterItems
#print axioms XmppVerif.Props.C01S.C01_roundtrip_Version
#print axioms XmppVerif.Props.C01S.C01_roundtrip_Markable
#print axioms XmppVerif.Props.C01S.C01_roundtrip_MarkReceived
#print axioms XmppVerif.Props.C01S.C01_roundtrip_MarkDisplayed
#print axioms XmppVerif.Props.C01S.C01_roundtrip_MarkAcknowledged
#print axioms XmppVerif.Props.C01S.C01_roundtrip_StateActive
#print axioms XmppVerif.Props.C01S.C01_roundtrip_StateComposing
#print axioms XmppVerif.Props.C01S.C01_roundtrip_StateGone
#print axioms XmppVerif.Props.C01S.C01_roundtrip_StateInactive
#print axioms XmppVerif.Props.C01S.C01_roundtrip_StatePaused
#print axioms XmppVerif.Props.C01S.C01_roundtrip_HintNoPermanentStore
#print axioms XmppVerif.Props.C01S.C01_roundtrip_HintNoStore
#print axioms XmppVerif.Props.C01S.C01_roundtrip_HintNoCopy
#print axioms XmppVerif.Props.C01S.C01_roundtrip_HintStore
#print axioms XmppVerif.Props.C01S.C01_roundtrip_OOB
#print axioms XmppVerif.Props.C01S.C01_roundtrip_ReceiptRequest
#print axioms XmppVerif.Props.C01S.C01_roundtrip_ReceiptReceived
#print axioms XmppVerif.Props.C01S.C01_roundtrip_Bind
#print axioms XmppVerif.Props.C01S.C01_roundtrip_StreamSession
#print axioms XmppVerif.Props.C01S.C01_roundtrip_PubSubGeneric
#print axioms XmppVerif.Props.C01S.C01_roundtrip_MucPresence
