import XmppVerif.Spec.C01Esc
/-
C01, character level: text can never inject markup, and the escaper is inverted by the decoder.
-/
namespace XmppVerif.Props.C01
open XmppVerif.Model.C01 XmppVerif.Spec.C01

/-! ### per code point -/

private theorem unescape_other (c : Char) (r : List Char) (h : c ≠ '&') : unescape (c :: r) = c :: unescape r := by
  rw [unescape]
  all_goals (intros; simp_all)

/-- case analysis on the escaper's nine classes -/
private theorem escChar_cases (nl : Bool) (c : Char) :
    (c = '"' ∧ escChar nl c = ['&', '#', '3', '4', ';']) ∨
    (c = '\'' ∧ escChar nl c = ['&', '#', '3', '9', ';']) ∨
    (c = '&' ∧ escChar nl c = ['&', 'a', 'm', 'p', ';']) ∨
    (c = '<' ∧ escChar nl c = ['&', 'l', 't', ';']) ∨
    (c = '>' ∧ escChar nl c = ['&', 'g', 't', ';']) ∨
    (c = '\t' ∧ escChar nl c = ['&', '#', 'x', '9', ';']) ∨
    (c = '\n' ∧ nl = true ∧ escChar nl c = ['&', '#', 'x', 'A', ';']) ∨
    (c = '\n' ∧ nl = false ∧ escChar nl c = ['\n']) ∨
    (c = '\r' ∧ escChar nl c = ['&', '#', 'x', 'D', ';']) ∨
    (c ≠ '&' ∧ isMeta c = false ∧ isXmlChar c = true ∧ escChar nl c = [c]) ∨
    (isXmlChar c = false ∧ escChar nl c = [repl]) := by
  by_cases h1 : c = '"'
  · subst h1; exact .inl ⟨rfl, rfl⟩
  by_cases h2 : c = '\''
  · subst h2; exact .inr (.inl ⟨rfl, rfl⟩)
  by_cases h3 : c = '&'
  · subst h3; exact .inr (.inr (.inl ⟨rfl, rfl⟩))
  by_cases h4 : c = '<'
  · subst h4; exact .inr (.inr (.inr (.inl ⟨rfl, rfl⟩)))
  by_cases h5 : c = '>'
  · subst h5; exact .inr (.inr (.inr (.inr (.inl ⟨rfl, rfl⟩))))
  by_cases h6 : c = '\t'
  · subst h6; exact .inr (.inr (.inr (.inr (.inr (.inl ⟨rfl, rfl⟩)))))
  by_cases h7 : c = '\n'
  · subst h7
    cases nl
    · exact .inr (.inr (.inr (.inr (.inr (.inr (.inr (.inl ⟨rfl, rfl, rfl⟩)))))))
    · exact .inr (.inr (.inr (.inr (.inr (.inr (.inl ⟨rfl, rfl, rfl⟩))))))
  by_cases h8 : c = '\r'
  · subst h8; exact .inr (.inr (.inr (.inr (.inr (.inr (.inr (.inr (.inl ⟨rfl, rfl⟩))))))))
  by_cases h9 : isXmlChar c = true
  · refine .inr (.inr (.inr (.inr (.inr (.inr (.inr (.inr (.inr (.inl ⟨h3, ?_, h9, ?_⟩)))))))))
    · simp [isMeta, h1, h2, h4, h5]
    · simp [escChar, h1, h2, h3, h4, h5, h6, h7, h8, h9]
  · refine .inr (.inr (.inr (.inr (.inr (.inr (.inr (.inr (.inr (.inr ⟨by simpa using h9, ?_⟩)))))))))
    simp [escChar, h1, h2, h3, h4, h5, h6, h7, h8, h9]

private theorem unescape_escChar (nl : Bool) (c : Char) (r : List Char) :
    unescape (escChar nl c ++ r) = sanitizeChar c :: unescape r := by
  rcases escChar_cases nl c with ⟨h, e⟩ | ⟨h, e⟩ | ⟨h, e⟩ | ⟨h, e⟩ | ⟨h, e⟩ | ⟨h, e⟩ | ⟨h, _, e⟩ | ⟨h, _, e⟩ | ⟨h, e⟩ | ⟨h, _, hx, e⟩ | ⟨hx, e⟩
  all_goals rw [e]; simp only [List.cons_append, List.nil_append]
  · subst h; rw [unescape]; rfl
  · subst h; rw [unescape]; rfl
  · subst h; rw [unescape]; rfl
  · subst h; rw [unescape]; rfl
  · subst h; rw [unescape]; rfl
  · subst h; rw [unescape]; rfl
  · subst h; rw [unescape]; rfl
  · subst h; rw [unescape_other _ _ (by decide)]; rfl
  · subst h; rw [unescape]; rfl
  · rw [unescape_other _ _ h]; simp [sanitizeChar, hx]
  · rw [unescape_other _ _ (by decide)]; simp [sanitizeChar, hx]

private theorem escChar_no_meta (nl : Bool) (c x : Char) (h : x ∈ escChar nl c) : isMeta x = false := by
  rcases escChar_cases nl c with ⟨_, e⟩ | ⟨_, e⟩ | ⟨_, e⟩ | ⟨_, e⟩ | ⟨_, e⟩ | ⟨_, e⟩ | ⟨_, _, e⟩ | ⟨_, _, e⟩ | ⟨_, e⟩ | ⟨_, hm, _, e⟩ | ⟨_, e⟩
  all_goals rw [e] at h; simp only [List.mem_cons, List.not_mem_nil, or_false] at h
  any_goals (rcases h with h | h | h | h | h <;> subst h <;> decide)
  any_goals (rcases h with h | h | h | h <;> subst h <;> decide)
  any_goals (subst h; first | exact hm | decide)

private theorem ampsOk_escChar (nl : Bool) (c : Char) (r : List Char) :
    ampsOk (escChar nl c ++ r) = ampsOk r := by
  rcases escChar_cases nl c with ⟨_, e⟩ | ⟨_, e⟩ | ⟨_, e⟩ | ⟨_, e⟩ | ⟨_, e⟩ | ⟨_, e⟩ | ⟨_, _, e⟩ | ⟨_, _, e⟩ | ⟨_, e⟩ | ⟨h, _, _, e⟩ | ⟨_, e⟩
  all_goals rw [e]
  any_goals (simp [ampsOk, startsEntity, entityBodies, List.isPrefixOf]; done)
  · simp [ampsOk, h]
  · simp [ampsOk, repl]

/-! ### the property theorems -/

/-- Whatever the text contains, the escaped form has no `<`, `>`, `"`, `'`, and every `&` in it starts one of the
eight references `&#34; &#39; &amp; &lt; &gt; &#x9; &#xA; &#xD;`. -/
theorem C01_escape_safe (nl : Bool) (s : List Char) :
    (∀ c ∈ escapeText nl s, isMeta c = false) ∧ ampsOk (escapeText nl s) = true := by
  constructor
  · intro c hc
    simp only [escapeText, List.mem_flatMap] at hc
    obtain ⟨a, _, hx⟩ := hc
    exact escChar_no_meta nl a c hx
  · induction s with
    | nil => rfl
    | cons a s ih => simpa [escapeText, List.flatMap_cons, ampsOk_escChar] using ih

/-- For EVERY string: decoding the escaped form gives the string with non-XML characters replaced by U+FFFD. -/
theorem C01_unescape_escape_all (nl : Bool) (s : List Char) : unescape (escapeText nl s) = sanitize s := by
  induction s with
  | nil => rfl
  | cons a s ih =>
    simp only [escapeText, List.flatMap_cons] at ih ⊢
    rw [unescape_escChar, ih]; rfl

theorem sanitize_legal (s : List Char) (h : legal s = true) : sanitize s = s := by
  induction s with
  | nil => rfl
  | cons a s ih =>
    simp only [legal, List.all_cons, Bool.and_eq_true] at h
    have ih' := ih (by simpa [legal] using h.2)
    simp only [sanitize, List.map_cons, sanitizeChar, h.1, if_true] at ih' ⊢
    rw [ih']

/-- For strings of XML-legal characters (CR, LF, TAB, quotes, `]]>`, blanks, astral included) the round trip is exact. -/
theorem C01_unescape_escape (nl : Bool) (s : List Char) (h : legal s = true) :
    unescape (escapeText nl s) = s := by
  rw [C01_unescape_escape_all, sanitize_legal s h]

/-- The oracle accepts the model's escaped form of every string. -/
theorem C01_escape_oracle_accepts_model (nl : Bool) (s : List Char) :
    holdsEscape s (escapeText nl s) = true := by
  have h := C01_escape_safe nl s
  simp only [holdsEscape, Bool.and_eq_true, List.all_eq_true, decide_eq_true_eq]
  refine ⟨⟨fun c hc => by simp [h.1 c hc], h.2⟩, C01_unescape_escape_all nl s⟩

-- tests on literals (not theorems): the metacharacter alphabet, CR survives as a reference, `]]>`, non-characters
example : escapeText true "a<b>&\"'".toList = "a&lt;b&gt;&amp;&#34;&#39;".toList := by decide
example : escapeText true "\t\n\r".toList = "&#x9;&#xA;&#xD;".toList := by decide
example : escapeText false "\t\n\r".toList = "&#x9;\n&#xD;".toList := by decide
example : escapeText true "]]>".toList = "]]&gt;".toList := by decide
example : escapeText true [Char.ofNat 0, Char.ofNat 0xFFFE, Char.ofNat 0x1F600] = [repl, repl, Char.ofNat 0x1F600] := by decide
example : unescape "&amp;lt;".toList = "&lt;".toList := by decide
example : legal " a\r\n ".toList = true ∧ legal [Char.ofNat 0xB] = false := by decide
-- the hypothesis of C01_unescape_escape is satisfiable and necessary
example : unescape (escapeText true [Char.ofNat 1]) ≠ [Char.ofNat 1] := by decide

end XmppVerif.Props.C01

#print axioms XmppVerif.Props.C01.C01_escape_safe
#print axioms XmppVerif.Props.C01.C01_unescape_escape_all
#print axioms XmppVerif.Props.C01.C01_unescape_escape
#print axioms XmppVerif.Props.C01.C01_escape_oracle_accepts_model
