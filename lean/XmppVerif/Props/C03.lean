import XmppVerif.Props.NegLemmas
/-
C03 - negotiation succeeds iff the server completed every mandatory step, in order.
-/
set_option linter.unusedSimpArgs false
namespace XmppVerif.Props.C03
open XmppVerif.Model.Neg XmppVerif.Spec.Neg XmppVerif.Props.Neg

/-- post-SASL phase: established iff resumption confirmed, or (no resumption / refused) bind + session + enable -/
theorem afterAuth_iff (s : Sess) (sec : Bool) (f3 : Features) (sc : Script) :
    (afterAuth s sec f3 sc).outcome = .established ↔ completesAfterAuth s f3 sc = true := by
  unfold afterAuth completesAfterAuth
  cases hsm : f3.sm <;> cases hid : (s.smId != "") <;> cases hrr : sc.resumeReply <;>
    cases hb : sc.bindReply <;> simp [Sess.clearSM] <;>
    cases hm : f3.sessionMandatory <;> cases hs : sc.sessReply <;> simp <;>
    cases hq : s.smReq <;> cases he : sc.enableReply <;> simp [isEnabled]

/-- **Success iff**: for every configuration, every session state carried over from earlier connections and every
server behaviour (one reply class per step), the connection is established exactly when the server completed every
mandatory step; in every other case `connect` returns an error (the outcome type has no third value: the model is
total, no step can hang or panic). -/
theorem C03_success_iff (cfg : Cfg) (s0 : Sess) (sc : Script) :
    (negotiate cfg s0 sc).outcome = .established ↔ completes cfg s0 sc = true := by
  have ho := phase1_outcome cfg s0 sc
  have hc := phase1_completes cfg s0 sc
  unfold negotiate
  cases hp : phase1 cfg s0 sc with
  | stop r =>
    rw [hp] at ho hc
    simp only at ho hc ⊢
    rw [hc]
    constructor
    · intro h; exact absurd h ho.1
    · intro h; exact absurd h (by simp)
  | go sec f3 w =>
    rw [hp] at hc
    simp only at hc ⊢
    rw [hc]
    exact afterAuth_iff _ _ _ _

theorem C03_error_otherwise (cfg : Cfg) (s0 : Sess) (sc : Script) (h : completes cfg s0 sc = false) :
    ∃ perm, (negotiate cfg s0 sc).outcome = .failed perm := by
  cases ho : (negotiate cfg s0 sc).outcome with
  | established => rw [(C03_success_iff cfg s0 sc).mp ho] at h; exact absurd h (by simp)
  | failed p => exact ⟨p, rfl⟩

/-- the writes after SASL continue the RFC order from the post-restart state -/
theorem afterAuth_order (s : Sess) (sec : Bool) (f3 : Features) (sc : Script) :
    (orderRun 5 ((afterAuth s sec f3 sc).writes.map (·.kind))).isSome = true := by
  unfold afterAuth
  cases hsm : f3.sm <;> cases hid : (s.smId != "") <;> cases hrr : sc.resumeReply <;>
    cases hb : sc.bindReply <;> simp [Sess.clearSM, orderRun, orderStep] <;>
    cases hm : f3.sessionMandatory <;> cases hs : sc.sessReply <;> simp [orderRun, orderStep] <;>
    cases hq : s.smReq <;> cases he : sc.enableReply <;> simp [orderRun, orderStep]

/-- **Order**: in every negotiation the client's writes follow the RFC 6120 sequence
open, [starttls, open], auth, open, [resume], [bind, [session], [enable]] - for every server behaviour. Together
with the model's structure (each write sits behind the success branch of the previous reply) this is "each request
is sent only after the previous step was confirmed". -/
theorem C03_order (cfg : Cfg) (s0 : Sess) (sc : Script) :
    orderOk ((negotiate cfg s0 sc).writes.map (·.kind)) = true := by
  have ho := phase1_order cfg s0 sc
  unfold orderOk negotiate
  cases hp : phase1 cfg s0 sc with
  | stop r => rw [hp] at ho; exact ho
  | go sec f3 w =>
    rw [hp] at ho
    simp only at ho ⊢
    rw [List.map_append, orderRun_append, ho]
    exact afterAuth_order _ _ _ _

/-- confirmation: a bind, session or enable request is only ever written after `<success/>` and a decodable
post-SASL feature set; a session request only after a bind result; `<enable/>` only after bind (and session). -/
theorem C03_sm_and_bind_only_after_auth (cfg : Cfg) (s0 : Sess) (sc : Script) (w : Write)
    (hw : w ∈ (negotiate cfg s0 sc).writes) (hk : w.kind = .bind ∨ w.kind = .session ∨ w.kind = .enable ∨ isResume w.kind = true) :
    sc.authReply = .success ∧ sc.open3 = true ∧ sc.feat3.isSome = true := by
  -- such a write cannot come from phase 1; hence phase 1 said `go`, which requires exactly these replies
  have hkinds := phase1_kinds cfg s0 sc
  unfold negotiate at hw
  cases hp : phase1 cfg s0 sc with
  | stop r =>
    rw [hp] at hkinds hw
    have := hkinds w hw
    rcases hk with h | h | h | h
    · rw [h] at this; simp at this
    · rw [h] at this; simp at this
    · rw [h] at this; simp at this
    · rcases this with t | t | t <;> rw [t] at h <;> simp [isResume] at h
  | go sec f3 pre =>
    rw [hp] at hkinds
    exact hkinds.2

-- non-vacuity: the reference is satisfiable and refutable
example : completes ⟨true⟩ ⟨false, "", 0, "", false⟩
    { conn := .ok, feat1 := some ⟨false, true, false, false⟩, tlsReply := .closed, tlsOk := false, open2 := false,
      feat2 := none, authReply := .success, open3 := true, feat3 := some ⟨false, true, false, false⟩,
      resumeReply := .undecodable, bindReply := .resultBind, sessReply := .undecodable, enableReply := .undecodable,
      newSmId := "", bindJid := "j" } = true := by decide
example : completes ⟨false⟩ ⟨false, "", 0, "", false⟩
    { conn := .ok, feat1 := some ⟨false, true, false, false⟩, tlsReply := .closed, tlsOk := false, open2 := false,
      feat2 := none, authReply := .success, open3 := true, feat3 := some ⟨false, true, false, false⟩,
      resumeReply := .undecodable, bindReply := .resultBind, sessReply := .undecodable, enableReply := .undecodable,
      newSmId := "", bindJid := "j" } = false := by decide

end XmppVerif.Props.C03

#print axioms XmppVerif.Props.C03.afterAuth_iff
#print axioms XmppVerif.Props.C03.C03_success_iff
#print axioms XmppVerif.Props.C03.C03_error_otherwise
#print axioms XmppVerif.Props.C03.afterAuth_order
#print axioms XmppVerif.Props.C03.C03_order
#print axioms XmppVerif.Props.C03.C03_sm_and_bind_only_after_auth
