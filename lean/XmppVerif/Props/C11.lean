import XmppVerif.Props.NegLemmas
/-
C11 - stream management: resume only with the previous id and count; drop stale state.
-/
set_option linter.unusedSimpArgs false
namespace XmppVerif.Props.C11
open XmppVerif.Model.Neg XmppVerif.Spec.Neg XmppVerif.Props.Neg

/-- the resumption request is attempted exactly when SM is advertised and an id is held -/
def tries (s : Sess) (f3 : Features) : Bool := f3.sm && s.smId != ""

/-- **Only with an id, and with exactly the held id and count**: after SASL, a `<resume/>` is written iff stream
management is advertised on the new connection and the session holds an id; it is the first write, and it carries
that id and the session's current inbound count. -/
theorem C11_resume_fields (s : Sess) (sec : Bool) (f3 : Features) (sc : Script) :
    (afterAuth s sec f3 sc).writes.filter (fun w => isResume w.kind) =
      (if tries s f3 then [⟨.resume s.smId s.inbound, sec⟩] else []) := by
  unfold afterAuth tries
  cases hsm : f3.sm <;> cases hid : (s.smId != "") <;> cases hrr : sc.resumeReply <;>
    cases hb : sc.bindReply <;> simp [Sess.clearSM, isResume] <;>
    cases hm : f3.sessionMandatory <;> cases hs : sc.sessReply <;> simp [isResume] <;>
    cases hq : s.smReq <;> cases he : sc.enableReply <;> simp [isResume]

/-- **Confirmed with the same id**: the session continues - no bind, identity, id and count unchanged. -/
theorem C11_resumed_keeps (s : Sess) (sec : Bool) (f3 : Features) (sc : Script)
    (ht : tries s f3 = true) (hr : sc.resumeReply = .resumedSame) :
    afterAuth s sec f3 sc = ⟨.established, [⟨.resume s.smId s.inbound, sec⟩], s, sec, true⟩ := by
  unfold tries at ht
  unfold afterAuth
  simp [ht, hr]

/-- **Refused** (`<failed/>`): the stale state is dropped and a fresh session is bound - always. -/
theorem C11_refused_then_bind (s : Sess) (sec : Bool) (f3 : Features) (sc : Script)
    (ht : tries s f3 = true) (hr : sc.resumeReply = .failed) :
    (⟨.bind, sec⟩ : Write) ∈ (afterAuth s sec f3 sc).writes ∧
    (afterAuth s sec f3 sc).resumed = false ∧
    ((afterAuth s sec f3 sc).sess.smId = "" ∨
     (isEnabled sc.enableReply = true ∧ (afterAuth s sec f3 sc).sess.smId = sc.newSmId)) := by
  unfold tries at ht
  unfold afterAuth
  simp only [ht, hr]
  cases hb : sc.bindReply <;> simp [Sess.clearSM] <;>
    cases hm : f3.sessionMandatory <;> cases hs : sc.sessReply <;> simp <;>
    cases hsm : f3.sm <;> cases hq : s.smReq <;> cases he : sc.enableReply <;> simp [isEnabled]

/-- **Any other answer** (another id, an unexpected element, a broken stream): the connection fails, nothing is
bound, the old session is not continued and its id is forgotten. -/
theorem C11_mismatch_fails_and_clears (s : Sess) (sec : Bool) (f3 : Features) (sc : Script)
    (ht : tries s f3 = true) (hr : sc.resumeReply ≠ .resumedSame) (hf : sc.resumeReply ≠ .failed) :
    afterAuth s sec f3 sc = ⟨.failed false, [⟨.resume s.smId s.inbound, sec⟩], s.clearSM, sec, false⟩ := by
  unfold tries at ht
  unfold afterAuth
  cases hrr : sc.resumeReply <;> simp_all

/-- the id the client holds at the end of a connection, as a function of what the server did: unchanged after a
confirmed resumption or when no SM step was reached; the new id after `<enabled/>`; nothing after a refusal, an
unexpected answer, a failed `<enable/>`, or when the session object was lost. -/
theorem C11_never_without_id (s : Sess) (sec : Bool) (f3 : Features) (sc : Script) (h : s.smId = "") :
    (afterAuth s sec f3 sc).writes.filter (fun w => isResume w.kind) = [] := by
  rw [C11_resume_fields]; simp [tries, h]

/-- Ghost reading of "stale", over observations only: `g` is the id of the latest `<enabled/>` that has not been
refused since (or "" when there is none). After a connection with server behaviour `sc` and observed result `r`:
unchanged after a confirmed resumption or when no SM step was reached; the new id after `<enabled/>`; nothing after a
refusal, an unexpected answer, a failed `<enable/>`, or when the session object was lost. -/
def ghostNext (g : String) (sc : Script) (r : Result) : String :=
  if !r.sess.present then ""                                   -- session object lost
  else if r.writes.any (fun w => w.kind == .enable) then       -- an <enable/> was sent on this connection
    (match sc.enableReply with
     | .enabled _ => sc.newSmId
     | .failed => ""
     | _ => if r.writes.any (fun w => isResume w.kind) then "" else g)   -- (a refused resume precedes it)
  else if r.writes.any (fun w => isResume w.kind) then
    (if sc.resumeReply == .resumedSame then g else "")           -- refused / other answer: forgotten
  else g

theorem afterAuth_ghost (s : Sess) (sec : Bool) (f3 : Features) (sc : Script) (hp : s.present = true) :
    let r := afterAuth s sec f3 sc
    r.sess.present = true ∧
    r.sess.smId =
      (if r.writes.any (fun w => w.kind == .enable) then
        (match sc.enableReply with
         | .enabled _ => sc.newSmId
         | .failed => ""
         | _ => if r.writes.any (fun w => isResume w.kind) then "" else s.smId)
       else if r.writes.any (fun w => isResume w.kind) then
        (if sc.resumeReply == .resumedSame then s.smId else "")
       else s.smId) := by
  unfold afterAuth
  cases hsm : f3.sm <;> cases hid : (s.smId != "") <;> cases hrr : sc.resumeReply <;>
    cases hb : sc.bindReply <;> simp [Sess.clearSM, isResume, hp] <;>
    cases hm : f3.sessionMandatory <;> cases hs : sc.sessReply <;> simp [isResume, hp] <;>
    cases hq : s.smReq <;> cases he : sc.enableReply <;> simp [isResume, hp]

/-- Shape of every negotiation: either it stops before the post-SASL steps (no SM write; the session is the old
one, a fresh one, or lost), or it is the post-SASL phase appended to a prefix without SM writes. -/
theorem negotiate_cases (cfg : Cfg) (s0 : Sess) (sc : Script) :
    (noSM (negotiate cfg s0 sc).writes ∧
      ((negotiate cfg s0 sc).sess = s0 ∨ (negotiate cfg s0 sc).sess = s0.dropped ∨ (negotiate cfg s0 sc).sess = sfix s0))
    ∨ (∃ sec f3 pre, noSM pre ∧
        negotiate cfg s0 sc = { afterAuth (sfix s0) sec f3 sc with writes := pre ++ (afterAuth (sfix s0) sec f3 sc).writes }) := by
  have hn := phase1_noSM cfg s0 sc
  have ho := phase1_outcome cfg s0 sc
  unfold negotiate
  cases hp : phase1 cfg s0 sc with
  | stop r => rw [hp] at hn ho; exact Or.inl ⟨hn, ho.2.2⟩
  | go sec f3 w => rw [hp] at hn; exact Or.inr ⟨sec, f3, w, hn, rfl⟩

private theorem any_false_of_noSM {ws : List Write} (h : noSM ws) :
    ws.any (fun w => w.kind == .enable) = false ∧ ws.any (fun w => isResume w.kind) = false := by
  constructor
  · cases hh : ws.any (fun w => w.kind == .enable) with
    | false => rfl
    | true =>
      obtain ⟨w, hw, hk⟩ := List.any_eq_true.mp hh
      rw [(h w hw).1] at hk; exact absurd hk (by simp)
  · cases hh : ws.any (fun w => isResume w.kind) with
    | false => rfl
    | true =>
      obtain ⟨w, hw, hk⟩ := List.any_eq_true.mp hh
      rw [(h w hw).2] at hk; exact absurd hk (by simp)

/-- **The held id is the ghost**: after any connection, whatever the server did, the id the client holds equals
the ghost computed from the observations. -/
theorem C11_held_is_ghost (cfg : Cfg) (s0 : Sess) (sc : Script) :
    heldId (negotiate cfg s0 sc).sess = ghostNext (heldId s0) sc (negotiate cfg s0 sc) := by
  rcases negotiate_cases cfg s0 sc with ⟨hno, hs⟩ | ⟨sec, f3, pre, hno, heq⟩
  · obtain ⟨he, hr⟩ := any_false_of_noSM hno
    unfold ghostNext
    rw [he, hr]
    rcases hs with h | h | h <;> rw [h] <;> cases hp : s0.present <;> simp [heldId, sfix, Sess.dropped, hp]
  · obtain ⟨he, hr⟩ := any_false_of_noSM hno
    have hps := sfix_present s0
    have hid : (sfix s0).smId = (if s0.present then s0.smId else "") := sfix_smId s0
    obtain ⟨g1, g2⟩ := afterAuth_ghost (sfix s0) sec f3 sc hps
    rw [heq]
    unfold ghostNext heldId
    simp only [g1, List.any_append, he, hr, Bool.false_or, Bool.not_true, Bool.false_eq_true, if_false, if_true]
    rw [g2, hid]

/-- ghost value before each connection of a history -/
def ghostSeq (cfg : Cfg) (s : Sess) (g : String) : List Script → List String
  | [] => []
  | sc :: rest => g :: ghostSeq cfg (negotiate cfg s sc).sess (ghostNext g sc (negotiate cfg s sc)) rest

/-- on the k-th connection every `<resume/>` carries the k-th ghost id, which is not empty -/
def ResumeOnlyGhost : List Result → List String → Prop
  | r :: rs, g :: gs => (∀ w ∈ r.writes, ∀ p h, w.kind = .resume p h → p = g ∧ g ≠ "") ∧ ResumeOnlyGhost rs gs
  | [], [] => True
  | _, _ => False

/-- **Stale ids are never presented again** (every history of connections): on the k-th connection a `<resume/>`
is written only with the ghost id - the id of the latest `<enabled/>` not refused since - and never with an empty one;
in particular after a refusal, a mismatch or any other answer, the refused id does not reappear unless the server
itself hands it out again in a new `<enabled/>`. -/
theorem C11_stale_never_again (cfg : Cfg) (scripts : List Script) : ∀ (s : Sess),
    ResumeOnlyGhost (connectAll cfg s scripts) (ghostSeq cfg s (heldId s) scripts) := by
  induction scripts with
  | nil => intro s; exact True.intro
  | cons sc rest ih =>
    intro s
    simp only [connectAll, ghostSeq, ResumeOnlyGhost]
    refine ⟨?_, ?_⟩
    · -- the resume writes of this connection
      intro w hw p h hk
      rcases negotiate_cases cfg s sc with ⟨hno, _⟩ | ⟨sec, f3, pre, hno, heq⟩
      · have := (hno w hw).2; rw [hk] at this; simp [isResume] at this
      · rw [heq] at hw
        simp only [List.mem_append] at hw
        rcases hw with hw | hw
        · have := (hno w hw).2; rw [hk] at this; simp [isResume] at this
        · have hf := C11_resume_fields (sfix s) sec f3 sc
          have hmem : w ∈ (afterAuth (sfix s) sec f3 sc).writes.filter (fun w => isResume w.kind) := by
            simp [List.mem_filter, hw, hk, isResume]
          rw [hf] at hmem
          have hid := sfix_smId s
          cases ht : tries (sfix s) f3 with
          | false => simp [ht] at hmem
          | true =>
            simp only [ht, if_true, List.mem_singleton] at hmem
            rw [hmem] at hk
            simp only [WKind.resume.injEq] at hk
            refine ⟨by rw [← hk.1, hid], ?_⟩
            unfold tries at ht
            simp only [Bool.and_eq_true, bne_iff_ne, ne_eq] at ht
            rw [← hid]; exact ht.2
    · have := ih (negotiate cfg s sc).sess
      rw [C11_held_is_ghost cfg s sc] at this
      exact this

-- non-vacuity
example : (afterAuth ⟨true, "sm-A", 5, "j", true⟩ true ⟨false, true, true, false⟩
    { conn := .ok, feat1 := none, tlsReply := .proceed, tlsOk := true, open2 := true, feat2 := none, authReply := .success,
      open3 := true, feat3 := none, resumeReply := .failed, bindReply := .resultBind, sessReply := .result,
      enableReply := .enabled true, newSmId := "sm-B", bindJid := "j2" }).writes
    = [⟨.resume "sm-A" 5, true⟩, ⟨.bind, true⟩, ⟨.enable, true⟩] := by decide

end XmppVerif.Props.C11

#print axioms XmppVerif.Props.C11.C11_resume_fields
#print axioms XmppVerif.Props.C11.C11_resumed_keeps
#print axioms XmppVerif.Props.C11.C11_refused_then_bind
#print axioms XmppVerif.Props.C11.C11_mismatch_fails_and_clears
#print axioms XmppVerif.Props.C11.C11_never_without_id
#print axioms XmppVerif.Props.C11.afterAuth_ghost
#print axioms XmppVerif.Props.C11.negotiate_cases
#print axioms XmppVerif.Props.C11.C11_held_is_ghost
#print axioms XmppVerif.Props.C11.C11_stale_never_again
