import XmppVerif.Proofs.C01Command
/-
C01: stanza.Command (XEP-0050) - hand-written UnmarshalXML (attribute loop, name dispatch with a Node default arm)
modelled by hand over the schema codec and the Node codec. Class (`CommandV.wf`, decidable): attribute strings legal;
no error flag and no ResultSet (they are read back as Nodes: F-01m); elements that are Actions or Form values with a
fitting value (Note.Text is `,cdata`: F-01f) or Nodes of the exact class under the commands namespace whose root is not
named actions / note / x.
-/
namespace XmppVerif.Props.C01S
open XmppVerif.Model.C01 hiding Schema Field FKind FVal FlatVal schemas fld conforms fvalOk encField decField decFields
open XmppVerif.Model.C01S XmppVerif.Spec.C01 XmppVerif.Proofs.C01 XmppVerif.Proofs.C01S

theorem C01_roundtrip_Command (ctx : Str) (v : CommandV) (rest : List Tok) (hv : v.wf = true) :
    unmarshalWith decCommand (marshalX ctx encCommand v ++ rest) = some (v, rest) := by
  have h := command_rt ctx v hv
  rw [encCommand, viewS_elem] at h
  simp only [unmarshalWith, marshalX, encCommand, viewS_elem, parse_toks, h, Option.map]

theorem C01_reserialise_Command (ctx : Str) (v : CommandV) (hv : v.wf = true) :
    (unmarshalWith decCommand (marshalX ctx encCommand v)).map (fun r => render (encCommand r.1)) =
      some (render (encCommand v)) := by
  have := C01_roundtrip_Command ctx v [] hv
  rw [List.append_nil] at this; rw [this]; rfl

-- non-vacuity: an executing command with its actions and a generic payload; the recorded regions are outside
example : (CommandV.mk ⟨"execute".toList, "list<1>".toList, "s&1".toList, [], "en".toList⟩
    [.ext ⟨"Actions", .struct noName [.nil, .ref (.struct noName []), .nil, .str "next".toList]⟩,
     .node (.mk ⟨"urn:x".toList, "payload".toList⟩ [] "a<b".toList [])]
    [false, false, false, false, false, false] .nil).wf = true := by decide
example : (CommandV.mk ⟨[], "n".toList, [], [], []⟩ [] [true, false, false, false, false, false] .nil).wf = false := by
  decide

end XmppVerif.Props.C01S

#print axioms XmppVerif.Props.C01S.C01_roundtrip_Command
#print axioms XmppVerif.Props.C01S.C01_reserialise_Command
