import XmppVerif.Model.C07
/-
C07 - IQ responses reach the SendIQ caller exactly once; duplicates and races are harmless.
Inductive invariant over ALL interleavings of the sync-op model.
-/
namespace XmppVerif.Props.C07
open XmppVerif.Model.C07

structure Inv (p : Params) (s : St) : Prop where
  safe     : s.panic = false ∧ s.blocked = false
  tab      : ∀ id k, s.table id = some k → s.loc k = .inTable ∧ p.reqId k = id
  intab    : ∀ k, s.loc k = .inTable → s.table (p.reqId k) = some k
  holder   : ∀ j k, (s.pc j = .have k ∨ s.pc j = .sent k) → s.loc k = .held j
  held     : ∀ k j, s.loc k = .held j → (s.pc j = .have k ∨ s.pc j = .sent k)
  haveSt   : ∀ j k, s.pc j = .have k → s.sent k = 0 ∧ s.closed k = false
  sentSt   : ∀ j k, s.pc j = .sent k → s.sent k = 1 ∧ s.closed k = false
  idle     : ∀ k, (s.loc k = .inTable ∨ s.loc k = .unreg ∨ s.loc k = .dropped) → s.sent k = 0 ∧ s.closed k = false
  consumed : ∀ k, s.loc k = .consumed → s.sent k = 1 ∧ s.closed k = true
  own      : ∀ j k, (s.pc j = .have k ∨ s.pc j = .sent k) → p.reqId k = p.pktId j ∧ p.isResp j = true

theorem inv_init (p : Params) : Inv p init := by
  constructor <;> simp [init]

theorem inv_step (p : Params) (s : St) (x : Step) (h : Inv p s) : Inv p (step p s x) := by
  obtain ⟨h0, h1, h2, h3, h4, h5, h6, h7, h8, h9⟩ := h
  cases x with
  | register k =>
    simp only [step]
    by_cases hl : s.loc k = .unreg
    · simp only [hl, ne_eq, not_true_eq_false, if_false]
      cases ht : s.table (p.reqId k) with
      | none => constructor <;> grind [upd]
      | some k' =>
        obtain ⟨hl', hid'⟩ := h1 _ _ ht
        constructor <;> grind [upd]
    · simp only [ne_eq, hl, not_false_eq_true, if_true]
      exact ⟨h0, h1, h2, h3, h4, h5, h6, h7, h8, h9⟩
  | take j =>
    simp only [step]
    by_cases hpc : s.pc j = .start
    · simp only [hpc, ne_eq, not_true_eq_false, if_false]
      cases hr : p.isResp j with
      | false =>
        simp only [Bool.false_eq_true, if_false]
        constructor <;> grind [upd]
      | true =>
        simp only [if_true]
        cases ht : s.table (p.pktId j) with
        | none => constructor <;> grind [upd]
        | some k =>
          obtain ⟨hl, hid⟩ := h1 _ _ ht
          constructor <;> grind [upd]
    · simp only [ne_eq, hpc, not_false_eq_true, if_true]
      exact ⟨h0, h1, h2, h3, h4, h5, h6, h7, h8, h9⟩
  | send j =>
    simp only [step]
    cases hpc : s.pc j with
    | «have» k =>
      obtain ⟨hs, hc⟩ := h5 j k hpc
      simp only [hc, hs, Bool.false_eq_true, if_false, ge_iff_le, Nat.not_succ_le_zero]
      constructor <;> grind [upd]
    | start => exact ⟨h0, h1, h2, h3, h4, h5, h6, h7, h8, h9⟩
    | sent k => exact ⟨h0, h1, h2, h3, h4, h5, h6, h7, h8, h9⟩
    | ordinary => exact ⟨h0, h1, h2, h3, h4, h5, h6, h7, h8, h9⟩
    | done => exact ⟨h0, h1, h2, h3, h4, h5, h6, h7, h8, h9⟩
  | close j =>
    simp only [step]
    cases hpc : s.pc j with
    | sent k =>
      obtain ⟨hs, hc⟩ := h6 j k hpc
      simp only [hc, Bool.false_eq_true, if_false]
      constructor <;> grind [upd]
    | start => exact ⟨h0, h1, h2, h3, h4, h5, h6, h7, h8, h9⟩
    | «have» k => exact ⟨h0, h1, h2, h3, h4, h5, h6, h7, h8, h9⟩
    | ordinary => exact ⟨h0, h1, h2, h3, h4, h5, h6, h7, h8, h9⟩
    | done => exact ⟨h0, h1, h2, h3, h4, h5, h6, h7, h8, h9⟩
  | cancel k =>
    simp only [step]
    by_cases ht : s.table (p.reqId k) = some k
    · simp only [ht, if_true]
      constructor <;> grind [upd]
    · simp only [ht, if_false]
      exact ⟨h0, h1, h2, h3, h4, h5, h6, h7, h8, h9⟩

/-- **Every interleaving preserves the invariant** - any list of atomic steps by any number of requests and routing
threads, with any assignment of ids (clashing ids included). -/
theorem C07_inv_all (p : Params) (xs : List Step) : ∀ s, Inv p s → Inv p (run p s xs) := by
  induction xs with
  | nil => intro s h; exact h
  | cons x xs ih => intro s h; exact ih _ (inv_step p s x h)

theorem C07_reachable (p : Params) (xs : List Step) : Inv p (run p init xs) :=
  C07_inv_all p xs init (inv_init p)

/-- **Never crashes, never blocks**: no interleaving sends on a closed channel, closes twice, or finds the 1-slot
channel full (so the routing goroutine - for a component: the receive loop - never waits for the caller). -/
theorem C07_no_panic_no_block (p : Params) (xs : List Step) :
    (run p init xs).panic = false ∧ (run p init xs).blocked = false :=
  (C07_reachable p xs).safe

/-- **At most one delivery per request**, however many duplicate responses are routed concurrently. -/
theorem C07_at_most_one_delivery (p : Params) (xs : List Step) (k : Nat) : (run p init xs).sent k ≤ 1 := by
  have h := C07_reachable p xs
  cases hl : (run p init xs).loc k with
  | unreg => have := (h.idle k (by simp [hl])).1; omega
  | inTable => have := (h.idle k (by simp [hl])).1; omega
  | dropped => have := (h.idle k (by simp [hl])).1; omega
  | consumed => have := (h.consumed k hl).1; omega
  | held j =>
    rcases h.held k j hl with hp | hp
    · have := (h.haveSt j k hp).1; omega
    · have := (h.sentSt j k hp).1; omega

/-- **Never to another request**: a routing thread only ever holds (and sends into) the channel of a request
registered under exactly the id its packet carries, and only for result / error IQs. -/
theorem C07_no_foreign_delivery (p : Params) (xs : List Step) (j k : Nat)
    (h : (run p init xs).pc j = .have k ∨ (run p init xs).pc j = .sent k) :
    p.reqId k = p.pktId j ∧ p.isResp j = true :=
  (C07_reachable p xs).own j k h

/-- **Closed and unregistered after the delivery**: a closed channel has received exactly one value and its
pending entry is gone. -/
theorem C07_channel_closed_and_entry_removed (p : Params) (xs : List Step) (k : Nat)
    (hc : (run p init xs).closed k = true) :
    (run p init xs).sent k = 1 ∧ (run p init xs).table (p.reqId k) ≠ some k := by
  have h := C07_reachable p xs
  have hl : (run p init xs).loc k = .consumed := by
    cases hl : (run p init xs).loc k with
    | consumed => rfl
    | unreg => have := (h.idle k (by simp [hl])).2; simp [this] at hc
    | inTable => have := (h.idle k (by simp [hl])).2; simp [this] at hc
    | dropped => have := (h.idle k (by simp [hl])).2; simp [this] at hc
    | held j =>
      rcases h.held k j hl with hp | hp
      · have := (h.haveSt j k hp).2; simp [this] at hc
      · have := (h.sentSt j k hp).2; simp [this] at hc
  refine ⟨(h.consumed k hl).1, ?_⟩
  intro ht
  have := (h.tab _ _ ht).1
  rw [hl] at this; exact absurd this (by simp)

/-- **Delivery when registered**: from any reachable state in which request k is still pending, a response carrying
its id that is routed next is delivered and the channel is closed - in particular a response that arrives
immediately after the request was written, because the route is registered BEFORE the write (Tie.C07). -/
theorem C07_delivery_when_registered (p : Params) (xs : List Step) (j k : Nat)
    (hreg : (run p init xs).loc k = .inTable) (hj : (run p init xs).pc j = .start)
    (hid : p.pktId j = p.reqId k) (hr : p.isResp j = true) :
    let s' := run p (run p init xs) [.take j, .send j, .close j]
    s'.sent k = 1 ∧ s'.closed k = true ∧ s'.pc j = .done ∧ s'.table (p.reqId k) = none := by
  have h := C07_reachable p xs
  have ht := h.intab k hreg
  have hidle := h.idle k (Or.inl hreg)
  simp only [run, step, hj, hr, hid, ht, ne_eq, not_true_eq_false, if_false, if_true]
  simp [upd, hidle.1, hidle.2]

/-- **Unmatched packets go to the ordinary routes**: a response whose id is not pending (duplicate, late, foreign,
or its request was cancelled) and every IQ that is not a result / error is routed like any other packet. -/
theorem C07_unmatched_goes_to_routes (p : Params) (s : St) (j : Nat) (hj : s.pc j = .start)
    (h : p.isResp j = false ∨ s.table (p.pktId j) = none) :
    (step p s (.take j)).pc j = .ordinary ∧ (step p s (.take j)).table = s.table := by
  rcases h with h | h
  · simp [step, hj, h, upd]
  · cases hr : p.isResp j <;> simp [step, hj, h, hr, upd]

/-- a cancelled request is unregistered; a later response finds nothing -/
theorem C07_cancel_unregisters (p : Params) (s : St) (k : Nat) (h : s.table (p.reqId k) = some k) :
    (step p s (.cancel k)).table (p.reqId k) = none := by
  simp [step, h, upd]

/-- **The clean-up of a finished request removes only its own entry**: when the id has meanwhile been re-used by a
newer pending request k' (or the entry is gone), cancelling the older request's context changes nothing - the newer
request stays registered and will get its response (`C07_delivery_when_registered`). -/
theorem C07_cleanup_only_own (p : Params) (s : St) (k : Nat) (h : s.table (p.reqId k) ≠ some k) :
    step p s (.cancel k) = s := by
  simp [step, h]

-- id re-used: request 0 answered, request 1 re-uses the id, context of 0 cancelled, response arrives: 1 gets it
example : let p : Params := ⟨fun _ => 7, fun _ => 7, fun _ => true⟩
    let s := run p init [.register 0, .take 0, .send 0, .close 0, .register 1, .cancel 0, .take 1, .send 1, .close 1]
    s.sent 0 = 1 ∧ s.sent 1 = 1 ∧ s.closed 1 = true ∧ s.panic = false := by decide

-- non-vacuity: two responses for one request, interleaved; one is delivered, the other routed normally
example : let p : Params := ⟨fun _ => 7, fun _ => 7, fun _ => true⟩
    let s := run p init [.register 0, .take 0, .take 1, .send 0, .close 0]
    s.sent 0 = 1 ∧ s.closed 0 = true ∧ s.pc 1 = .ordinary ∧ s.panic = false := by decide

end XmppVerif.Props.C07

#print axioms XmppVerif.Props.C07.inv_init
#print axioms XmppVerif.Props.C07.inv_step
#print axioms XmppVerif.Props.C07.C07_inv_all
#print axioms XmppVerif.Props.C07.C07_no_panic_no_block
#print axioms XmppVerif.Props.C07.C07_at_most_one_delivery
#print axioms XmppVerif.Props.C07.C07_no_foreign_delivery
#print axioms XmppVerif.Props.C07.C07_channel_closed_and_entry_removed
#print axioms XmppVerif.Props.C07.C07_delivery_when_registered
#print axioms XmppVerif.Props.C07.C07_unmatched_goes_to_routes
#print axioms XmppVerif.Props.C07.C07_cancel_unregisters
#print axioms XmppVerif.Props.C07.C07_cleanup_only_own
