import XmppVerif.Spec.C15
/-
C15 - JID parsing and formatting are consistent and reject malformed addresses.
-/
namespace XmppVerif.Props.C15
open XmppVerif.Model.C15 XmppVerif.Spec.C15

/-! ### splitFirst -/

private theorem splitFirst_none (c : Char) : ∀ a : List Char, c ∉ a → splitFirst c a = (a, none) := by
  intro a
  induction a with
  | nil => intro _; rfl
  | cons x xs ih =>
    intro h
    have hx : x ≠ c := fun e => h (by simp [e])
    have hxs : c ∉ xs := fun m => h (List.mem_cons_of_mem _ m)
    simp [splitFirst, hx, ih hxs]

private theorem splitFirst_some (c : Char) (b : List Char) : ∀ a : List Char, c ∉ a →
    splitFirst c (a ++ c :: b) = (a, some b) := by
  intro a
  induction a with
  | nil => intro _; simp [splitFirst]
  | cons x xs ih =>
    intro h
    have hx : x ≠ c := fun e => h (by simp [e])
    have hxs : c ∉ xs := fun m => h (List.mem_cons_of_mem _ m)
    simp [splitFirst, hx, ih hxs]

/-- splitting on `c` skips a prefix free of `c` -/
private theorem splitFirst_skip (c : Char) (t : List Char) : ∀ a : List Char, c ∉ a →
    splitFirst c (a ++ t) = (a ++ (splitFirst c t).1, (splitFirst c t).2) := by
  intro a
  induction a with
  | nil => intro _; simp
  | cons x xs ih =>
    intro h
    have hx : x ≠ c := fun e => h (by simp [e])
    have hxs : c ∉ xs := fun m => h (List.mem_cons_of_mem _ m)
    simp [splitFirst, hx, ih hxs]

private theorem splitFirst_inv (c : Char) : ∀ s : List Char,
    c ∉ (splitFirst c s).1 ∧
    (match (splitFirst c s).2 with
     | none => s = (splitFirst c s).1
     | some b => s = (splitFirst c s).1 ++ c :: b) := by
  intro s
  induction s with
  | nil => simp [splitFirst]
  | cons x xs ih =>
    by_cases hx : x = c
    · subst hx; simp [splitFirst]
    · simp only [splitFirst, hx, if_false]
      obtain ⟨h1, h2⟩ := ih
      refine ⟨by simp [h1]; exact fun e => hx e.symm, ?_⟩
      cases hb : (splitFirst c xs).2 with
      | none => simp only [hb] at h2 ⊢; rw [← h2]
      | some b => simp only [hb] at h2 ⊢; rw [List.cons_append, ← h2]

/-! ### validity -/

private theorem valid_not_mem {bad u : List Char} {c : Char} (hc : c ∈ bad)
    (h : (u.all fun x => !invalidIn bad x) = true) : c ∉ u := by
  intro hm
  have := List.all_eq_true.mp h c hm
  simp [invalidIn, hc] at this

private theorem user_no_at {u : List Char} (h : isUsernameValid u = true) : '@' ∉ u :=
  valid_not_mem (by simp [userForbidden]) h
private theorem user_no_slash {u : List Char} (h : isUsernameValid u = true) : '/' ∉ u :=
  valid_not_mem (by simp [userForbidden]) h
private theorem dom_parts {d : List Char} (h : isDomainValid d = true) :
    d ≠ [] ∧ '@' ∉ d ∧ '/' ∉ d := by
  unfold isDomainValid at h
  simp only [Bool.and_eq_true, Bool.not_eq_true', List.isEmpty_eq_false_iff] at h
  exact ⟨h.1, valid_not_mem (by simp [domainForbidden]) h.2, valid_not_mem (by simp [domainForbidden]) h.2⟩

private def slash (r : List Char) : List Char := if r = [] then [] else '/' :: r

private theorem split_slash (d r : List Char) (hd : '/' ∉ d) :
    (splitFirst '/' (d ++ slash r)).1 = d ∧ ((splitFirst '/' (d ++ slash r)).2.getD []) = r := by
  unfold slash
  by_cases hr : r = []
  · subst hr; simp [splitFirst_none '/' d hd]
  · simp [hr, splitFirst_some '/' r d hd]

/-! ### property theorems -/

/-- **Parsing yields exactly the three parts**: for a valid (possibly empty) local part, a valid non-empty domain
and ANY resource (it may contain '/' and '@'), outside the excluded region (`l ≠ [] ∨ '@' ∉ r`). -/
theorem C15_parse_parts (l d r : List Char) (hl : isUsernameValid l = true) (hd : isDomainValid d = true)
    (hx : l ≠ [] ∨ '@' ∉ r) : newJid (render l d r) = some ⟨l, d, r⟩ := by
  obtain ⟨hdne, hdat, hdsl⟩ := dom_parts hd
  have hs := split_slash d r hdsl
  have hfin : ∀ n, isUsernameValid n = true → finish n (d ++ slash r) = some ⟨n, d, r⟩ := by
    intro n hn; unfold finish; simp [hs.1, hs.2, hd, hn]
  have hrend : render l d r = (if l = [] then d else l ++ '@' :: d) ++ slash r := rfl
  by_cases hle : l = []
  · subst hle
    have hr : '@' ∉ r := by cases hx with | inl h => exact absurd rfl h | inr h => exact h
    have hno : '@' ∉ d ++ slash r := by
      unfold slash; split <;> simp [hdat, hr]
    have hne : d ++ slash r ≠ [] := by simp [hdne]
    rw [hrend]; simp only [if_true]
    unfold newJid
    rw [if_neg hne, splitFirst_none '@' _ hno]
    exact hfin [] hl
  · have hlat := user_no_at hl
    have hne : l ++ '@' :: d ++ slash r ≠ [] := by simp
    have hsp : splitFirst '@' (l ++ '@' :: d ++ slash r) = (l, some (d ++ slash r)) := by
      rw [List.append_assoc, List.cons_append]; exact splitFirst_some '@' _ l hlat
    have hrest : d ++ slash r ≠ [] := by simp [hdne]
    rw [hrend]; simp only [if_neg hle]
    unfold newJid
    rw [if_neg hne, hsp]
    simp only [afterAt, if_neg hle, if_neg hrest]
    exact hfin l hl

private theorem finish_inv (n d0 : List Char) (j : Jid) (h : finish n d0 = some j) :
    j.node = n ∧ j.domain = (splitFirst '/' d0).1 ∧ j.resource = (splitFirst '/' d0).2.getD [] ∧
    isUsernameValid n = true ∧ isDomainValid (splitFirst '/' d0).1 = true := by
  unfold finish at h
  by_cases hu : isUsernameValid n = true
  · by_cases hv : isDomainValid (splitFirst '/' d0).1 = true
    · simp [hu, hv] at h; subst h; exact ⟨rfl, rfl, rfl, hu, hv⟩
    · simp [hu, hv] at h
  · simp [hu] at h

/-- the resource cut off `d0` contains only characters of `d0` -/
private theorem res_subset (c : Char) (d0 : List Char) (hc : c ∉ d0) : c ∉ (splitFirst '/' d0).2.getD [] := by
  have inv2 := splitFirst_inv '/' d0
  intro hm
  apply hc
  cases hr : (splitFirst '/' d0).2 with
  | none => simp [hr] at hm
  | some b =>
    simp only [hr] at inv2 hm
    rw [inv2.2]; simp only [Option.getD_some] at hm; simp [hm]

/-- What a successful parse guarantees about its result. -/
theorem C15_ok_inv (s : List Char) (j : Jid) (h : newJid s = some j) :
    isUsernameValid j.node = true ∧ isDomainValid j.domain = true ∧ (j.node ≠ [] ∨ '@' ∉ j.resource) := by
  unfold newJid at h
  by_cases hs : s = []
  · simp [hs] at h
  · rw [if_neg hs] at h
    have inv := splitFirst_inv '@' s
    cases hb : (splitFirst '@' s).2 with
    | none =>
      rw [hb] at h
      simp only [afterAt] at h
      obtain ⟨e1, e2, e3, hu, hv⟩ := finish_inv _ _ _ h
      refine ⟨by rw [e1]; exact hu, by rw [e2]; exact hv, Or.inr ?_⟩
      rw [e3]; exact res_subset '@' _ inv.1
    | some rest =>
      rw [hb] at h
      simp only [afterAt] at h
      by_cases h1 : (splitFirst '@' s).1 = []
      · simp [h1] at h
      · by_cases h2 : rest = []
        · simp [h1, h2] at h
        · simp only [if_neg h1, if_neg h2] at h
          obtain ⟨e1, e2, _, hu, hv⟩ := finish_inv _ _ _ h
          exact ⟨by rw [e1]; exact hu, by rw [e2]; exact hv, Or.inl (by rw [e1]; exact h1)⟩

private theorem full_eq_render (j : Jid) : full j = render j.node j.domain j.resource := by
  unfold full bare render
  by_cases hr : j.resource = [] <;> by_cases hn : j.node = [] <;> simp [hr, hn]

private theorem bare_eq_render (j : Jid) : bare j = render j.node j.domain [] := by
  unfold bare render
  by_cases hn : j.node = [] <;> simp [hn]

/-- **Full() round trip**, including a domain JID that has a resource. -/
theorem C15_full_rt (s : List Char) (j : Jid) (h : newJid s = some j) : newJid (full j) = some j := by
  obtain ⟨h1, h2, h3⟩ := C15_ok_inv s j h
  rw [full_eq_render]; exact C15_parse_parts _ _ _ h1 h2 h3

/-- **Bare() round trip**: the same JID without its resource. -/
theorem C15_bare_rt (s : List Char) (j : Jid) (h : newJid s = some j) :
    newJid (bare j) = some { j with resource := [] } := by
  obtain ⟨h1, h2, _⟩ := C15_ok_inv s j h
  rw [bare_eq_render]; exact C15_parse_parts _ _ _ h1 h2 (Or.inr (by simp))

/-- Rejections. -/
theorem C15_rejects_empty : newJid [] = none := rfl

theorem C15_rejects_empty_local (t : List Char) : newJid ('@' :: t) = none := by
  simp [newJid, splitFirst, afterAt]

theorem C15_rejects_empty_domain (l r : List Char) (hl : '@' ∉ l) :
    newJid (l ++ '@' :: slash r) = none := by
  unfold newJid
  have hne : l ++ '@' :: slash r ≠ [] := by simp
  rw [if_neg hne, splitFirst_some '@' _ l hl]
  simp only [afterAt]
  by_cases hle : l = []
  · simp [hle]
  · unfold slash
    by_cases hr : r = []
    · simp [hle, hr]
    · simp [hle, hr, finish, splitFirst, isDomainValid]

theorem C15_rejects_bad_local (l rest : List Char) (hl : '@' ∉ l) (hbad : isUsernameValid l = false) :
    newJid (l ++ '@' :: rest) = none := by
  unfold newJid
  have hne : l ++ '@' :: rest ≠ [] := by simp
  rw [if_neg hne, splitFirst_some '@' _ l hl]
  simp only [afterAt]
  by_cases hle : l = []
  · simp [hle]
  · by_cases hr : rest = []
    · simp [hle, hr]
    · simp [hle, hr, finish, hbad]

theorem C15_rejects_bad_domain (l d r : List Char) (hl : '@' ∉ l) (hd : '/' ∉ d)
    (hbad : isDomainValid d = false) : newJid (l ++ '@' :: (d ++ slash r)) = none := by
  unfold newJid
  have hne : l ++ '@' :: (d ++ slash r) ≠ [] := by simp
  rw [if_neg hne, splitFirst_some '@' _ l hl]
  have hs := split_slash d r hd
  simp only [afterAt]
  by_cases hl0 : l = []
  · simp [hl0]
  · by_cases hr : d ++ slash r = []
    · simp [hl0, hr]
    · simp only [if_neg hl0, if_neg hr, finish, hs.1, hbad]
      simp

theorem C15_rejects_bad_domain_nolocal (d r : List Char) (hd : '/' ∉ d) (hd2 : '@' ∉ d) (hr : '@' ∉ r)
    (hbad : isDomainValid d = false) : newJid (d ++ slash r) = none := by
  unfold newJid
  by_cases hne : d ++ slash r = []
  · simp [hne]
  · have hno : '@' ∉ d ++ slash r := by unfold slash; split <;> simp [hd2, hr]
    have hs := split_slash d r hd
    rw [if_neg hne, splitFirst_none '@' _ hno]
    simp only [afterAt, finish, hs.1, hbad]
    simp

/-- **The library's '@'-first parser equals the RFC-order reference parser** on every string outside the excluded
region (a '/' before the first '@'): same acceptance, same three parts. -/
theorem C15_agrees_ref (s : List Char) (h : excluded s = false) : newJid s = refParse s := by
  unfold newJid refParse
  by_cases hs : s = []
  · simp [hs]
  · rw [if_neg hs, if_neg hs]
    have inv := splitFirst_inv '@' s
    cases hb : (splitFirst '@' s).2 with
    | none =>
      simp only [hb] at inv
      -- no '@' anywhere
      have hno : '@' ∉ s := by rw [inv.2]; exact inv.1
      have hs1 : (splitFirst '@' s).1 = s := inv.2.symm
      have inv2 := splitFirst_inv '/' s
      have hhead : '@' ∉ (splitFirst '/' s).1 := by
        intro hm; apply hno
        cases hr : (splitFirst '/' s).2 with
        | none => simp only [hr] at inv2; rw [inv2.2]; exact hm
        | some b => simp only [hr] at inv2; rw [inv2.2]; simp [hm]
      simp only [afterAt, finish, hs1, splitFirst_none '@' _ hhead]
      by_cases hv : isDomainValid (splitFirst '/' s).1 = true
      · simp [hv, isUsernameValid]
      · simp [hv, isUsernameValid]
    | some rest =>
      simp only [hb] at inv
      obtain ⟨hat, hsplit⟩ := inv
      -- not excluded: no '/' before the first '@'
      have hsl : '/' ∉ (splitFirst '@' s).1 := by
        unfold excluded at h
        simp only [hb, Option.isSome_some, Bool.true_and] at h
        intro hm; simp [hm] at h
      -- cutting the resource first gives head = local ++ '@' :: domain
      have hcut : splitFirst '/' s =
          ((splitFirst '@' s).1 ++ '@' :: (splitFirst '/' rest).1, (splitFirst '/' rest).2) := by
        conv => lhs; rw [hsplit]
        rw [splitFirst_skip '/' _ _ hsl]
        simp [splitFirst]
      have hhead : splitFirst '@' ((splitFirst '@' s).1 ++ '@' :: (splitFirst '/' rest).1) =
          ((splitFirst '@' s).1, some (splitFirst '/' rest).1) := splitFirst_some '@' _ _ hat
      rw [hcut]; simp only [hhead, afterAt]
      by_cases h1 : (splitFirst '@' s).1 = []
      · simp [h1]
      · by_cases h2 : rest = []
        · subst h2; simp [h1, splitFirst, isDomainValid]
        · simp only [if_neg h1, if_neg h2, finish]
          by_cases hu : isUsernameValid (splitFirst '@' s).1 = true <;>
            by_cases hv : isDomainValid (splitFirst '/' rest).1 = true <;> simp [hu, hv]

/-- The oracle accepts the model on every non-excluded string (and trivially on excluded ones). -/
theorem C15_oracle_accepts_model (s : List Char) :
    holds s (match newJid s with
             | none => .err
             | some j => .ok j (full j) (bare j) (newJid (full j)) (newJid (bare j))) = true := by
  unfold holds
  by_cases he : excluded s = true
  · simp [he]
  · have he' : excluded s = false := by simpa using he
    rw [if_neg he, ← C15_agrees_ref s he']
    cases hj : newJid s with
    | none => rfl
    | some j => simp [C15_full_rt s j hj, C15_bare_rt s j hj]

-- non-vacuity / concrete shapes, incl. the fixed defect F-15 (domain JID with a resource)
example : newJid "example.com/res".toList = some ⟨[], "example.com".toList, "res".toList⟩ := by decide
example : full ⟨[], "example.com".toList, "res".toList⟩ = "example.com/res".toList := by decide
example : newJid "a@b/c/d@e".toList = some ⟨"a".toList, "b".toList, "c/d@e".toList⟩ := by decide
example : newJid "a b@c".toList = none := by decide
example : excluded "d/r@x".toList = true ∧ excluded "a@b/c@d".toList = false := by decide

end XmppVerif.Props.C15

#print axioms XmppVerif.Props.C15.C15_parse_parts
#print axioms XmppVerif.Props.C15.C15_ok_inv
#print axioms XmppVerif.Props.C15.C15_full_rt
#print axioms XmppVerif.Props.C15.C15_bare_rt
#print axioms XmppVerif.Props.C15.C15_rejects_empty
#print axioms XmppVerif.Props.C15.C15_rejects_empty_local
#print axioms XmppVerif.Props.C15.C15_rejects_empty_domain
#print axioms XmppVerif.Props.C15.C15_rejects_bad_local
#print axioms XmppVerif.Props.C15.C15_rejects_bad_domain
#print axioms XmppVerif.Props.C15.C15_rejects_bad_domain_nolocal
#print axioms XmppVerif.Props.C15.C15_agrees_ref
#print axioms XmppVerif.Props.C15.C15_oracle_accepts_model
