import XmppVerif.Spec.C14
/-
C14 - SASL: only an advertised, supported mechanism is used; the PLAIN payload is exact.
-/
namespace XmppVerif.Props.C14
open XmppVerif.Model.C14 XmppVerif.Spec.C14

-- ---------------------------------------------------------------------------------------------
-- the alphabet table (complete case analysis over the 64 entries)

private theorem dec_enc_fin : ∀ i : Fin 64, decChar (encChar i.val) = some i.val := by decide +kernel
private theorem enc_ne_pad_fin : ∀ i : Fin 64, encChar i.val ≠ '=' := by decide +kernel

/-- induction over 3-byte groups -/
private theorem ind3 {P : List UInt8 → Prop} (h0 : P []) (h1 : ∀ a, P [a]) (h2 : ∀ a b, P [a, b])
    (h3 : ∀ a b c r, P r → P (a :: b :: c :: r)) : ∀ l, P l
  | [] => h0
  | [a] => h1 a
  | [a, b] => h2 a b
  | a :: b :: c :: r => h3 a b c r (ind3 h0 h1 h2 h3 r)

private theorem dec_enc {n : Nat} (h : n < 64) : decChar (encChar n) = some n := dec_enc_fin ⟨n, h⟩
private theorem enc_ne_pad {n : Nat} (h : n < 64) : encChar n ≠ '=' := enc_ne_pad_fin ⟨n, h⟩
private theorem enc_mem {n : Nat} (h : n < 64) : encChar n ∈ alphabet := by
  have hl : n < alphabet.length := by
    have : alphabet.length = 64 := by decide
    omega
  unfold encChar
  rw [List.getD_eq_getElem?_getD, List.getElem?_eq_getElem hl]
  exact List.getElem_mem hl

-- ---------------------------------------------------------------------------------------------
-- the 3-byte group: sextets are < 64 and decode back

private theorem s1_lt {a : Nat} (ha : a < 256) : a / 4 < 64 := by omega
private theorem s2_lt {a b : Nat} (hb : b < 256) : (a % 4) * 16 + b / 16 < 64 := by omega
private theorem s3_lt {b c : Nat} (hc : c < 256) : (b % 16) * 4 + c / 64 < 64 := by omega
private theorem s4_lt {c : Nat} : c % 64 < 64 := by omega

private theorem g2 {a b : Nat} (hb : b < 256) : dec2 (a / 4) ((a % 4) * 16 + b / 16) = a := by
  unfold dec2; omega
private theorem g3 {a b c : Nat} (hb : b < 256) (hc : c < 256) :
    dec3 ((a % 4) * 16 + b / 16) ((b % 16) * 4 + c / 64) = b := by
  unfold dec3; omega
private theorem g4 {b c : Nat} (hc : c < 256) : dec4 ((b % 16) * 4 + c / 64) (c % 64) = c := by
  unfold dec4; omega

private theorem lt256 (a : UInt8) : a.toNat < 256 := UInt8.toNat_lt a

private theorem rt1 (a : UInt8) : b64dec (b64enc [a]) = some [a] := by
  have ha := lt256 a
  simp only [b64enc, enc3, b64dec, List.isEmpty_nil, if_true, dec_enc (s1_lt ha),
    dec_enc (s2_lt (a := a.toNat) (b := 0) (by omega)), Option.bind_eq_bind, Option.bind_some, Option.pure_def,
    g2 (a := a.toNat) (b := 0) (by omega), UInt8.ofNat_toNat]

private theorem rt2 (a b : UInt8) : b64dec (b64enc [a, b]) = some [a, b] := by
  have ha := lt256 a
  have hb := lt256 b
  have hne := enc_ne_pad (s3_lt (b := b.toNat) (c := 0) (by omega))
  simp only [b64enc, enc3, b64dec, List.isEmpty_nil, if_true, if_neg hne, dec_enc (s1_lt ha),
    dec_enc (s2_lt (a := a.toNat) hb), dec_enc (s3_lt (b := b.toNat) (c := 0) (by omega)),
    Option.bind_eq_bind, Option.bind_some, Option.pure_def,
    g2 (a := a.toNat) hb, g3 (a := a.toNat) (c := 0) hb (by omega), UInt8.ofNat_toNat]

private theorem rt3 (a b c : UInt8) (rest : List UInt8) (ih : b64dec (b64enc rest) = some rest) :
    b64dec (b64enc (a :: b :: c :: rest)) = some (a :: b :: c :: rest) := by
  have ha := lt256 a
  have hb := lt256 b
  have hc := lt256 c
  have hne := enc_ne_pad (s4_lt (c := c.toNat))
  simp only [b64enc, enc3, b64dec, if_neg hne, dec_enc (s1_lt ha),
    dec_enc (s2_lt (a := a.toNat) hb), dec_enc (s3_lt (b := b.toNat) hc), dec_enc (s4_lt (c := c.toNat)), ih,
    Option.bind_eq_bind, Option.bind_some, Option.pure_def,
    g2 (a := a.toNat) hb, g3 (a := a.toNat) hb hc, g4 (b := b.toNat) hc, UInt8.ofNat_toNat]

/-- **base64 round trip**: decoding the encoding of ANY byte string returns that byte string. -/
theorem C14_b64_rt (bs : List UInt8) : b64dec (b64enc bs) = some bs := by
  induction bs using ind3 with
  | h0 => rfl
  | h1 a => exact rt1 a
  | h2 a b => exact rt2 a b
  | h3 a b c rest ih => exact rt3 a b c rest ih

/-- hence the encoding is injective: two different byte strings never share a payload -/
theorem C14_b64_inj (x y : List UInt8) (h : b64enc x = b64enc y) : x = y := by
  have := C14_b64_rt x
  rw [h, C14_b64_rt y] at this
  exact (Option.some.inj this).symm

/-- length: 4 characters per started group of 3 bytes (so the three padding residues are 0, 2 and 1 '=') -/
theorem C14_b64_length (bs : List UInt8) : (b64enc bs).length = 4 * ((bs.length + 2) / 3) := by
  induction bs using ind3 with
  | h0 => rfl
  | h1 a => simp [b64enc]
  | h2 a b => simp [b64enc]
  | h3 a b c rest ih =>
    simp only [b64enc, List.length_cons, ih]; omega

/-- **payload exact**: the element text is the base64 encoding of NUL user NUL secret, and it decodes to exactly
those bytes, for every user name and every secret. -/
theorem C14_payload_exact (user secret : List UInt8) :
    plainPayload user secret = b64enc (0 :: user ++ 0 :: secret) ∧
    b64dec (plainPayload user secret) = some (0 :: user ++ 0 :: secret) :=
  ⟨rfl, C14_b64_rt _⟩

private theorem split_at_nul : ∀ (u u' s s' : List UInt8), (0 : UInt8) ∉ u → (0 : UInt8) ∉ u' →
    u ++ 0 :: s = u' ++ 0 :: s' → u = u' ∧ s = s' := by
  intro u
  induction u with
  | nil =>
    intro u' s s' _ h' e
    cases u' with
    | nil => simp at e; exact ⟨rfl, e⟩
    | cons x xs =>
      simp only [List.nil_append, List.cons_append, List.cons.injEq] at e
      exact absurd (by simp [e.1]) h'
  | cons a as ih =>
    intro u' s s' h h' e
    cases u' with
    | nil =>
      simp only [List.nil_append, List.cons_append, List.cons.injEq] at e
      exact absurd (by simp [e.1]) h
    | cons x xs =>
      simp only [List.cons_append, List.cons.injEq] at e
      have ha : (0 : UInt8) ∉ as := fun m => h (List.mem_cons_of_mem _ m)
      have hx : (0 : UInt8) ∉ xs := fun m => h' (List.mem_cons_of_mem _ m)
      obtain ⟨r1, r2⟩ := ih xs s s' ha hx e.2
      exact ⟨by rw [e.1, r1], r2⟩

/-- the payload determines user and secret (user names contain no NUL: a JID local part never does) -/
theorem C14_payload_inj (u u' s s' : List UInt8) (hu : (0 : UInt8) ∉ u) (hu' : (0 : UInt8) ∉ u')
    (h : plainPayload u s = plainPayload u' s') : u = u' ∧ s = s' := by
  have e := C14_b64_inj (rawPlain u s) (rawPlain u' s') h
  simp only [rawPlain, List.cons_append, List.cons.injEq, true_and] at e
  exact split_at_nul u u' s s' hu hu' e

private theorem enc_chars (bs : List UInt8) : ∀ c ∈ b64enc bs, c ∈ alphabet ∨ c = '=' := by
  induction bs using ind3 with
  | h0 => intro c h; simp [b64enc] at h
  | h1 a =>
    intro c h
    have ha := lt256 a
    simp only [b64enc, enc3, List.mem_cons, List.not_mem_nil, or_false] at h
    rcases h with h | h | h | h
    · left; rw [h]; exact enc_mem (s1_lt ha)
    · left; rw [h]; exact enc_mem (s2_lt (by omega))
    · right; exact h
    · right; exact h
  | h2 a b =>
    intro c h
    have ha := lt256 a
    have hb := lt256 b
    simp only [b64enc, enc3, List.mem_cons, List.not_mem_nil, or_false] at h
    rcases h with h | h | h | h
    · left; rw [h]; exact enc_mem (s1_lt ha)
    · left; rw [h]; exact enc_mem (s2_lt hb)
    · left; rw [h]; exact enc_mem (s3_lt (by omega))
    · right; exact h
  | h3 a b c' rest ih =>
    intro c h
    have ha := lt256 a
    have hb := lt256 b
    have hc := lt256 c'
    simp only [b64enc, enc3, List.mem_cons] at h
    rcases h with h | h | h | h | h
    · left; rw [h]; exact enc_mem (s1_lt ha)
    · left; rw [h]; exact enc_mem (s2_lt hb)
    · left; rw [h]; exact enc_mem (s3_lt hc)
    · left; rw [h]; exact enc_mem s4_lt
    · exact ih c h

private theorem alphabet_safe : ∀ c ∈ alphabet ++ ['='], c ∉ ['<', '>', '&', '"', '\''] ∧ c.toNat < 128 ∧ 32 < c.toNat := by
  decide +kernel

/-- **alphabet**: every character of the payload is in the base64 alphabet or '='; none of them is an XML
metacharacter (so the `,innerxml` field that carries it verbatim cannot inject markup), all are printable ASCII. -/
theorem C14_alphabet (user secret : List UInt8) :
    ∀ c ∈ plainPayload user secret,
      (c ∈ alphabet ∨ c = '=') ∧ c ∉ ['<', '>', '&', '"', '\''] ∧ c.toNat < 128 ∧ 32 < c.toNat := by
  intro c h
  have hc := enc_chars _ c h
  refine ⟨hc, alphabet_safe c ?_⟩
  rcases hc with hc | hc
  · exact List.mem_append_left _ hc
  · exact List.mem_append_right _ (by simp [hc])

-- ---------------------------------------------------------------------------------------------
-- mechanism choice

/-- **mechanism sound**: the chosen mechanism was advertised by the server and is one of the credential's. -/
theorem C14_mech_sound (credMechs offered : List String) (m : String)
    (h : selectMech credMechs offered = some m) : m ∈ offered ∧ m ∈ credMechs := by
  unfold selectMech at h
  have h1 := List.find?_some h
  have h2 := List.mem_of_find?_eq_some h
  exact ⟨by simpa using h1, h2⟩

/-- **first**: it is the first such mechanism in the credential's order: no earlier one is advertised. -/
theorem C14_mech_first (credMechs offered : List String) (m : String)
    (h : selectMech credMechs offered = some m) :
    ∃ pre post, credMechs = pre ++ m :: post ∧ ∀ x ∈ pre, x ∉ offered := by
  unfold selectMech at h
  obtain ⟨_, pre, post, e, hpre⟩ := List.find?_eq_some_iff_append.mp h
  exact ⟨pre, post, e, fun x hx => by simpa using hpre x hx⟩

/-- a mechanism is chosen whenever one of the credential's is advertised -/
theorem C14_mech_complete (credMechs offered : List String) :
    selectMech credMechs offered = none ↔ ∀ x ∈ credMechs, x ∉ offered := by
  unfold selectMech
  simp [List.find?_eq_none]

/-- what is sent names a mechanism that is advertised, belongs to the credential and is PLAIN or X-OAUTH2, and
carries the exact payload - for any credential mechanism list, user, secret, server list, write result and reply. -/
theorem C14_sent_sound (credMechs offered : List String) (user secret : List UInt8) (w : WriteMode) (r : Reply)
    (m : String) (p : List Char) (h : (authSASL credMechs user secret offered w r).sent = some (m, p)) :
    m ∈ offered ∧ m ∈ credMechs ∧ (m = "PLAIN" ∨ m = "X-OAUTH2") ∧ p = plainPayload user secret := by
  unfold authSASL at h
  cases hs : selectMech credMechs offered with
  | none => rw [hs] at h; simp at h
  | some m' =>
    rw [hs] at h
    cases hi : implemented m' with
    | false => simp [hi] at h
    | true =>
      simp only [hi, if_true] at h
      cases w <;> simp only [authPlain, Option.some.injEq, Prod.mk.injEq, reduceCtorEq] at h
      obtain ⟨h1, h2⟩ := h
      subst h1; subst h2
      obtain ⟨a, b⟩ := C14_mech_sound _ _ _ hs
      refine ⟨a, b, ?_, rfl⟩
      simpa [implemented] using hi

/-- **none sends nothing**: without a common mechanism nothing is written and the error is permanent. -/
theorem C14_none_sends_nothing (credMechs offered : List String) (user secret : List UInt8) (w : WriteMode)
    (r : Reply) (h : ∀ x ∈ credMechs, x ∉ offered) :
    authSASL credMechs user secret offered w r = ⟨none, .err true⟩ := by
  unfold authSASL
  rw [(C14_mech_complete credMechs offered).mpr h]

/-- **only success authenticates**: the outcome is `ok` exactly when a mechanism was chosen, the element was
written and the reply is `<success/>`; in particular no other reply (failure, any other packet, EOF, garbage) is
ever treated as authenticated. -/
theorem C14_only_success_authenticates (credMechs offered : List String) (user secret : List UInt8)
    (w : WriteMode) (r : Reply) :
    (authSASL credMechs user secret offered w r).outcome = .ok ↔
      (∃ m, selectMech credMechs offered = some m ∧ implemented m = true) ∧ w = .ok ∧ r = .success := by
  unfold authSASL
  cases hs : selectMech credMechs offered with
  | none => simp
  | some m =>
    cases hi : implemented m with
    | false => simp [hi]
    | true => cases w <;> cases r <;> simp [hi, authPlain, authOutcome]

/-- **failure is permanent**: once the element was written, a `<failure/>` reply yields a permanent error. -/
theorem C14_failure_permanent (credMechs offered : List String) (user secret : List UInt8) (w : WriteMode)
    (h : (authSASL credMechs user secret offered w .failure).sent.isSome = true) :
    (authSASL credMechs user secret offered w .failure).outcome = .err true := by
  unfold authSASL at h ⊢
  cases hs : selectMech credMechs offered with
  | none => rfl
  | some m =>
    rw [hs] at h
    cases hi : implemented m with
    | false => simp [hi]
    | true =>
      simp only [hi, if_true] at h ⊢
      cases w <;> simp [authPlain, authOutcome] at h ⊢

/-- an error is never silently dropped: every outcome other than `ok` is an error -/
theorem C14_outcome_cases (credMechs offered : List String) (user secret : List UInt8) (w : WriteMode) (r : Reply) :
    (authSASL credMechs user secret offered w r).outcome = .ok ∨
    ∃ p, (authSASL credMechs user secret offered w r).outcome = .err p := by
  cases h : (authSASL credMechs user secret offered w r).outcome with
  | ok => left; rfl
  | err p => right; exact ⟨p, rfl⟩

-- ---------------------------------------------------------------------------------------------
-- the oracle accepts the model

private theorem kind_supports (k : Kind) (m : String) (h : m ∈ k.mechs) : supports k m = true := by
  cases k <;> simp [Kind.mechs] at h <;> simp [supports, h]

private theorem kind_implemented (k : Kind) (m : String) (h : m ∈ k.mechs) : implemented m = true := by
  cases k <;> simp [Kind.mechs] at h <;> simp [implemented, h]

private theorem no_common_none (c : Case) (h : hasCommon c = false) : selectMech c.kind.mechs c.offered = none := by
  rw [C14_mech_complete]
  intro x hx hm
  have : hasCommon c = true := by
    unfold hasCommon
    exact List.any_eq_true.mpr ⟨x, hm, kind_supports _ _ hx⟩
  rw [h] at this; cases this

/-- **oracle accepts model**: for every case the oracle accepts the model's own observation. -/
theorem C14_oracle_accepts_model (c : Case) :
    holds c (authSASL c.kind.mechs c.user c.secret c.offered c.wmode c.reply) = true := by
  obtain ⟨kind, user, secret, offered, w, r⟩ := c
  unfold holds
  simp only
  cases hs : selectMech kind.mechs offered with
  | none =>
    simp [authSASL, hs]
  | some m =>
    obtain ⟨hmo, hmc⟩ := C14_mech_sound _ _ _ hs
    have hi := kind_implemented _ _ hmc
    have hsup := kind_supports _ _ hmc
    have hcom : hasCommon ⟨kind, user, secret, offered, w, r⟩ = true := by
      unfold hasCommon
      exact List.any_eq_true.mpr ⟨m, hmo, hsup⟩
    have hrt := C14_b64_rt (0 :: user ++ 0 :: secret)
    simp only [List.cons_append] at hrt
    cases w <;> cases r <;>
      simp [authSASL, hs, hi, authPlain, authOutcome, hcom, hmo, hsup, plainPayload, rawPlain, hrt]

-- ---------------------------------------------------------------------------------------------
-- tests and non-vacuity (concrete values; these are `example`s, not the theorems)

/-- ASCII text as bytes (tests only) -/
private def ascii (s : String) : List UInt8 := s.toList.map fun c => UInt8.ofNat c.toNat

-- RFC 4648 section 10 vectors
example : b64enc (ascii "") = "".toList := by decide +kernel
example : b64enc (ascii "f") = "Zg==".toList := by decide +kernel
example : b64enc (ascii "fo") = "Zm8=".toList := by decide +kernel
example : b64enc (ascii "foo") = "Zm9v".toList := by decide +kernel
example : b64enc (ascii "foob") = "Zm9vYg==".toList := by decide +kernel
example : b64enc (ascii "fooba") = "Zm9vYmE=".toList := by decide +kernel
example : b64enc (ascii "foobar") = "Zm9vYmFy".toList := by decide +kernel
-- RFC 6120 section 6.4.2 style: NUL juliet NUL r0m30myr0m30
example : plainPayload (ascii "juliet") (ascii "r0m30myr0m30") = "AGp1bGlldAByMG0zMG15cjBtMzA=".toList := by decide +kernel
example : selectMech ["PLAIN"] ["SCRAM-SHA-1", "PLAIN"] = some "PLAIN" := by decide +kernel
example : selectMech ["PLAIN"] ["X-OAUTH2", "plain"] = none := by decide +kernel
example : (authSASL Kind.token.mechs [97] [98] ["X-OAUTH2"] .ok .success).outcome = .ok := by decide +kernel
example : (authSASL Kind.password.mechs [97] [98] ["PLAIN"] .ok .failure).sent.isSome = true := by decide +kernel
-- the hypotheses of C14_payload_inj are satisfiable, and the theorem is not vacuous without them: NUL in the user
-- name is exactly what makes two different pairs collide
example : (0 : UInt8) ∉ ([97, 255] : List UInt8) := by decide
example : plainPayload [97, 0, 98] [99] = plainPayload [97] [98, 0, 99] := by decide +kernel
example : ∃ c : Case, hasCommon c = false := ⟨⟨.password, [], [], ["X-OAUTH2"], .ok, .success⟩, by decide⟩

end XmppVerif.Props.C14

#print axioms XmppVerif.Props.C14.C14_b64_rt
#print axioms XmppVerif.Props.C14.C14_b64_inj
#print axioms XmppVerif.Props.C14.C14_b64_length
#print axioms XmppVerif.Props.C14.C14_payload_exact
#print axioms XmppVerif.Props.C14.C14_payload_inj
#print axioms XmppVerif.Props.C14.C14_alphabet
#print axioms XmppVerif.Props.C14.C14_mech_sound
#print axioms XmppVerif.Props.C14.C14_mech_first
#print axioms XmppVerif.Props.C14.C14_mech_complete
#print axioms XmppVerif.Props.C14.C14_sent_sound
#print axioms XmppVerif.Props.C14.C14_none_sends_nothing
#print axioms XmppVerif.Props.C14.C14_only_success_authenticates
#print axioms XmppVerif.Props.C14.C14_failure_permanent
#print axioms XmppVerif.Props.C14.C14_outcome_cases
#print axioms XmppVerif.Props.C14.C14_oracle_accepts_model
