import XmppVerif.Proofs.C02BytesRoundTrip
import XmppVerif.Proofs.C02BytesCanon
import XmppVerif.Props.C02
/-
C02, stage B (byte level; "bytes" = code points after UTF-8 decoding, see Model/C02Bytes.lean): property theorems
about the character-level model of encoding/xml's tokenizer, and their composition with the token-level theorems of
Props/C02.lean (bytes -> tokens -> packets). Helper lemmas live in Proofs/C02Bytes*.lean.

  (a) C02B_roundtrip …            printer / lexer round trip for every source forest a peer may write
  (b) C02B_stream_packets          rendered bytes -> tokenizer -> packet model: one packet per top-level element
  (c) C02B_segmentation …          the tokens do not depend on how the input is cut into reads
  (d) C02B_total, C02B_prefix_monotone   termination with tokens or an error; truncation never changes a complete token
-/
namespace XmppVerif.Props.C02Bytes
open XmppVerif.Model.C02 XmppVerif.Model.C02Bytes XmppVerif.Spec.C02 XmppVerif.Spec.C02Bytes XmppVerif.Proofs.C02Bytes
open XmppVerif.Props.C02 (C02_one_per_element C02_stream packets_close packets_nil)

abbrev BDec := XmppVerif.Model.C02Bytes.Dec

/-! ### (a) printer / lexer round trip -/

/-- **Round trip.** A decoder in ANY state (open elements and namespace bindings `st`) that reads the rendering of ANY
source forest `ts` - every element spelled with its own prefixes, declarations, quote kinds and white space, every
character of text or attribute value written raw, as a predefined entity or as a decimal / hexadecimal reference, CDATA
sections, comments, processing instructions - followed by ANY further input, delivers exactly the tokens of the forest,
names resolved against the declarations in scope, and is then in the same state in front of the rest.
(`lastIsText`: character data at the very end is only complete once a `<` follows.) -/
theorem C02B_roundtrip (ts : List STree) (st : Stack) (rest : List Char)
    (hok : okL ts = true) (hlast : lastIsText ts = true → StartsLt rest) :
    tokenizeFrom .content st (renderL ts ++ rest) = (tokenizeFrom .content st rest).pre (btoksL (curEnv st) ts) :=
  rt_list ts st rest hok hlast

/-- a whole document: the forest alone, read by a fresh decoder up to the end of the input -/
theorem C02B_roundtrip_document (ts : List STree) (hok : okL ts = true) (hlast : lastIsText ts = false) :
    tokenize (renderL ts) = ⟨btoksL [] ts, .eof, false⟩ := by
  have := C02B_roundtrip ts [] [] hok (by simp [hlast])
  simp only [List.append_nil] at this
  simp [tokenize, this, tokenizeFrom_nil, Result.pre, endStop, curEnv]

/-- the tokens of a source forest, in the alphabet of the packet model, are the tokens of its resolved tree -/
theorem C02B_tokens_of_resolved (env : Env) (ts : List STree) : eraseL (btoksL env ts) = toksL (resolveL env ts) :=
  erase_list env ts

/-! ### (b) bytes -> tokens -> packets -/

def treeItems (ts : List Tree) : List Item := ts.map Item.tree

theorem itemsToks_trees (ts : List Tree) : itemsToks (treeItems ts) = toksL ts := by
  induction ts with
  | nil => rfl
  | cons t ts ih => simp [treeItems, itemsToks, Item.toks, toksL] at ih ⊢; rw [ih]

theorem itemsToks_append (a b : List Item) : itemsToks (a ++ b) = itemsToks a ++ itemsToks b := by
  induction a with
  | nil => rfl
  | cons i is ih => simp [itemsToks, ih]

/-- the tokens of a complete stream: declaration, header, the items, optionally the closing tag -/
theorem C02B_stream_tokens (q : QName) (as : List SAttr) (tail : List Char) (items : List STree) (closed : Bool)
    (hq : qnameOk q = true) (has : as.all SAttr.ok = true) (ht : wsOk tail = true)
    (hok : okL items = true) (hlast : lastIsText items = true → closed = true) :
    tokenize (xmlDecl ++ (renderOpen q as tail ++ (renderL items ++ (if closed then renderClose q else [])))) =
      ⟨.pi "xml" "version='1.0'" :: startTok [] q as ::
          (btoksL (envOf [] as) items ++ (if closed then [stopTok [] q as] else [])),
        if closed then .eof else .unexpectedEof, false⟩ := by
  unfold tokenize
  rw [tok_xmlDecl, tok_header q as tail [] _ hq has ht]
  cases closed with
  | true =>
    simp only [if_true]
    rw [C02B_roundtrip items _ (renderClose q) hok (fun _ => ⟨_, rfl⟩)]
    have := tok_close q (envOf (curEnv []) as) [] [] hq
    simp only [List.append_nil] at this
    rw [this, tokenizeFrom_nil]
    simp [Result.pre, endStop, curEnv, stopTok]
  | false =>
    have hl : lastIsText items = false := by
      cases h : lastIsText items with
      | false => rfl
      | true => exact absurd (hlast h) (by simp)
    simp only [Bool.false_eq_true, if_false, List.append_nil]
    have := C02B_roundtrip items [⟨q, envOf (curEnv []) as⟩] [] hok (by simp [hl])
    simp only [List.append_nil] at this
    rw [this, tokenizeFrom_nil]
    simp [Result.pre, endStop, curEnv]

/-- **Composition with the token-level theorem.** For every stream a peer may write - XML declaration, a header that
binds the stream namespace, any source forest of top-level items whose resolved elements are in the dispatch table and
well typed (the hypotheses of C02_one_per_element), then the closing tag - reading the BYTES through the tokenizer
model, dropping what InitStream consumes (declaration and header), and running the packet model yields exactly one
packet per top-level element, of the right kind, in order, then the stream-close packet, then the end of the input. -/
theorem C02B_stream_packets (q : QName) (as : List SAttr) (tail : List Char) (items : List STree)
    (hq : qnameOk q = true) (has : as.all SAttr.ok = true) (ht : wsOk tail = true) (hok : okL items = true)
    (hstream : mkName (translate (envOf [] as) true q) = streamEnd)
    (hd : dispatchable (treeItems (resolveL (envOf [] as) items)) = true)
    (hty : typedOk (treeItems (resolveL (envOf [] as) items)) = true) :
    packets (eraseL ((tokenize (xmlDecl ++ (renderOpen q as tail ++ (renderL items ++ renderClose q)))).toks.drop 2)) =
      expected (treeItems (resolveL (envOf [] as) items)) ++ [.pkt closePacket, .err .eof] := by
  have := C02B_stream_tokens q as tail items true hq has ht hok (fun _ => rfl)
  simp only [if_true] at this
  rw [this]
  simp only [List.drop_succ_cons, List.drop_zero, eraseL, List.map_append, List.map_cons, List.map_nil]
  have he := C02B_tokens_of_resolved (envOf [] as) items
  simp only [eraseL] at he
  rw [he, ← itemsToks_trees]
  have hs : BTok.erase (stopTok [] q as) = Tok.stop streamEnd := by simp [stopTok, BTok.erase, hstream]
  rw [hs, C02_one_per_element _ _ hd hty, packets_close, packets_nil]

/-- the same while the stream is still open (no closing tag yet, the forest not ending in character data): the
packets, then the end of the input -/
theorem C02B_open_stream_packets (q : QName) (as : List SAttr) (tail : List Char) (items : List STree)
    (hq : qnameOk q = true) (has : as.all SAttr.ok = true) (ht : wsOk tail = true) (hok : okL items = true)
    (hlast : lastIsText items = false)
    (hd : dispatchable (treeItems (resolveL (envOf [] as) items)) = true)
    (hty : typedOk (treeItems (resolveL (envOf [] as) items)) = true) :
    packets (eraseL ((tokenize (xmlDecl ++ (renderOpen q as tail ++ renderL items))).toks.drop 2)) =
      expected (treeItems (resolveL (envOf [] as) items)) ++ [.err .eof] := by
  have := C02B_stream_tokens q as tail items false hq has ht hok (by simp [hlast])
  simp only [Bool.false_eq_true, if_false, List.append_nil] at this
  rw [this]
  simp only [List.drop_succ_cons, List.drop_zero]
  rw [C02B_tokens_of_resolved, ← itemsToks_trees]
  exact C02_stream _ hd hty

/-! ### coverage: which token-level forests are reached -/

/-- **Coverage.** Every token-level forest (Model.C02.Tree) for which the computable `unTreeL` finds a canonical
spelling - elements in the default namespace in force or named by an undeclared prefix, attributes unprefixed or
`xmlns:p` declarations, ASCII NCNames, strings of XML characters, no empty or adjacent character data - IS the
resolution of a source forest in the class of the round-trip theorem. -/
theorem C02B_canonical_source (env : Env) (ts : List Tree) (ss : List STree) (h : unTreeL env ts = some ss) :
    okL ss = true ∧ resolveL env ss = ts :=
  unTreeL_spec env ts ss h

/-- (b) stated from the token side: for every token forest with a canonical spelling that satisfies the hypotheses of
the token-level theorem, there are bytes - its canonical rendering inside a stream - that the tokenizer model and
the packet model read back as exactly one packet per top-level element of THAT forest -/
theorem C02B_stream_packets_of_trees (q : QName) (as : List SAttr) (tail : List Char) (ts : List Tree) (ss : List STree)
    (hq : qnameOk q = true) (has : as.all SAttr.ok = true) (ht : wsOk tail = true)
    (hs : unTreeL (envOf [] as) ts = some ss)
    (hstream : mkName (translate (envOf [] as) true q) = streamEnd)
    (hd : dispatchable (treeItems ts) = true) (hty : typedOk (treeItems ts) = true) :
    packets (eraseL ((tokenize (xmlDecl ++ (renderOpen q as tail ++ (renderL ss ++ renderClose q)))).toks.drop 2)) =
      expected (treeItems ts) ++ [.pkt closePacket, .err .eof] := by
  obtain ⟨hok, hres⟩ := C02B_canonical_source _ ts ss hs
  have := C02B_stream_packets q as tail ss hq has ht hok hstream (by rw [hres]; exact hd) (by rw [hres]; exact hty)
  rw [hres] at this
  exact this

/-! ### (c) segmentation independence -/

/-- **Segmentation.** However the input is cut into reads - any list of chunks, empty ones included - the incremental
decoder (`feed` per read: append to the buffer, deliver every token that is complete, keep the rest) followed by the
end of the input yields exactly what the one-shot tokenizer yields on the concatenation: same tokens, same final
outcome. -/
theorem C02B_segmentation (chunks : List (List Char)) :
    finish (chunks.foldl feed XmppVerif.Model.C02Bytes.Dec.init) = tokenize chunks.flatten := by
  rw [finish_eq_sem, feedAll_sem]
  simp [sem, XmppVerif.Model.C02Bytes.Dec.init, tokenize, Result.pre]

/-- two segmentations of the same bytes give the same result -/
theorem C02B_segmentation_free (c1 c2 : List (List Char)) (h : c1.flatten = c2.flatten) :
    finish (c1.foldl feed XmppVerif.Model.C02Bytes.Dec.init) = finish (c2.foldl feed XmppVerif.Model.C02Bytes.Dec.init) := by
  rw [C02B_segmentation, C02B_segmentation, h]

theorem quiet_feedAll : ∀ (chunks : List (List Char)) (d : BDec), Quiet d → Quiet (chunks.foldl feed d) := by
  intro chunks
  induction chunks with
  | nil => intro d h; exact h
  | cons c cs ih =>
    intro d _
    simp only [List.foldl_cons]
    apply ih
    unfold feed
    apply drain_quiet
    simp

/-- **Promptness.** What the incremental decoder has delivered after any sequence of reads - before it knows whether
more input will come - is exactly the list of COMPLETE tokens of the bytes received so far: every token whose last
character (for character data: the `<` that ends it) has arrived, and nothing else. -/
theorem C02B_delivered (chunks : List (List Char)) :
    (chunks.foldl feed XmppVerif.Model.C02Bytes.Dec.init).out = (tokenize chunks.flatten).complete := by
  have hq : Quiet (chunks.foldl feed XmppVerif.Model.C02Bytes.Dec.init) := by
    apply quiet_feedAll
    intro m' ev rest hl
    exact absurd hl (lexStep_nil_not_ok _ _ _)
  have h := C02B_segmentation chunks
  rw [← h]
  unfold finish
  rw [complete_pre _ _ (cut_nonempty' _ _ _), quiet_complete _ hq]
  simp only [List.append_nil]

/-! ### (d) totality, boundedness, truncation -/

/-- **Totality.** For EVERY input the tokenizer model terminates with finitely many tokens - at most two per
character - followed by exactly one outcome, which is never the fuel marker: io.EOF at a token boundary with nothing
open, unexpected EOF, a syntax error, or the explicit `unsupported` marker. (The model is a total function; this says
its fuel always suffices and bounds its output. It says nothing about the Go decoder's own termination: sampled.) -/
theorem C02B_total (cs : List Char) :
    (tokenize cs).stop ≠ .fuel ∧ (tokenize cs).toks.length ≤ 2 * cs.length :=
  ⟨tokF_no_fuel _ _ _ _ (Nat.lt_succ_self _), tokF_bound _ _ _ _⟩

/-- **Truncation / prefix monotonicity.** The complete tokens of an input are a prefix of the complete tokens of every
extension of it: cutting a stream at any offset never yields more or different complete tokens than the full stream
has at those positions (only character data that the cut itself ended is not `complete`). In any decoder state. -/
theorem C02B_prefix_monotone (m : Mode) (st : Stack) (a b : List Char) :
    (tokenizeFrom m st a).complete <+: (tokenizeFrom m st (a ++ b)).complete :=
  complete_mono a.length m st a b (Nat.le_refl _)

/-- every truncation of an input: its complete tokens are an initial segment of the tokens of the whole -/
theorem C02B_truncation (cs : List Char) (n : Nat) : (tokenize (cs.take n)).complete <+: (tokenize cs).toks := by
  have h := C02B_prefix_monotone .content [] (cs.take n) (cs.drop n)
  rw [List.take_append_drop] at h
  refine List.IsPrefix.trans h ?_
  unfold Result.complete
  split
  · exact List.dropLast_prefix _
  · exact List.prefix_refl _

/-- a truncated stream never yields a packet the full stream does not yield at that position, as far as the packet
model has been given complete tokens: the complete tokens of the cut stream followed by the missing ones are the
tokens of the full stream -/
theorem C02B_truncation_extends (cs : List Char) (n : Nat) :
    ∃ more, (tokenize cs).toks = (tokenize (cs.take n)).complete ++ more := by
  obtain ⟨more, h⟩ := C02B_truncation cs n
  exact ⟨more, h.symm⟩

/-- one lexical step never looks beyond the characters it needs: its result on an input is its result on every
extension (the lemma behind (c) and (d)) -/
theorem C02B_step_stable (m : Mode) (a b : List Char) (v : Mode × Ev) (r : List Char) (h : lexStep m a = .ok v r) :
    r.length < a.length ∧ lexStep m (a ++ b) = .ok v (r ++ b) :=
  ⟨(good1_lexStep m a v r h).1, (good1_lexStep m a v r h).2 b⟩

/-! ### the hypotheses are satisfiable, the conclusions non-trivial (examples by evaluation) -/

def raws (s : String) : List Piece := s.toList.map .raw
def sp : List Char := [' ']
def attr (pfx loc : String) (dq : Bool) (val : List Piece) : SAttr := ⟨sp, ⟨pfx.toList, loc.toList⟩, [], [], dq, val⟩

/-- `<message to="a&amp;b" xml:lang = 'en' ><body>1 &lt; 2 &#x26; 3 &#0062; 2 ]]&gt;</body><x xmlns='urn:u' p:k="v"
xmlns:p='urn:p'/><!-- c --><![CDATA[<z>&]]><?pi d?><u:y>tail</u:y></message >`, then white space, then
`<stream:features/>`: both quote kinds, white space around `=` and before `>`, entities, hexadecimal and decimal
references with leading zeros, a raw `>`, a prefix used before its declaration, an undeclared prefix -/
def sampleForest : List STree := [
  .elem ⟨[], "message".toList⟩
    [attr "" "to" true (raws "a" ++ [.named .amp] ++ raws "b"),
     ⟨sp, ⟨"xml".toList, "lang".toList⟩, sp, sp, false, raws "en"⟩] sp
    [.elem ⟨[], "body".toList⟩ [] []
       [.text (raws "1 " ++ [.named .lt] ++ raws " 2 " ++ [.num true "26".toList] ++ raws " 3 " ++ [.num false "0062".toList]
               ++ raws " 2 ]]" ++ [.named .gt])] [],
     .empty ⟨[], "x".toList⟩ [attr "" "xmlns" false (raws "urn:u"), attr "p" "k" true (raws "v"),
                              attr "xmlns" "p" false (raws "urn:p")] [],
     .comment " c ".toList, .cdata "<z>&".toList, .pi "pi".toList sp "d".toList,
     .elem ⟨"u".toList, "y".toList⟩ [] [] [.text (raws "tail")] []] sp,
  .text (raws "\n"),
  .empty ⟨"stream".toList, "features".toList⟩ [] []]

def streamQ : QName := ⟨"stream".toList, "stream".toList⟩
def streamAttrs : List SAttr := [attr "" "xmlns" false (raws "jabber:client"),
  attr "xmlns" "stream" false (raws "http://etherx.jabber.org/streams"), attr "" "id" true (raws "s1")]

example : okL sampleForest = true ∧ lastIsText sampleForest = false := by decide
example : String.ofList (renderL sampleForest) =
    "<message to=\"a&amp;b\" xml:lang = 'en' ><body>1 &lt; 2 &#x26; 3 &#0062; 2 ]]&gt;</body><x xmlns='urn:u' p:k=\"v\" xmlns:p='urn:p'/><!-- c --><![CDATA[<z>&]]><?pi d?><u:y>tail</u:y></message >\n<stream:features/>" := by
  decide +kernel
/-- (a) on the sample, inside the stream header: the tokens a Go decoder returns -/
example : (tokenizeFrom .content [⟨streamQ, envOf [] streamAttrs⟩] (renderL sampleForest)).toks =
    [.start ⟨"jabber:client", "message"⟩ [⟨⟨"", "to"⟩, "a&b"⟩, ⟨⟨"http://www.w3.org/XML/1998/namespace", "lang"⟩, "en"⟩],
     .start ⟨"jabber:client", "body"⟩ [], .text "1 < 2 & 3 > 2 ]]>", .stop ⟨"jabber:client", "body"⟩,
     .start ⟨"urn:u", "x"⟩ [⟨⟨"", "xmlns"⟩, "urn:u"⟩, ⟨⟨"urn:p", "k"⟩, "v"⟩, ⟨⟨"xmlns", "p"⟩, "urn:p"⟩], .stop ⟨"urn:u", "x"⟩,
     .comment " c ", .text "<z>&", .pi "pi" "d",
     .start ⟨"u", "y"⟩ [], .text "tail", .stop ⟨"u", "y"⟩,
     .stop ⟨"jabber:client", "message"⟩, .text "\n",
     .start ⟨"http://etherx.jabber.org/streams", "features"⟩ [], .stop ⟨"http://etherx.jabber.org/streams", "features"⟩] := by
  decide +kernel
/-- (b): the hypotheses of C02B_stream_packets hold for the sample stream, and its conclusion names three results -/
example : qnameOk streamQ = true ∧ streamAttrs.all SAttr.ok = true ∧
    mkName (translate (envOf [] streamAttrs) true streamQ) = streamEnd ∧
    dispatchable (treeItems (resolveL (envOf [] streamAttrs) sampleForest)) = true ∧
    typedOk (treeItems (resolveL (envOf [] streamAttrs) sampleForest)) = true := by decide
example : expected (treeItems (resolveL (envOf [] streamAttrs) sampleForest)) =
    [.pkt ⟨.message, "", "", "", "a&b", "1 < 2 & 3 > 2 ]]>"⟩, .pkt ⟨.streamFeatures, "", "", "", "", ""⟩] := by decide
/-- coverage: the token-level sample of Props/C02.lean (a message with a same-named descendant under an element named
by the undeclared prefix `u`, an iq with a pubsub#owner payload that would need a declaration - so the canonical
spelling exists for the first and third item only) -/
example : (unTreeL (envOf [] streamAttrs)
    [.elem ⟨nsClient, "message"⟩ [⟨⟨"", "id"⟩, "m1"⟩, ⟨⟨"", "to"⟩, "a@b"⟩]
       [.elem ⟨"u", "x"⟩ [] [.elem ⟨nsClient, "message"⟩ [] [.elem ⟨nsClient, "body"⟩ [] [.text "no"]]],
        .elem ⟨nsClient, "body"⟩ [] [.text "y<e>s"]],
     .text " ",
     .elem ⟨nsSM, "a"⟩ [⟨⟨"", "xmlns"⟩, nsSM⟩, ⟨⟨"", "h"⟩, "12"⟩] []]).map (fun ss => String.ofList (renderL ss)) =
    some "<message id=\"m1\" to=\"a@b\"><u:x><message><body>no</body></message></u:x><body>y&lt;e&gt;s</body></message> <a xmlns=\"urn:xmpp:sm:3\" h=\"12\"></a>" := by
  decide +kernel
example : unTreeL (envOf [] streamAttrs) [.elem ⟨nsSM, "a"⟩ [⟨⟨"", "h"⟩, "12"⟩] []] = none := by decide

/-- (c): a tag cut in the middle of an attribute value, an entity cut in the middle, an empty read -/
example : finish (["<a x='".toList, "1&am".toList, [], "p;'>t</a".toList, ">".toList].foldl feed XmppVerif.Model.C02Bytes.Dec.init)
    = tokenize "<a x='1&amp;'>t</a>".toList := by decide
example : (["<a x='".toList, "1&am".toList, [], "p;'>t".toList].foldl feed XmppVerif.Model.C02Bytes.Dec.init).out
    = [.start ⟨"", "a"⟩ [⟨⟨"", "x"⟩, "1&"⟩]] := by decide
/-- (d): each outcome occurs; truncated character data is not complete; malformed input is an error, not a guess -/
example : (tokenize []).stop = .eof ∧ (tokenize "<a>".toList).stop = .unexpectedEof ∧
    (tokenize "<a></b>".toList).stop = .syntax ∧ (tokenize "<a>&bogus;</a>".toList).stop = .syntax ∧
    (tokenize "<a b='1' c=2/>".toList).stop = .syntax ∧ (tokenize "<a>]]></a>".toList).stop = .syntax ∧
    (tokenize "<p:a xmlns:p='u'></q:a>".toList).stop = .syntax ∧
    (tokenize "<!DOCTYPE x><a/>".toList).stop = .unsupported "directive" := by decide
example : (tokenize "<a>xy".toList).toks = [.start ⟨"", "a"⟩ [], .text "xy"] ∧ (tokenize "<a>xy".toList).cut = true ∧
    (tokenize "<a>xy".toList).complete = [.start ⟨"", "a"⟩ []] ∧
    (tokenize "<a>xyz</a>".toList).toks = [.start ⟨"", "a"⟩ [], .text "xyz", .stop ⟨"", "a"⟩] := by decide
/-- namespace resolution as Decoder.Token does it: the default namespace applies to elements only, the innermost
declaration wins, `xmlns=""` resets, an undeclared prefix is kept as the space, `xml:` is predeclared -/
example : (tokenize "<a xmlns='u' b='1'><c xmlns='v' xmlns:p='w'><p:d p:e='2'/></c><f xmlns=''/><q:g xml:h='3'/></a>".toList).toks =
    [.start ⟨"u", "a"⟩ [⟨⟨"", "xmlns"⟩, "u"⟩, ⟨⟨"", "b"⟩, "1"⟩],
     .start ⟨"v", "c"⟩ [⟨⟨"", "xmlns"⟩, "v"⟩, ⟨⟨"xmlns", "p"⟩, "w"⟩],
     .start ⟨"w", "d"⟩ [⟨⟨"w", "e"⟩, "2"⟩], .stop ⟨"w", "d"⟩, .stop ⟨"v", "c"⟩,
     .start ⟨"", "f"⟩ [⟨⟨"", "xmlns"⟩, ""⟩], .stop ⟨"", "f"⟩,
     .start ⟨"q", "g"⟩ [⟨⟨"http://www.w3.org/XML/1998/namespace", "h"⟩, "3"⟩], .stop ⟨"q", "g"⟩,
     .stop ⟨"u", "a"⟩] := by decide

end XmppVerif.Props.C02Bytes
#print axioms XmppVerif.Props.C02Bytes.C02B_roundtrip
#print axioms XmppVerif.Props.C02Bytes.C02B_roundtrip_document
#print axioms XmppVerif.Props.C02Bytes.C02B_tokens_of_resolved
#print axioms XmppVerif.Props.C02Bytes.C02B_stream_tokens
#print axioms XmppVerif.Props.C02Bytes.C02B_stream_packets
#print axioms XmppVerif.Props.C02Bytes.C02B_open_stream_packets
#print axioms XmppVerif.Props.C02Bytes.C02B_canonical_source
#print axioms XmppVerif.Props.C02Bytes.C02B_stream_packets_of_trees
#print axioms XmppVerif.Props.C02Bytes.C02B_segmentation
#print axioms XmppVerif.Props.C02Bytes.C02B_segmentation_free
#print axioms XmppVerif.Props.C02Bytes.C02B_delivered
#print axioms XmppVerif.Props.C02Bytes.C02B_total
#print axioms XmppVerif.Props.C02Bytes.C02B_prefix_monotone
#print axioms XmppVerif.Props.C02Bytes.C02B_truncation
#print axioms XmppVerif.Props.C02Bytes.C02B_truncation_extends
#print axioms XmppVerif.Props.C02Bytes.C02B_step_stable
