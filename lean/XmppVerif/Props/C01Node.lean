import XmppVerif.Proofs.C01Node
/-
C01, token level: the generic element parser (`Decoder.DecodeElement`) inverts the token stream of any element;
`stanza.Node` trees round-trip exactly on the class `Tree.wf` (= the property's quantifier minus the regions of the
findings F-01d and F-01e); negative witnesses for both regions; the tag delimiters of the output depend on the
structure only, whatever the text.
-/
namespace XmppVerif.Props.C01
open XmppVerif.Model.C01 XmppVerif.Spec.C01 XmppVerif.Proofs.C01

/-- DecodeElement consumes exactly the element it was started on and reconstructs it, for every element, every
nesting, whatever follows in the stream. -/
theorem C01_parse_toks (n : Name) (a : List Attr) (ks : List El) (r : List Tok) :
    parseElem (toks (.elem n a ks) ++ r) = some (.elem n a ks, r) := parse_toks n a ks r

/-- Arbitrary generic node trees of the exact class: marshal, print + tokenize under any default namespace `ctx`,
decode: the same tree, and the rest of the stream untouched. -/
theorem C01_node_roundtrip (ctx : Str) (t : Tree) (rest : List Tok) (h : t.wf ctx = true) :
    unmarshalNode (marshalNode ctx t ++ rest) = some (t, rest) := by
  simp only [Tree.wf, Bool.and_eq_true, Bool.not_eq_true'] at h
  obtain ⟨⟨hq, hi⟩, ha⟩ := h
  have hrt := node_rt ctx t hq hi ha
  cases t with
  | mk n a c ns =>
    simp only [encNode, view] at hrt
    simp only [unmarshalNode, marshalNode, encNode, view, parse_toks, hrt, Option.map]

/-- … and serializing the parsed value again gives byte-identical output. -/
theorem C01_node_reserialise (ctx : Str) (t : Tree) (h : t.wf ctx = true) :
    (unmarshalNode (marshalNode ctx t)).map (fun p => nodeBytes p.1) = some (nodeBytes t) := by
  have := C01_node_roundtrip ctx t [] h
  rw [List.append_nil] at this
  rw [this]; rfl

/-- Text never injects XML, any element tree (all modelled types serialize through `render`): with names that are
names, the output contains exactly two `<` and two `>` per element of the value's structure, whatever characters
the attribute values, namespaces and text contain. -/
theorem C01_structure (e : El) (h : e.namesOk = true) :
    count '<' (render e) = 2 * elemCount e ∧ count '>' (render e) = 2 * elemCount e :=
  ⟨struct_el '<' (.inl rfl) e h, struct_el '>' (.inr rfl) e h⟩

theorem C01_node_structure (t : Tree) (h : t.namesOk = true) :
    count '<' (nodeBytes t) = 2 * elemCount (encNode t) ∧ count '>' (nodeBytes t) = 2 * elemCount (encNode t) :=
  C01_structure (encNode t) (encNode_namesOk t h)

/-- The oracle accepts the model's observation for every tree outside the two recorded regions. -/
theorem C01_node_oracle_accepts_model (ctx : Str) (t : Tree)
    (h : (t.inheritsNs ctx || t.hasNsAttr) = false) : holdsNode t (modelNodeObs ctx t) = true := by
  unfold holdsNode
  by_cases hq : t.inQ = true
  · have hw : t.wf ctx = true := by
      simp only [Bool.or_eq_false_iff] at h
      simp [Tree.wf, hq, h.1, h.2]
    have hrt := C01_node_roundtrip ctx t [] hw
    rw [List.append_nil] at hrt
    simp [hq, modelNodeObs, hrt, optBeq, Tree.beq_refl, shape_view]
  · simp [hq]

/-! ### negative witnesses (the model is the code as it is) -/
def nm (sp lo : String) : Name := ⟨sp.toList, lo.toList⟩

/-- F-01d: `<q xmlns="ns:a"><title></title></q>`: the child comes back with the parent's namespace and the second
serialization writes it out. -/
def witD : Tree := .mk (nm "ns:a" "q") [] [] [.mk (nm "" "title") [] [] []]
def witD' : Tree := .mk (nm "ns:a" "q") [] [] [.mk (nm "ns:a" "title") [] [] []]

theorem C01_witness_F01d :
    witD.inQ = true ∧ witD.inheritsNs [] = true ∧
    (unmarshalNode (marshalNode [] witD)).map (fun p => Tree.beq p.1 witD') = some true ∧
    Tree.beq witD' witD = false ∧
    nodeBytes witD = "<q xmlns=\"ns:a\"><title></title></q>".toList ∧
    nodeBytes witD' = "<q xmlns=\"ns:a\"><title xmlns=\"ns:a\"></title></q>".toList := by decide

/-- F-01e: an attribute with a namespace comes back as two attributes (the generated prefix declaration is kept),
and the second serialization declares a prefix for the pseudo-namespace "xmlns". -/
def witE : Tree := .mk (nm "" "q") [⟨nm "ns:b" "k", ['v']⟩] [] []
def witE' : Tree := .mk (nm "" "q") [⟨nm "xmlns" "_", "ns:b".toList⟩, ⟨nm "ns:b" "k", ['v']⟩] [] []

theorem C01_witness_F01e :
    witE.inQ = true ∧ witE.hasNsAttr = true ∧ witE.nsAttrModelled = true ∧ witE'.nsAttrModelled = true ∧
    (unmarshalNode (marshalNode [] witE)).map (fun p => Tree.beq p.1 witE') = some true ∧
    Tree.beq witE' witE = false ∧
    nodeBytes witE = "<q xmlns:_=\"ns:b\" _:k=\"v\"></q>".toList ∧
    nodeBytes witE' = "<q xmlns:_xmlns=\"xmlns\" _xmlns:_=\"ns:b\" xmlns:_=\"ns:b\" _:k=\"v\"></q>".toList := by decide

-- non-vacuity: the exact class contains mixed content, attributes with metacharacters, nested namespaces
example : (Tree.mk (nm "u:1" "x") [⟨nm "" "k", "<&\"'>\r\n".toList⟩] " ]]> ".toList
    [.mk (nm "u:2" "y") [] [] [.mk (nm "u:2" "z") [] "é".toList []]]).wf "jabber:client".toList = true := by decide
example : (Tree.mk (nm "" "x") [] [] [.mk (nm "" "y") [] [] []]).wf [] = true := by decide
example : (Tree.mk (nm "" "x") [] [] []).wf "jabber:client".toList = false := by decide

end XmppVerif.Props.C01

#print axioms XmppVerif.Props.C01.C01_parse_toks
#print axioms XmppVerif.Props.C01.C01_node_roundtrip
#print axioms XmppVerif.Props.C01.C01_node_reserialise
#print axioms XmppVerif.Props.C01.C01_structure
#print axioms XmppVerif.Props.C01.C01_node_structure
#print axioms XmppVerif.Props.C01.C01_node_oracle_accepts_model
#print axioms XmppVerif.Props.C01.C01_witness_F01d
#print axioms XmppVerif.Props.C01.C01_witness_F01e
