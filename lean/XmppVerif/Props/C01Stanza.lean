import XmppVerif.Proofs.C01IQ
/-
C01, stanza envelopes and nonzas: for every value of the modelled types inside the stated class, marshal, print +
tokenize under any default namespace, decode = the value, rest of the stream untouched; the second serialization is
byte-identical; the oracle accepts the model; negative witnesses for the recorded findings F-01c and F-01g.
Modelled types: Message{Attrs, Subject, Body, Thread, Error}, Presence{Attrs, Show, Status, Priority, Error},
IQ{Attrs, Error, Any}, Err, SMEnable, SMEnabled, SMRequest, SMAnswer, SMResume, SMResumed, SMFailed, SASLAuth, Handshake.
-/
namespace XmppVerif.Props.C01
open XmppVerif.Model.C01 XmppVerif.Spec.C01 XmppVerif.Proofs.C01

private theorem unmarshal_marshal {α : Type} (ctx : Str) (enc : α → El) (dec : El → Option α) (v v' : α)
    (rest : List Tok) (hel : ∃ n a ks, enc v = .elem n a ks) (h : dec (view ctx (enc v)) = some v') :
    unmarshalWith dec (marshalWith ctx enc v ++ rest) = some (v', rest) := by
  obtain ⟨n, a, ks, he⟩ := hel
  rw [he, view_elem] at h
  simp only [unmarshalWith, marshalWith, he, view_elem, parse_toks, h, Option.map]

/-! ### reflection-coded nonzas, schema-driven -/

/-- Any schema of attribute fields (string / uint / *uint / *bool, with or without omitempty) plus an optional
`,innerxml` string, with distinct attribute names: every conforming value round-trips. -/
theorem C01_roundtrip_flat (ctx : Str) (s : Schema) (v : FlatVal) (rest : List Tok)
    (hs : s.wf = true) (hv : v.wf s = true) :
    unmarshalWith (decFlat s) (marshalWith ctx (encFlat s) v ++ rest) = some (v, rest) :=
  unmarshal_marshal ctx _ _ v v rest ⟨_, _, _, rfl⟩ (flat_rt ctx s v hs hv)

theorem C01_reserialise_flat (ctx : Str) (s : Schema) (v : FlatVal) (hs : s.wf = true) (hv : v.wf s = true) :
    (unmarshalWith (decFlat s) (marshalWith ctx (encFlat s) v)).map (fun p => render (encFlat s p.1)) =
      some (render (encFlat s v)) := by
  have := C01_roundtrip_flat ctx s v [] hs hv
  rw [List.append_nil] at this; rw [this]; rfl

theorem C01_roundtrip_SMEnable (ctx : Str) (v : FlatVal) (rest : List Tok) (hv : v.wf schemaSMEnable = true) :
    unmarshalWith (decFlat schemaSMEnable) (marshalWith ctx (encFlat schemaSMEnable) v ++ rest) = some (v, rest) :=
  C01_roundtrip_flat ctx _ v rest (by decide) hv
theorem C01_roundtrip_SMEnabled (ctx : Str) (v : FlatVal) (rest : List Tok) (hv : v.wf schemaSMEnabled = true) :
    unmarshalWith (decFlat schemaSMEnabled) (marshalWith ctx (encFlat schemaSMEnabled) v ++ rest) = some (v, rest) :=
  C01_roundtrip_flat ctx _ v rest (by decide) hv
theorem C01_roundtrip_SMRequest (ctx : Str) (v : FlatVal) (rest : List Tok) (hv : v.wf schemaSMRequest = true) :
    unmarshalWith (decFlat schemaSMRequest) (marshalWith ctx (encFlat schemaSMRequest) v ++ rest) = some (v, rest) :=
  C01_roundtrip_flat ctx _ v rest (by decide) hv
theorem C01_roundtrip_SMAnswer (ctx : Str) (v : FlatVal) (rest : List Tok) (hv : v.wf schemaSMAnswer = true) :
    unmarshalWith (decFlat schemaSMAnswer) (marshalWith ctx (encFlat schemaSMAnswer) v ++ rest) = some (v, rest) :=
  C01_roundtrip_flat ctx _ v rest (by decide) hv
theorem C01_roundtrip_SMResumed (ctx : Str) (v : FlatVal) (rest : List Tok) (hv : v.wf schemaSMResumed = true) :
    unmarshalWith (decFlat schemaSMResumed) (marshalWith ctx (encFlat schemaSMResumed) v ++ rest) = some (v, rest) :=
  C01_roundtrip_flat ctx _ v rest (by decide) hv
theorem C01_roundtrip_SMResume (ctx : Str) (v : FlatVal) (rest : List Tok) (hv : v.wf schemaSMResume = true) :
    unmarshalWith (decFlat schemaSMResume) (marshalWith ctx (encFlat schemaSMResume) v ++ rest) = some (v, rest) :=
  C01_roundtrip_flat ctx _ v rest (by decide) hv
/-- SASLAuth: `Value` is `,innerxml`, raw by design; the class requires it to be plain character data (base64 is). -/
theorem C01_roundtrip_SASLAuth (ctx : Str) (v : FlatVal) (rest : List Tok) (hv : v.wf schemaSASLAuth = true) :
    unmarshalWith (decFlat schemaSASLAuth) (marshalWith ctx (encFlat schemaSASLAuth) v ++ rest) = some (v, rest) :=
  C01_roundtrip_flat ctx _ v rest (by decide) hv
theorem C01_roundtrip_Handshake (ctx : Str) (v : FlatVal) (rest : List Tok) (hv : v.wf schemaHandshake = true) :
    unmarshalWith (decFlat schemaHandshake) (marshalWith ctx (encFlat schemaHandshake) v ++ rest) = some (v, rest) :=
  C01_roundtrip_flat ctx _ v rest (by decide) hv

/-! ### SMFailed -/
theorem C01_roundtrip_SMFailed (ctx : Str) (v : SMFailed) (rest : List Tok) (hv : v.wf = true) :
    unmarshalWith decSMFailed (marshalWith ctx encSMFailed v ++ rest) = some (v, rest) :=
  unmarshal_marshal ctx _ _ v v rest ⟨_, _, _, rfl⟩ (smfailed_rt ctx v hv)

theorem C01_reserialise_SMFailed (ctx : Str) (v : SMFailed) (hv : v.wf = true) :
    (unmarshalWith decSMFailed (marshalWith ctx encSMFailed v)).map (fun p => render (encSMFailed p.1)) =
      some (render (encSMFailed v)) := by
  have := C01_roundtrip_SMFailed ctx v [] hv
  rw [List.append_nil] at this; rw [this]; rfl

/-! ### Err -/
def decErr (e : El) : Option Err := some (decErrOnto Err.zero e)

/-- error condition, type, code and text are preserved (reason a name other than text/gone: F-01c, F-01g) -/
theorem C01_roundtrip_Err (ctx : Str) (e : Err) (rest : List Tok) (hw : e.wf = true) :
    unmarshalWith decErr (marshalWith ctx errElem e ++ rest) = some (e, rest) :=
  unmarshal_marshal ctx _ _ e e rest ⟨_, _, _, rfl⟩ (by rw [decErr, err_rt ctx e hw])

/-- the empty error has no wire form at all (it is how "no error" is written inside Message / Presence) -/
theorem C01_Err_empty_omitted (e : Err) : encErr e = [] ↔ e.isEmpty = true := by
  unfold encErr; cases e.isEmpty <;> simp

theorem C01_reserialise_Err (ctx : Str) (e : Err) (hw : e.wf = true) :
    (unmarshalWith decErr (marshalWith ctx errElem e)).map (fun p => render (errElem p.1)) = some (render (errElem e)) := by
  have := C01_roundtrip_Err ctx e [] hw
  rw [List.append_nil] at this; rw [this]; rfl

/-! ### the three stanzas -/

/-- type, id, from, to, lang: each attribute is preserved, every subset of present / absent attributes -/
theorem C01_attrs_preserved (a : Attrs) (h : a.wf = true) : decAttrs (viewAttrs (encAttrs a) []) = a := by
  rw [attrs_view a h, decAttrs_encAttrs]

theorem C01_roundtrip_Message (ctx : Str) (m : Message) (rest : List Tok) (hctx : ctxOk ctx = true)
    (hw : m.wf = true) : unmarshalWith decMessage (marshalWith ctx encMessage m ++ rest) = some (m, rest) :=
  unmarshal_marshal ctx _ _ m m rest ⟨_, _, _, rfl⟩ (msg_rt ctx m hctx hw)

theorem C01_reserialise_Message (ctx : Str) (m : Message) (hctx : ctxOk ctx = true) (hw : m.wf = true) :
    (unmarshalWith decMessage (marshalWith ctx encMessage m)).map (fun p => render (encMessage p.1)) =
      some (render (encMessage m)) := by
  have := C01_roundtrip_Message ctx m [] hctx hw
  rw [List.append_nil] at this; rw [this]; rfl

theorem C01_roundtrip_Presence (ctx : Str) (p : Presence) (rest : List Tok) (hctx : ctxOk ctx = true)
    (hw : p.wf = true) : unmarshalWith decPresence (marshalWith ctx encPresence p ++ rest) = some (p, rest) :=
  unmarshal_marshal ctx _ _ p p rest ⟨_, _, _, rfl⟩ (pres_rt ctx p hctx hw)

theorem C01_reserialise_Presence (ctx : Str) (p : Presence) (hctx : ctxOk ctx = true) (hw : p.wf = true) :
    (unmarshalWith decPresence (marshalWith ctx encPresence p)).map (fun q => render (encPresence q.1)) =
      some (render (encPresence p)) := by
  have := C01_roundtrip_Presence ctx p [] hctx hw
  rw [List.append_nil] at this; rw [this]; rfl

/-- IQ with its addressing, error and generic payload (`Any`, a Node tree of the exact class under `ctx`).
`iqCanon` only replaces a pointer to the all-empty Err (which has no wire form) by "no error". -/
theorem C01_roundtrip_IQ (ctx : Str) (q : IQ) (rest : List Tok) (hw : q.wf ctx = true) :
    unmarshalWith decIQ (marshalWith ctx encIQ q ++ rest) = some (iqCanon q, rest) :=
  unmarshal_marshal ctx _ _ q (iqCanon q) rest ⟨_, _, _, rfl⟩ (iq_rt ctx q hw)

private theorem encIQ_canon (q : IQ) : encIQ (iqCanon q) = encIQ q := by
  obtain ⟨a, e, t⟩ := q
  cases e with
  | none => rfl
  | some e =>
    cases h : e.isEmpty with
    | true => simp [iqCanon, encIQ, encErr, h]
    | false => simp [iqCanon, h]

theorem C01_reserialise_IQ (ctx : Str) (q : IQ) (hw : q.wf ctx = true) :
    (unmarshalWith decIQ (marshalWith ctx encIQ q)).map (fun p => render (encIQ p.1)) = some (render (encIQ q)) := by
  have := C01_roundtrip_IQ ctx q [] hw
  rw [List.append_nil] at this; rw [this]
  simp [encIQ_canon]

/-! ### the oracle accepts the model -/
private theorem holdsGen_model {α : Type} [DecidableEq α] (ctx : Str) (enc : α → El) (dec : El → Option α)
    (inQ : Bool) (v : α) (hel : ∃ n a ks, enc v = .elem n a ks)
    (h : inQ = true → dec (view ctx (enc v)) = some v) :
    holdsGen inQ v (enc v) (modelObs ctx enc dec v) = true := by
  unfold holdsGen
  cases hq : inQ with
  | false => rfl
  | true =>
    have hd := h hq
    obtain ⟨n, a, ks, he⟩ := hel
    have hp : parseElem (toks (view ctx (enc v))) = some (view ctx (enc v), []) := by
      have := parse_toks (nsOf ctx n |> fun s => (⟨s, n.loc⟩ : Name))
        ((if n.space = [] then [] else [⟨⟨[], xmlnsL⟩, sanitize n.space⟩]) ++ viewAttrs a []) (viewL (nsOf ctx n) ks) []
      rw [List.append_nil] at this
      rw [he, view_elem]; exact this
    simp [modelObs, hp, hd, shape_view]

private theorem err_wf_of (e : Err) (h1 : errInQ e = true) (h2 : e.reasonNotName = false)
    (h3 : e.reasonShadowed = false) : e.wf = true := by
  simp only [errInQ, Bool.and_eq_true] at h1
  simp only [Err.reasonNotName, Bool.and_eq_false_iff, Bool.not_eq_false', Bool.not_eq_true'] at h2
  simp only [Err.reasonShadowed, Bool.or_eq_false_iff, beq_eq_false_iff_ne, ne_eq] at h3
  simp only [Err.wf, Bool.and_eq_true, Bool.or_eq_true, bne_iff_ne, ne_eq]
  refine ⟨⟨⟨h1.1.1.1, h1.1.1.2⟩, h1.2⟩, ?_⟩
  rcases h2 with h | h
  · left; simpa using h
  · cases hr : e.reason.isEmpty
    · right; exact ⟨⟨h, h3.1⟩, h3.2⟩
    · left; rfl

theorem C01_flat_oracle_accepts_model (ctx : Str) (s : Schema) (v : FlatVal) (hs : s.wf = true) :
    holdsFlat s v (modelObs ctx (encFlat s) (decFlat s) v) = true :=
  holdsGen_model ctx _ _ _ v ⟨_, _, _, rfl⟩ (fun h => flat_rt ctx s v hs h)

theorem C01_SMFailed_oracle_accepts_model (ctx : Str) (v : SMFailed) :
    holdsSMFailed v (modelObs ctx encSMFailed decSMFailed v) = true :=
  holdsGen_model ctx _ _ _ v ⟨_, _, _, rfl⟩ (fun h => smfailed_rt ctx v h)

/-- outside the regions of F-01c and F-01g -/
theorem C01_Message_oracle_accepts_model (ctx : Str) (m : Message) (hctx : ctxOk ctx = true)
    (h2 : m.error.reasonNotName = false) (h3 : m.error.reasonShadowed = false) :
    holdsMessage m (modelObs ctx encMessage decMessage m) = true :=
  holdsGen_model ctx _ _ _ m ⟨_, _, _, rfl⟩ (fun h => by
    simp only [msgInQ, Bool.and_eq_true] at h
    exact msg_rt ctx m hctx (by simp [Message.wf, h.1.1.1.1, h.1.1.1.2, h.1.1.2, h.1.2, err_wf_of _ h.2 h2 h3]))

theorem C01_Presence_oracle_accepts_model (ctx : Str) (p : Presence) (hctx : ctxOk ctx = true)
    (h2 : p.error.reasonNotName = false) (h3 : p.error.reasonShadowed = false) :
    holdsPresence p (modelObs ctx encPresence decPresence p) = true :=
  holdsGen_model ctx _ _ _ p ⟨_, _, _, rfl⟩ (fun h => by
    simp only [presInQ, Bool.and_eq_true] at h
    exact pres_rt ctx p hctx (by simp [Presence.wf, h.1.1.1.1, h.1.1.1.2, h.1.1.2, h.1.2, err_wf_of _ h.2 h2 h3]))

/-! ### negative witnesses -/

/-- F-01c: a reason that is not a name injects markup: 6 `<` for a value with 2 elements. -/
def witC : Err := ⟨404, "cancel".toList, "x><inj/><y".toList, []⟩
theorem C01_witness_F01c :
    witC.reasonNotName = true ∧ errInQ witC = true ∧
    render (errElem witC) =
      "<error code=\"404\" type=\"cancel\"><x><inj/><y xmlns=\"urn:ietf:params:xml:ns:xmpp-stanzas\"></x><inj/><y></error>".toList ∧
    elemCount (errElem witC) = 2 ∧ count '<' (render (errElem witC)) = 8 := by decide

/-- F-01g: the defined condition `gone` is read back as an (empty) error text: the reason is lost. -/
def witG : Err := ⟨404, "modify".toList, "gone".toList, []⟩
theorem C01_witness_F01g :
    witG.reasonShadowed = true ∧ errInQ witG = true ∧
    (unmarshalWith decErr (marshalWith [] errElem witG)).map (·.1) = some ⟨404, "modify".toList, [], []⟩ := by decide

-- non-vacuity: the classes contain metacharacter-heavy values
example : (Message.mk ⟨"chat".toList, "<1>".toList, "a@b/c".toList, [], "en".toList⟩ " s ".toList "a<b>&\"'\r\n]]>".toList []
    ⟨0, "cancel".toList, "item-not-found".toList, "no".toList⟩).wf = true := by decide
example : (Presence.mk ⟨[], [], [], [], []⟩ "away".toList "é".toList (-128) Err.zero).wf = true := by decide
example : (IQ.mk ⟨"get".toList, "1".toList, [], [], "en".toList⟩ (some ⟨0, "cancel".toList, "conflict".toList, []⟩)
    (some (.mk ⟨"u:1".toList, "q".toList⟩ [] [] []))).wf "jabber:client".toList = true := by decide
example : ctxOk "jabber:client".toList = true ∧ ctxOk [] = true ∧ ctxOk "jabber:component:accept".toList = true := by decide
example : (FlatVal.mk [.uintPtr (some 0), .boolPtr none] []).wf schemaSMEnable = true := by decide
example : (FlatVal.mk [.str "PLAIN".toList] "AGFiYwBk".toList).wf schemaSASLAuth = true := by decide
example : (FlatVal.mk [.str "PLAIN".toList] "<x/>".toList).wf schemaSASLAuth = false := by decide

end XmppVerif.Props.C01

#print axioms XmppVerif.Props.C01.C01_roundtrip_flat
#print axioms XmppVerif.Props.C01.C01_reserialise_flat
#print axioms XmppVerif.Props.C01.C01_roundtrip_SMEnable
#print axioms XmppVerif.Props.C01.C01_roundtrip_SMEnabled
#print axioms XmppVerif.Props.C01.C01_roundtrip_SMRequest
#print axioms XmppVerif.Props.C01.C01_roundtrip_SMAnswer
#print axioms XmppVerif.Props.C01.C01_roundtrip_SMResumed
#print axioms XmppVerif.Props.C01.C01_roundtrip_SMResume
#print axioms XmppVerif.Props.C01.C01_roundtrip_SASLAuth
#print axioms XmppVerif.Props.C01.C01_roundtrip_Handshake
#print axioms XmppVerif.Props.C01.C01_roundtrip_SMFailed
#print axioms XmppVerif.Props.C01.C01_reserialise_SMFailed
#print axioms XmppVerif.Props.C01.C01_roundtrip_Err
#print axioms XmppVerif.Props.C01.C01_Err_empty_omitted
#print axioms XmppVerif.Props.C01.C01_reserialise_Err
#print axioms XmppVerif.Props.C01.C01_attrs_preserved
#print axioms XmppVerif.Props.C01.C01_roundtrip_Message
#print axioms XmppVerif.Props.C01.C01_reserialise_Message
#print axioms XmppVerif.Props.C01.C01_roundtrip_Presence
#print axioms XmppVerif.Props.C01.C01_reserialise_Presence
#print axioms XmppVerif.Props.C01.C01_roundtrip_IQ
#print axioms XmppVerif.Props.C01.C01_reserialise_IQ
#print axioms XmppVerif.Props.C01.C01_flat_oracle_accepts_model
#print axioms XmppVerif.Props.C01.C01_SMFailed_oracle_accepts_model
#print axioms XmppVerif.Props.C01.C01_Message_oracle_accepts_model
#print axioms XmppVerif.Props.C01.C01_Presence_oracle_accepts_model
#print axioms XmppVerif.Props.C01.C01_witness_F01c
#print axioms XmppVerif.Props.C01.C01_witness_F01g
