import XmppVerif.Model.C08
/-
C08 - each send puts exactly the serialized stanza on the wire once, even concurrently.
The substance of this property is the atomicity of a single socket Write (assumed) and the fact that every send path
performs exactly one such Write (Tie.C08); the theorems make the consequences explicit.
-/
namespace XmppVerif.Props.C08
open XmppVerif.Model.C08

/-- **One write, exact bytes**: whatever the configuration and whatever the socket answers, a send calls the
socket's Write exactly once, with exactly the serialization. -/
theorem C08_one_write_exact_bytes (c : Cfg) (b : String) (k : Sock) : (send c b k).socketWrites = [b] := by
  cases c with | mk sm lg => cases sm <;> cases lg <;> cases k <;> rfl

/-- **A failed write is reported** to the caller, with or without logger and stream management. -/
theorem C08_error_reported (c : Cfg) (b : String) : (send c b .err).failed = true := by
  cases c with | mk sm lg => cases sm <;> cases lg <;> rfl

/-- a successful write reports no error; the traffic log (if any) gets a copy, the wire bytes do not depend on it -/
theorem C08_ok_independent_of_sm_and_logger (c c' : Cfg) (b : String) :
    (send c b .ok).socketWrites = (send c' b .ok).socketWrites ∧ (send c b .ok).failed = false := by
  cases c with | mk sm lg => cases c' with | mk sm' lg' => cases sm <;> cases lg <;> cases sm' <;> cases lg' <;> exact ⟨rfl, rfl⟩

/-- with the logger a short write is an error too (`io.ErrShortWrite`) -/
theorem C08_short_write_with_logger (sm : Bool) (b : String) : (send ⟨sm, true⟩ b .short).failed = true := by
  cases sm <;> rfl

/-- with stream management exactly the sent stanza is stored, once -/
theorem C08_stored_once (lg : Bool) (b : String) (k : Sock) :
    (send ⟨true, lg⟩ b k).stored = [b] ∧ (send ⟨false, lg⟩ b k).stored = [] := by
  cases lg <;> cases k <;> exact ⟨rfl, rfl⟩

/-- invariant of every concurrent execution: what goroutine g has put on the wire so far, followed by what it still
has to send, is its program - nothing lost, nothing duplicated, nothing reordered, and every wire entry is one whole
stanza of exactly one sender -/
theorem cstep_inv (c : Cfg) (prog : Nat → List String) (s : CSt) (g : Nat)
    (h : ∀ x, proj x s.wire ++ s.todo x = prog x) :
    ∀ x, proj x (cstep c s g).wire ++ (cstep c s g).todo x = prog x := by
  intro x
  unfold cstep
  cases hg : s.todo g with
  | nil => simpa using h x
  | cons b rest =>
    simp only [proj, List.filter_append, List.map_append]
    by_cases hx : x = g
    · subst hx
      have := h x
      simp only [proj, hg] at this
      simp [← this]
    · have hne : (g == x) = false := by simp [Ne.symm hx]
      have := h x
      simp only [proj] at this
      simp [hne, hx, this]

/-- **Concurrent senders**: for every program per goroutine and EVERY schedule, at every moment the wire restricted
to a sender is a prefix of its program in order, and when all have finished it is exactly the program: the wire is
an interleaving of whole stanzas. -/
theorem C08_wire_is_interleaving_of_whole_stanzas (c : Cfg) (prog : Nat → List String) (sched : List Nat) :
    ∀ s : CSt, (∀ x, proj x s.wire ++ s.todo x = prog x) →
      ∀ x, proj x (crun c s sched).wire ++ (crun c s sched).todo x = prog x := by
  induction sched with
  | nil => intro s h; exact h
  | cons g gs ih => intro s h; exact ih _ (cstep_inv c prog s g h)

theorem C08_all_sent_when_done (c : Cfg) (prog : Nat → List String) (sched : List Nat)
    (hdone : ∀ x, (crun c ⟨prog, [], []⟩ sched).todo x = []) :
    ∀ x, proj x (crun c ⟨prog, [], []⟩ sched).wire = prog x := by
  intro x
  have := C08_wire_is_interleaving_of_whole_stanzas c prog sched ⟨prog, [], []⟩ (by intro y; simp [proj]) x
  rw [hdone x] at this
  simpa using this

/-- with stream management the un-acked queue holds the stanzas in exactly the order they reached the wire (push and
write are one step under the queue lock) - the assumption C10 makes about concurrent senders -/
theorem C08_queue_order_is_wire_order (prog : Nat → List String) (sched : List Nat) :
    ∀ s : CSt, s.queue = s.wire.map (·.2) →
      (crun ⟨true, false⟩ s sched).queue = (crun ⟨true, false⟩ s sched).wire.map (·.2) := by
  induction sched with
  | nil => intro s h; exact h
  | cons g gs ih =>
    intro s h
    apply ih
    unfold cstep
    cases hg : s.todo g with
    | nil => exact h
    | cons b rest => simp [h]

-- non-vacuity
example : (crun ⟨true, false⟩ ⟨fun g => if g = 0 then ["a1", "a2"] else if g = 1 then ["b1"] else [], [], []⟩ [0, 1, 1, 0]).wire
    = [(0, "a1"), (1, "b1"), (0, "a2")] := by decide

end XmppVerif.Props.C08

#print axioms XmppVerif.Props.C08.C08_one_write_exact_bytes
#print axioms XmppVerif.Props.C08.C08_error_reported
#print axioms XmppVerif.Props.C08.C08_ok_independent_of_sm_and_logger
#print axioms XmppVerif.Props.C08.C08_short_write_with_logger
#print axioms XmppVerif.Props.C08.C08_stored_once
#print axioms XmppVerif.Props.C08.cstep_inv
#print axioms XmppVerif.Props.C08.C08_wire_is_interleaving_of_whole_stanzas
#print axioms XmppVerif.Props.C08.C08_all_sent_when_done
#print axioms XmppVerif.Props.C08.C08_queue_order_is_wire_order
