import XmppVerif.Props.NegLemmas
import XmppVerif.Model.C04
/-
C04 - no credentials or stanzas without verified TLS unless insecure mode is requested.
-/
set_option linter.unusedSimpArgs false
namespace XmppVerif.Props.C04
open XmppVerif.Model.Neg XmppVerif.Spec.Neg XmppVerif.Model.C04 XmppVerif.Props.Neg

/-- everything written after SASL carries the secure flag of the connection and is sensitive -/
theorem afterAuth_secure (s : Sess) (sec : Bool) (f3 : Features) (sc : Script) :
    ∀ w ∈ (afterAuth s sec f3 sc).writes, w.secure = sec := by
  unfold afterAuth
  cases hsm : f3.sm <;> cases hid : (s.smId != "") <;> cases hrr : sc.resumeReply <;>
    cases hb : sc.bindReply <;> simp [Sess.clearSM] <;>
    cases hm : f3.sessionMandatory <;> cases hs : sc.sessReply <;> simp <;>
    cases hq : s.smReq <;> cases he : sc.enableReply <;> simp

/-- **The gate**: unless the application allowed insecure connections, on every connection and for every server
behaviour, everything except the stream header and `<starttls/>` (that is: `<auth>` with the password, resume, bind,
session, enable - and therefore every later stanza) is written only after a successful `StartTLS()`. -/
theorem C04_gate (cfg : Cfg) (s0 : Sess) (sc : Script) : gateOk cfg (negotiate cfg s0 sc).writes = true := by
  have hg := phase1_gate cfg s0 sc
  unfold negotiate
  cases hp : phase1 cfg s0 sc with
  | stop r => rw [hp] at hg; exact hg
  | go sec f3 w =>
    rw [hp] at hg
    simp only at hg ⊢
    obtain ⟨hw, hsec⟩ := hg
    unfold gateOk at hw ⊢
    cases hins : cfg.insecure with
    | true => rfl
    | false =>
      simp only [hins, Bool.false_or, List.all_append, Bool.and_eq_true] at hw ⊢
      refine ⟨hw, ?_⟩
      rw [List.all_eq_true]
      intro x hx
      have := afterAuth_secure _ _ _ _ x hx
      simp [this, hsec hins]

/-- **Secure only after a verified handshake**: a write is flagged secure only if the server offered STARTTLS,
answered `<proceed/>` and `StartTLS()` succeeded. -/
theorem C04_secure_only_after_tls (cfg : Cfg) (s0 : Sess) (sc : Script) :
    ∀ w ∈ (negotiate cfg s0 sc).writes, w.secure = true →
      ∃ f1, sc.feat1 = some f1 ∧ tlsNegotiated f1 sc = true := by
  have hs := phase1_secure cfg s0 sc
  unfold negotiate
  cases hp : phase1 cfg s0 sc with
  | stop r => rw [hp] at hs; exact hs
  | go sec f3 pre =>
    rw [hp] at hs
    simp only at hs ⊢
    intro w hw hsw
    rcases List.mem_append.mp hw with h | h
    · exact hs.1 (hs.2 w h hsw)
    · have := afterAuth_secure _ _ _ _ w h
      exact hs.1 (by rw [← this]; exact hsw)

/-- `StartTLS()` succeeds only if verification was explicitly disabled or the certificate chains to a configured
root, is within its validity period and is valid for the configured domain (and for `ServerName` when one is set). -/
theorem C04_starttls_verified (t : TlsCfg) (c : Cert) (h : startTLSOk t c = true) :
    t.skipVerify = true ∨ (t.rootsKnowCA = true ∧ c.signedByCA = true ∧ c.unexpired = true ∧
      c.names.contains t.domain = true ∧ c.names.contains (effectiveServerName t) = true) := by
  unfold startTLSOk handshakeVerifies at h
  cases hs : t.skipVerify with
  | true => left; rfl
  | false =>
    right
    simp only [hs, Bool.false_or, Bool.and_eq_true] at h
    obtain ⟨⟨⟨⟨h1, h2⟩, h3⟩, h4⟩, h5⟩ := h
    exact ⟨h1, h2, h3, h5, h4⟩

/-- **Per connection**: in every history of connections on one client (reconnects, resumptions) each connection
satisfies the gate on its own - a TLS session of an earlier connection never counts (fix F-04). -/
theorem C04_history (cfg : Cfg) (scripts : List Script) : ∀ s : Sess,
    ∀ r ∈ connectAll cfg s scripts, gateOk cfg r.writes = true := by
  induction scripts with
  | nil => intro s r hr; simp [connectAll] at hr
  | cons sc rest ih =>
    intro s r hr
    simp only [connectAll, List.mem_cons] at hr
    rcases hr with rfl | hr
    · exact C04_gate cfg s sc
    · exact ih _ r hr

-- non-vacuity: a wrong-host certificate never yields a secure connection unless verification is disabled
example : startTLSOk ⟨false, true, "", "localhost"⟩ ⟨true, true, ["other.example"]⟩ = false := by decide
example : startTLSOk ⟨true, false, "", "localhost"⟩ ⟨false, false, []⟩ = true := by decide
example : startTLSOk ⟨false, true, "alt.example", "localhost"⟩ ⟨true, true, ["alt.example"]⟩ = false := by decide

/-- **The gate on the WebSocket transport**: unless insecure connections were allowed, nothing but the stream
opening is written on a plain `ws:` connection, and whatever is written beyond it on a `wss:` connection is written
under the secure flag. -/
theorem C04_ws_gate (insecure wss : Bool) :
    gateOk ⟨insecure⟩ (wsWrites insecure wss) = true ∧
    ((wsWrites insecure wss).all fun w => !w.secure || wss) = true := by
  cases insecure <;> cases wss <;> decide

end XmppVerif.Props.C04

#print axioms XmppVerif.Props.C04.afterAuth_secure
#print axioms XmppVerif.Props.C04.C04_gate
#print axioms XmppVerif.Props.C04.C04_secure_only_after_tls
#print axioms XmppVerif.Props.C04.C04_starttls_verified
#print axioms XmppVerif.Props.C04.C04_history
#print axioms XmppVerif.Props.C04.C04_ws_gate
