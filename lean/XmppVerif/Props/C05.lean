import XmppVerif.Props.Recv
import XmppVerif.Spec.RecvObs
/-
C05 - every inbound stanza reaches the router exactly once.
-/
namespace XmppVerif.Props.C05
open XmppVerif.Model.Recv XmppVerif.Spec.Recv XmppVerif.Spec.RecvObs XmppVerif.Props.Recv

/-- **Client, exactly once**: for every inbound history and every starting state, the stanzas handed to the router
are exactly the stanzas of the history up to the point where the loop stopped - each once, none dropped, none
invented (listed here in spawn order; the goroutines make the observable order a permutation). -/
theorem C05_client_exactly_once (s : St) (ins : List In) :
    routedStanzas (clientRecv s ins).2 = (processed ins).filterMap stanzaOf :=
  (client_facts ins s).routed

private theorem mem_takeWhile {α} (p : α → Bool) : ∀ (l : List α) (x : α), x ∈ l.takeWhile p → p x = true := by
  intro l
  induction l with
  | nil => intro x h; simp at h
  | cons y ys ih =>
    intro x h
    by_cases hy : p y = true
    · simp only [List.takeWhile, hy] at h
      rcases List.mem_cons.mp h with rfl | h'
      · exact hy
      · exact ih x h'
    · have : p y = false := by simpa using hy
      simp [List.takeWhile, this] at h

private theorem answers_len : ∀ (l : List In), (∀ i ∈ l, stops i = false) → ∀ n,
    (refAnswers n l).length = reqCount l := by
  intro l
  induction l with
  | nil => intro _ n; simp [refAnswers, reqCount]
  | cons i rest ih =>
    intro h n
    have hi := h i (by simp)
    have ih' := ih (fun j hj => h j (List.mem_cons_of_mem _ hj))
    cases i with
    | cut => simp [stops] at hi
    | pkt p f =>
      cases p <;> cases f <;>
        simp_all [refAnswers, reqCount, isStanzaIn, stanzaOf, Pkt.isStanza, isReq, stops, List.filter_cons]

/-- **Every acknowledgement request is answered** (one `<a/>` per `<r/>` whose answer could be written). -/
theorem C05_every_r_answered (s : St) (ins : List In) :
    (answers (clientRecv s ins).2).length = reqCount (processed ins) := by
  rw [(client_facts ins s).answersE]
  apply answers_len
  intro i hi
  have := mem_takeWhile _ _ _ hi
  simpa using this

/-- **Component, in order**: every packet before the stop is routed synchronously in arrival order. -/
theorem C05_component_in_order (ins : List In) :
    routedAll (componentRecv ins) = (processedC ins).flatMap routesOfC :=
  (component_facts ins).routed

/-- Nothing completely received before a connection loss is dropped: if the history is `pre ++ cut :: post` and
`pre` contains nothing that stops the loop, every stanza of `pre` is routed. -/
theorem C05_nothing_before_loss_dropped (s : St) (pre post : List In) (h : ∀ i ∈ pre, stops i = false) :
    routedStanzas (clientRecv s (pre ++ .cut :: post)).2 = pre.filterMap stanzaOf := by
  rw [C05_client_exactly_once]
  congr 1
  unfold processed
  rw [List.takeWhile_append_of_pos (by intro i hi; simp [h i hi])]
  simp [List.takeWhile, stops]

private theorem routed_filter (acts : List Act) :
    (routedAll acts).filter (·.isStanza) = routedStanzas acts := by
  induction acts with
  | nil => rfl
  | cons a rest ih =>
    cases a <;> simp_all [routedAll, routedStanzas, List.filterMap_cons, List.filter_cons]
    split <;> simp_all

private theorem comp_stanzas : ∀ l : List In,
    (l.flatMap routesOfC).filter (·.isStanza) = l.filterMap stanzaOf := by
  intro l
  induction l with
  | nil => rfl
  | cons i rest ih =>
    rw [List.flatMap_cons, List.filter_append, ih, List.filterMap_cons]
    cases i with
    | cut => rfl
    | pkt p f => cases p <;> rfl

/-- The model never panics and its observation satisfies the C05 oracle, for every case (client or component,
stream management negotiated or not, any history). -/
theorem C05_oracle_accepts_model (c : Case) : holdsC05 c (modelSummary c) = true := by
  unfold holdsC05 modelSummary sameRouted expectedStanzas
  by_cases hc : c.client = true
  · simp only [hc, if_true, summarise, Bool.not_true, Bool.false_or, Bool.not_false, Bool.and_true,
      Bool.and_eq_true, decide_eq_true_eq]
    refine ⟨?_, C05_every_r_answered _ _⟩
    rw [routed_filter, C05_client_exactly_once]
    exact List.isPerm_iff.mpr (List.Perm.refl _)
  · have hc' : c.client = false := by simpa using hc
    simp only [hc', summarise, Bool.false_eq_true, if_false, Bool.not_false, Bool.true_or, Bool.and_true,
      decide_eq_true_eq]
    rw [routed_filter]
    have h := C05_component_in_order c.ins
    rw [← routed_filter, h]
    exact comp_stanzas _

-- non-vacuity: a history with every kind of element; the stop is the cut, later stanzas are not routed
example : routedStanzas (clientRecv ⟨"sm", 0⟩
    [.pkt (.msg "1") false, .pkt .r false, .pkt (.a 3) false, .pkt (.nonza "features") false, .pkt (.iq "2") false,
     .cut, .pkt (.msg "never") false]).2 = [.msg "1", .iq "2"] := by decide

end XmppVerif.Props.C05

#print axioms XmppVerif.Props.C05.C05_client_exactly_once
#print axioms XmppVerif.Props.C05.C05_every_r_answered
#print axioms XmppVerif.Props.C05.C05_component_in_order
#print axioms XmppVerif.Props.C05.C05_nothing_before_loss_dropped
#print axioms XmppVerif.Props.C05.C05_oracle_accepts_model
