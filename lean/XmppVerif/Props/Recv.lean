import XmppVerif.Spec.Recv
/-
Theorems about the receive-loop model, shared by C05 / C09 / C12 (their Props files restate the ones they claim).
-/
namespace XmppVerif.Props.Recv
open XmppVerif.Model.Recv XmppVerif.Spec.Recv

/-- Everything the properties observe about a client run, as one record of equations. -/
structure ClientFacts (s : St) (ins : List In) : Prop where
  routed   : routedStanzas (clientRecv s ins).2 = (processed ins).filterMap stanzaOf
  answersE : answers (clientRecv s ins).2 = refAnswers s.inbound (processed ins)
  inbound  : (clientRecv s ins).1.inbound = s.inbound + stanzaCount (processed ins)
  smId     : (clientRecv s ins).1.smId = s.smId
  disc     : discEvents (clientRecv s ins).2 = [(s.smId, s.inbound + stanzaCount (processed ins))]
  errh     : errhCount (clientRecv s ins).2 =
               serrCount (processed ins) + (if isClose (stopper ins) then 0 else 1)
  /-- the keepalive's quit channel is closed - exactly once - and no Disconnected event is raised before that -/
  quit     : ((clientRecv s ins).2.filter (· == .quitClosed)).length = 1 ∧
               discEvents ((clientRecv s ins).2.takeWhile (· != .quitClosed)) = []

private theorem proc_cons_cont (i : In) (rest : List In) (h : stops i = false) :
    processed (i :: rest) = i :: processed rest ∧ stopper (i :: rest) = stopper rest := by
  simp [processed, stopper, List.takeWhile, List.dropWhile, h]

private theorem proc_cons_stop (i : In) (rest : List In) (h : stops i = true) :
    processed (i :: rest) = [] ∧ stopper (i :: rest) = some i := by
  simp [processed, stopper, List.takeWhile, List.dropWhile, h]

/-- a continuing step followed by the rest -/
private theorem facts_cont (s s' : St) (i : In) (rest : List In) (acts : List Act)
    (hstep : clientStep s i = (s', acts, true)) (hstop : stops i = false)
    (hsm : s'.smId = s.smId)
    (hin : s'.inbound = s.inbound + (if isStanzaIn i then 1 else 0))
    (hr : routedStanzas acts = (stanzaOf i).toList)
    (ha : answers acts = (if isReq i then [s.inbound] else []))
    (hns : isReq i = true → isStanzaIn i = false)
    (hd : discEvents acts = [])
    (he : errhCount acts = (if isSerr i then 1 else 0))
    (hq : ∀ a ∈ acts, (a != Act.quitClosed) = true)
    (ih : ClientFacts s' rest) : ClientFacts s (i :: rest) := by
  obtain ⟨hp, hst⟩ := proc_cons_cont i rest hstop
  have hrun : clientRecv s (i :: rest) = ((clientRecv s' rest).1, acts ++ (clientRecv s' rest).2) := by
    simp [clientRecv, hstep]
  have hcnt : stanzaCount (i :: processed rest) = (if isStanzaIn i then 1 else 0) + stanzaCount (processed rest) := by
    unfold stanzaCount; simp only [List.filter_cons]; split <;> simp <;> omega
  have hser : serrCount (i :: processed rest) = (if isSerr i then 1 else 0) + serrCount (processed rest) := by
    unfold serrCount; simp only [List.filter_cons]; split <;> simp <;> omega
  constructor
  · rw [hrun, hp]; simp only [routedStanzas] at hr ⊢
    rw [List.filterMap_append, hr, ← routedStanzas, ih.routed]
    cases hso : stanzaOf i <;> simp [hso]
  · rw [hrun, hp]; simp only [answers] at ha ⊢
    rw [List.filterMap_append, ha, ← answers, ih.answersE, hin]
    simp only [refAnswers]
    by_cases hs : isStanzaIn i = true
    · have : isReq i = false := by
        cases hq : isReq i with
        | false => rfl
        | true => rw [hns hq] at hs; exact absurd hs (by simp)
      simp [hs, this]
    · have hs' : isStanzaIn i = false := by simpa using hs
      by_cases hq : isReq i = true <;> simp [hs', hq]
  · rw [hrun, hp, ih.inbound, hin, hcnt]; omega
  · rw [hrun, ih.smId, hsm]
  · rw [hrun]; simp only [discEvents] at hd ⊢
    rw [List.filterMap_append, hd, ← discEvents, ih.disc, hsm, hin, hp, hcnt]
    simp only [List.nil_append]
    simp; omega
  · rw [hrun, hst, hp, hser]; simp only [errhCount] at he ⊢
    rw [List.filter_append, List.length_append, he, ← errhCount, ih.errh]
    omega
  · rw [hrun]; simp only
    obtain ⟨q1, q2⟩ := ih.quit
    constructor
    · rw [List.filter_append, List.length_append, q1]
      have : acts.filter (· == Act.quitClosed) = [] := by
        apply List.filter_eq_nil_iff.mpr
        intro a ha
        have := hq a ha
        simpa using this
      simp [this]
    · rw [List.takeWhile_append_of_pos hq]
      simp only [discEvents] at hd q2 ⊢
      rw [List.filterMap_append, hd, q2]; rfl

/-- **All client-side facts hold for every inbound history and every starting state.** -/
theorem client_facts (ins : List In) : ∀ s : St, ClientFacts s ins := by
  induction ins with
  | nil =>
    intro s
    constructor <;> simp [clientRecv, clientStep, processed, stopper, routedStanzas, answers, refAnswers,
      stanzaCount, discEvents, errhCount, serrCount, isClose]
  | cons i rest ih =>
    intro s
    cases i with
    | cut =>
      obtain ⟨hp, hst⟩ := proc_cons_stop .cut rest rfl
      constructor <;> simp [clientRecv, clientStep, hp, hst, routedStanzas, answers, refAnswers,
        stanzaCount, discEvents, errhCount, serrCount, isClose]
    | pkt p f =>
      cases p with
      | close =>
        obtain ⟨hp, hst⟩ := proc_cons_stop (.pkt .close f) rest rfl
        constructor <;> simp [clientRecv, clientStep, hp, hst, routedStanzas, answers, refAnswers,
          stanzaCount, discEvents, errhCount, serrCount, isClose]
      | r =>
        cases f with
        | true =>
          obtain ⟨hp, hst⟩ := proc_cons_stop (.pkt .r true) rest rfl
          constructor <;> simp [clientRecv, clientStep, hp, hst, routedStanzas, answers, refAnswers,
            stanzaCount, discEvents, errhCount, serrCount, isClose]
        | false =>
          exact facts_cont s s (.pkt .r false) rest [.answer s.inbound, .route .r] (by simp [clientStep]) rfl rfl
            (by simp [isStanzaIn, stanzaOf, Pkt.isStanza])
            (by simp [routedStanzas, stanzaOf, Pkt.isStanza])
            (by simp [answers, isReq])
            (by simp [isStanzaIn, stanzaOf, Pkt.isStanza])
            (by simp [discEvents]) (by simp [errhCount, isSerr]) (by simp) (ih s)
      | serr =>
        exact facts_cont s s (.pkt .serr f) rest [.route .serr, .streamErrorEv, .errh, .disconnect, .route .serr] (by simp [clientStep]) rfl rfl
          (by simp [isStanzaIn, stanzaOf, Pkt.isStanza])
          (by simp [routedStanzas, stanzaOf, Pkt.isStanza])
          (by simp [answers, isReq]) (by simp [isReq]) (by simp [discEvents]) (by simp [errhCount, isSerr]) (by simp) (ih s)
      | msg id =>
        exact facts_cont s { s with inbound := s.inbound + 1 } (.pkt (.msg id) f) rest [.route (.msg id)]
          (by simp [clientStep, Pkt.isStanza]) rfl rfl
          (by simp [isStanzaIn, stanzaOf, Pkt.isStanza])
          (by simp [routedStanzas, stanzaOf, Pkt.isStanza])
          (by simp [answers, isReq]) (by simp [isReq]) (by simp [discEvents]) (by simp [errhCount, isSerr]) (by simp) (ih _)
      | pres id =>
        exact facts_cont s { s with inbound := s.inbound + 1 } (.pkt (.pres id) f) rest [.route (.pres id)]
          (by simp [clientStep, Pkt.isStanza]) rfl rfl
          (by simp [isStanzaIn, stanzaOf, Pkt.isStanza])
          (by simp [routedStanzas, stanzaOf, Pkt.isStanza])
          (by simp [answers, isReq]) (by simp [isReq]) (by simp [discEvents]) (by simp [errhCount, isSerr]) (by simp) (ih _)
      | iq id =>
        exact facts_cont s { s with inbound := s.inbound + 1 } (.pkt (.iq id) f) rest [.route (.iq id)]
          (by simp [clientStep, Pkt.isStanza]) rfl rfl
          (by simp [isStanzaIn, stanzaOf, Pkt.isStanza])
          (by simp [routedStanzas, stanzaOf, Pkt.isStanza])
          (by simp [answers, isReq]) (by simp [isReq]) (by simp [discEvents]) (by simp [errhCount, isSerr]) (by simp) (ih _)
      | a h =>
        exact facts_cont s s (.pkt (.a h) f) rest [.route (.a h)] (by simp [clientStep, Pkt.isStanza]) rfl rfl
          (by simp [isStanzaIn, stanzaOf, Pkt.isStanza])
          (by simp [routedStanzas, stanzaOf, Pkt.isStanza])
          (by simp [answers, isReq]) (by simp [isReq]) (by simp [discEvents]) (by simp [errhCount, isSerr]) (by simp) (ih s)
      | nonza n =>
        exact facts_cont s s (.pkt (.nonza n) f) rest [.route (.nonza n)] (by simp [clientStep, Pkt.isStanza]) rfl rfl
          (by simp [isStanzaIn, stanzaOf, Pkt.isStanza])
          (by simp [routedStanzas, stanzaOf, Pkt.isStanza])
          (by simp [answers, isReq]) (by simp [isReq]) (by simp [discEvents]) (by simp [errhCount, isSerr]) (by simp) (ih s)

private theorem procC_cons_cont (i : In) (rest : List In) (h : stopsC i = false) :
    processedC (i :: rest) = i :: processedC rest ∧ stopperC (i :: rest) = stopperC rest := by
  simp [processedC, stopperC, List.takeWhile, List.dropWhile, h]

private theorem procC_cons_stop (i : In) (rest : List In) (h : stopsC i = true) :
    processedC (i :: rest) = [] ∧ stopperC (i :: rest) = some i := by
  simp [processedC, stopperC, List.takeWhile, List.dropWhile, h]

structure ComponentFacts (ins : List In) : Prop where
  routed : routedAll (componentRecv ins) = (processedC ins).flatMap routesOfC
  disc   : discEvents (componentRecv ins) = (if isClose (stopperC ins) then [] else [("", 0)])
  errh   : errhCount (componentRecv ins) = serrCount (processedC ins) + (if isClose (stopperC ins) then 0 else 1)

private theorem cfacts_cont (i : In) (rest : List In) (acts : List Act)
    (hstep : componentStep i = (acts, true)) (hstop : stopsC i = false)
    (hr : routedAll acts = routesOfC i) (hd : discEvents acts = [])
    (he : errhCount acts = (if isSerr i then 1 else 0))
    (ih : ComponentFacts rest) : ComponentFacts (i :: rest) := by
  obtain ⟨hp, hst⟩ := procC_cons_cont i rest hstop
  have hrun : componentRecv (i :: rest) = acts ++ componentRecv rest := by simp [componentRecv, hstep]
  have hser : serrCount (i :: processedC rest) = (if isSerr i then 1 else 0) + serrCount (processedC rest) := by
    unfold serrCount; simp only [List.filter_cons]; split <;> simp <;> omega
  constructor
  · rw [hrun, hp]; simp only [routedAll] at hr ⊢
    rw [List.filterMap_append, hr, ← routedAll, ih.routed]; simp
  · rw [hrun, hst]; simp only [discEvents] at hd ⊢
    rw [List.filterMap_append, hd, ← discEvents, ih.disc]; simp
  · rw [hrun, hst, hp, hser]; simp only [errhCount] at he ⊢
    rw [List.filter_append, List.length_append, he, ← errhCount, ih.errh]; omega

/-- Component: every packet before the stop is routed, in arrival order (a stream error twice), and the loss is
reported once (state change + one error callback) unless the server closed the stream. -/
theorem component_facts (ins : List In) : ComponentFacts ins := by
  induction ins with
  | nil => constructor <;> simp [componentRecv, componentStep, processedC, stopperC, routedAll, discEvents,
      errhCount, serrCount, isClose]
  | cons i rest ih =>
    cases i with
    | cut =>
      obtain ⟨hp, hst⟩ := procC_cons_stop .cut rest rfl
      constructor <;> simp [componentRecv, componentStep, hp, hst, routedAll, discEvents, errhCount, serrCount, isClose]
    | pkt p f =>
      cases p with
      | close =>
        obtain ⟨hp, hst⟩ := procC_cons_stop (.pkt .close f) rest rfl
        constructor <;> simp [componentRecv, componentStep, hp, hst, routedAll, discEvents, errhCount, serrCount, isClose]
      | serr =>
        exact cfacts_cont (.pkt .serr f) rest [.route .serr, .streamErrorEv, .errh, .disconnect, .route .serr]
          (by simp [componentStep]) rfl (by simp [routedAll, routesOfC]) (by simp [discEvents])
          (by simp [errhCount, isSerr]) ih
      | msg id =>
        exact cfacts_cont (.pkt (.msg id) f) rest [.route (.msg id)] (by simp [componentStep]) rfl
          (by simp [routedAll, routesOfC]) (by simp [discEvents]) (by simp [errhCount, isSerr]) ih
      | pres id =>
        exact cfacts_cont (.pkt (.pres id) f) rest [.route (.pres id)] (by simp [componentStep]) rfl
          (by simp [routedAll, routesOfC]) (by simp [discEvents]) (by simp [errhCount, isSerr]) ih
      | iq id =>
        exact cfacts_cont (.pkt (.iq id) f) rest [.route (.iq id)] (by simp [componentStep]) rfl
          (by simp [routedAll, routesOfC]) (by simp [discEvents]) (by simp [errhCount, isSerr]) ih
      | r =>
        exact cfacts_cont (.pkt .r f) rest [.route .r] (by simp [componentStep]) rfl
          (by simp [routedAll, routesOfC]) (by simp [discEvents]) (by simp [errhCount, isSerr]) ih
      | a h =>
        exact cfacts_cont (.pkt (.a h) f) rest [.route (.a h)] (by simp [componentStep]) rfl
          (by simp [routedAll, routesOfC]) (by simp [discEvents]) (by simp [errhCount, isSerr]) ih
      | nonza n =>
        exact cfacts_cont (.pkt (.nonza n) f) rest [.route (.nonza n)] (by simp [componentStep]) rfl
          (by simp [routedAll, routesOfC]) (by simp [discEvents]) (by simp [errhCount, isSerr]) ih

end XmppVerif.Props.Recv

#print axioms XmppVerif.Props.Recv.client_facts
#print axioms XmppVerif.Props.Recv.component_facts
