import XmppVerif.Spec.C02
/-
C02 theorems (token level; `armFix` = the loops of /repo after the F-02 fix).
-/
namespace XmppVerif.Props.C02
open XmppVerif.Model.C02 XmppVerif.Spec.C02

/-! ### the pre-fix loops: the two symptoms of F-02 (tests by evaluation, not theorems) -/

def nMsg : Name := ⟨nsClient, "message"⟩
def nX : Name := ⟨"u", "x"⟩
def nBody : Name := ⟨nsClient, "body"⟩

/-- `<message><x xmlns='u'><message xmlns='jabber:client'/></x></message><message/>` -/
def witnessNested : List Tree := [.elem nMsg [] [.elem nX [] [.elem nMsg [] []]], .elem nMsg [] []]
/-- `<message><x xmlns='u'><body>nested</body></x></message>` -/
def witnessBody : List Tree := [.elem nMsg [] [.elem nX [] [.elem nBody [] [.text "nested"]]]]

example : packetsWith armOld 20 (toksL witnessNested) = [.err .early] := by decide
example : packetsWith armOld 20 (toksL witnessBody)
    = [.pkt ⟨.message, "", "", "", "", "nested"⟩, .err .eof] := by decide
example : packets (toksL witnessNested)
    = [.pkt ⟨.message, "", "", "", "", ""⟩, .pkt ⟨.message, "", "", "", "", ""⟩, .err .eof] := by decide
example : packets (toksL witnessBody) = [.pkt ⟨.message, "", "", "", "", ""⟩, .err .eof] := by decide


/-! ### lemmas: lengths, fuel -/

theorem armFix_ne_descend (dec : Dec) (n : Name) : armFix dec n ≠ .descend := by
  cases dec <;> simp only [armFix, armWith] <;> (repeat' split) <;> simp

theorem toks_elem_length (n : Name) (as : List Attr) (kk : List Tree) :
    (toks (.elem n as kk)).length = (toksL kk).length + 2 := by
  simp [toks]

theorem toks_pos (t : Tree) : 1 ≤ (toks t).length := by
  cases t <;> simp [toks]

theorem toksL_cons_length (t : Tree) (ts : List Tree) :
    (toksL (t :: ts)).length = (toks t).length + (toksL ts).length := by
  simp [toksL]

theorem run_length (A : Dec → Name → Arm) : ∀ (f : Nat) (dec : Dec) (self : Name) (d : Nat) (ts r : List Tok) (i : Info),
    run A f dec self d ts = .ok r i → r.length < ts.length := by
  intro f
  induction f with
  | zero => intro dec self d ts r i h; simp [run] at h
  | succ f ih =>
    intro dec self d ts r i h
    cases ts with
    | nil => simp [run] at h
    | cons t ts =>
      cases t with
      | text s =>
        simp only [run] at h
        split at h
        · rename_i r' i' h'
          have := ih _ _ _ _ _ _ h'
          injection h with h1 h2
          subst h1
          simp; omega
        · simp at h
      | misc =>
        simp only [run] at h
        have := ih _ _ _ _ _ _ h
        simp; omega
      | stop n =>
        simp only [run] at h
        split at h
        · split at h
          · simp at h
          · injection h with h1 h2; subst h1; simp
        · split at h
          · simp at h
          · have := ih _ _ _ _ _ _ h
            simp; omega
      | start n as =>
        simp only [run] at h
        split at h
        · have := ih _ _ _ _ _ _ h
          simp; omega
        · simp at h
        · split at h
          · rename_i r' ci h'
            have h1 := ih _ _ _ _ _ _ h'
            split at h
            · split at h
              · rename_i r'' i'' h''
                have h2 := ih _ _ _ _ _ _ h''
                injection h with h3 h4
                subst h3
                simp; omega
              · simp at h
            · simp at h
          · simp at h

/-! ### the central lemma: every decoder of the fixed tree consumes exactly its element -/

/-- what the loop does with the rest once a child has been handled -/
def andThen (k : Info → Info) : Res → Res
  | .ok r i => .ok r (k i)
  | .err e => .err e

mutual
theorem run_tree (t : Tree) : ∀ (dec : Dec) (self : Name) (R : List Tok) (f : Nat), (toks t).length ≤ f + 1 →
    run armFix (f + 1) dec self 0 (toks t ++ R) =
      (match t with
       | .elem n _ kk =>
          if treeOk dec t then andThen (fun i => { i with kids := (n, directText kk) :: i.kids }) (run armFix f dec self 0 R)
          else .err .value
       | .text s => andThen (fun i => { i with text := s ++ i.text }) (run armFix f dec self 0 R)
       | .misc => run armFix f dec self 0 R) := by
  cases t with
  | text s =>
    intro dec self R f _
    simp only [toks, List.cons_append, List.nil_append, run]
    cases run armFix f dec self 0 R <;> simp [andThen]
  | misc =>
    intro dec self R f _
    simp only [toks, List.cons_append, List.nil_append, run]
  | elem n as kk =>
    intro dec self R f hf
    have hk := run_kids kk
    rw [toks_elem_length] at hf
    simp only [toks, List.cons_append, List.append_assoc, List.nil_append, run, treeOk]
    have h3 : armFix dec n = .reject ∨ ∃ c, armFix dec n = .call c := by
      cases h : armFix dec n with
      | descend => exact absurd h (armFix_ne_descend dec n)
      | reject => simp
      | call c => simp
    rcases h3 with harm | ⟨c, harm⟩
    · simp [harm]
    · simp only [harm]
      rw [hk c n R f (by omega)]
      by_cases hko : kidsOk c kk = true
      · by_cases hv : valueOk dec n (infoOf kk) = true
        · have hv' := hv
          simp only [infoOf] at hv'
          simp only [hko, hv', infoOf, if_true, Bool.and_self]
          cases run armFix f dec self 0 R <;> simp [andThen]
        · have hv' := hv
          simp only [infoOf] at hv'
          simp [hko, hv', infoOf]
      · simp [hko]
theorem run_kids (ks : List Tree) : ∀ (dec : Dec) (self : Name) (rest : List Tok) (f : Nat), (toksL ks).length < f →
    run armFix f dec self 0 (toksL ks ++ .stop self :: rest) =
      if kidsOk dec ks then .ok rest (infoOf ks) else .err .value := by
  cases ks with
  | nil =>
    intro dec self rest f hf
    cases f with
    | zero => simp at hf
    | succ f =>
      simp [toksL, run, kidsOk, infoOf, directText, kidInfos, Info.empty]
  | cons t ts =>
    intro dec self rest f hf
    have ht := run_tree t
    have hts := run_kids ts
    cases f with
    | zero => simp at hf
    | succ f =>
      rw [toksL_cons_length] at hf
      have hp := toks_pos t
      simp only [toksL, List.append_assoc]
      rw [ht dec self _ f (by omega), hts dec self rest f (by omega)]
      cases t with
      | text s =>
        simp only [kidsOk, treeOk, Bool.true_and]
        cases kidsOk dec ts <;> simp [andThen, infoOf, directText, kidInfos]
      | misc =>
        simp only [kidsOk, treeOk, Bool.true_and]
        cases kidsOk dec ts <;> simp [infoOf, directText, kidInfos]
      | elem n as kk =>
        simp only [kidsOk]
        by_cases h1 : treeOk dec (.elem n as kk) = true <;> by_cases h2 : kidsOk dec ts = true <;>
          simp [h1, h2, andThen, infoOf, directText, kidInfos]
end

/-! ### repeated NextPacket: the fuel is irrelevant -/

theorem nextPacket_length (A : Dec → Name → Arm) : ∀ (ts r : List Tok) (p : Packet),
    nextPacketWith A ts = (.pkt p, r) → r.length < ts.length := by
  intro ts
  induction ts with
  | nil => intro r p h; simp [nextPacketWith] at h
  | cons t ts ih =>
    intro r p h
    cases t with
    | text s => simp only [nextPacketWith] at h; have := ih _ _ h; simp; omega
    | misc => simp only [nextPacketWith] at h; have := ih _ _ h; simp; omega
    | stop n =>
      simp only [nextPacketWith] at h
      split at h
      · injection h with h1 h2; subst h2; simp
      · have := ih _ _ h; simp; omega
    | start n as =>
      simp only [nextPacketWith] at h
      split at h
      · simp at h
      · split at h
        · rename_i r' i hr
          have := run_length A _ _ _ _ _ _ _ hr
          split at h
          · injection h with h1 h2; subst h2; simp; omega
          · simp at h
        · simp at h

theorem packetsWith_stable (A : Dec → Name → Arm) : ∀ (f g : Nat) (ts : List Tok), ts.length < f → ts.length < g →
    packetsWith A f ts = packetsWith A g ts := by
  intro f
  induction f with
  | zero => intro g ts h; simp at h
  | succ f ih =>
    intro g ts hf hg
    cases g with
    | zero => simp at hg
    | succ g =>
      simp only [packetsWith]
      cases hnp : nextPacketWith A ts with
      | mk res r =>
        cases res with
        | err e => rfl
        | pkt p =>
          have := nextPacket_length A _ _ _ hnp
          simp only
          rw [ih g r (by omega) (by omega)]

theorem packetsWith_succ (A : Dec → Name → Arm) (f : Nat) (ts : List Tok) :
    packetsWith A (f + 1) ts = (match nextPacketWith A ts with
                                | (.pkt p, r) => .pkt p :: packetsWith A f r
                                | (.err e, _) => [.err e]) := rfl

theorem packets_unfold (ts : List Tok) :
    packets ts = (match nextPacket ts with
                  | (.pkt p, r) => .pkt p :: packets r
                  | (.err e, _) => [.err e]) := by
  unfold packets nextPacket
  rw [packetsWith_succ]
  cases hnp : nextPacketWith armFix ts with
  | mk res r =>
    cases res with
    | err e => rfl
    | pkt p =>
      have := nextPacket_length armFix _ _ _ hnp
      simp only
      rw [packetsWith_stable armFix ts.length (r.length + 1) r (by omega) (by omega)]

theorem run_no_fuel (A : Dec → Name → Arm) : ∀ (f : Nat) (dec : Dec) (self : Name) (d : Nat) (ts : List Tok),
    ts.length < f → run A f dec self d ts ≠ .err .fuel := by
  intro f
  induction f with
  | zero => intro dec self d ts h; simp at h
  | succ f ih =>
    intro dec self d ts h
    cases ts with
    | nil => simp [run]
    | cons t ts =>
      have hl : ts.length < f := by simp at h; omega
      cases t with
      | text s =>
        simp only [run]
        have := ih dec self d ts hl
        split
        · simp
        · rename_i e he; intro h2; injection h2 with h3; subst h3; exact this he
      | misc => simp only [run]; exact ih _ _ _ _ hl
      | stop n =>
        simp only [run]
        split
        · split <;> simp
        · split
          · simp
          · exact ih _ _ _ _ hl
      | start n as =>
        simp only [run]
        split
        · exact ih _ _ _ _ hl
        · simp
        · have h1 := ih ‹Dec› n 0 ts hl
          split
          · rename_i r' ci hr
            have hlen := run_length A _ _ _ _ _ _ _ hr
            split
            · have h2 := ih dec self d r' (by omega)
              split
              · simp
              · rename_i e he; intro h3; injection h3 with h4; subst h4; exact h2 he
            · simp
          · rename_i e he; intro h3; injection h3 with h4; subst h4; exact h1 he

theorem nextPacket_no_fuel (A : Dec → Name → Arm) : ∀ (ts r : List Tok) (e : ErrClass),
    nextPacketWith A ts = (.err e, r) → e ≠ .fuel := by
  intro ts
  induction ts with
  | nil => intro r e h; simp [nextPacketWith] at h; simp [← h.1]
  | cons t ts ih =>
    intro r e h
    cases t with
    | text s => simp only [nextPacketWith] at h; exact ih _ _ h
    | misc => simp only [nextPacketWith] at h; exact ih _ _ h
    | stop n =>
      simp only [nextPacketWith] at h
      split at h
      · simp at h
      · exact ih _ _ h
    | start n as =>
      simp only [nextPacketWith] at h
      split at h
      · injection h with h1 h2; injection h1 with h3; subst h3; simp
      · split at h
        · split at h
          · simp at h
          · injection h with h1 h2; injection h1 with h3; subst h3; simp
        · rename_i e' he
          injection h with h1 h2; injection h1 with h3; subst h3
          intro hf; subst hf
          exact run_no_fuel A _ _ _ _ _ (Nat.lt_succ_self _) he

/-! ### NextPacket on one top-level item -/

theorem nextPacket_elem (n : Name) (as : List Attr) (kk : List Tree) (R : List Tok) (k : Kind)
    (hd : dispatch n = some k) :
    nextPacket (toks (.elem n as kk) ++ R) =
      if kidsOk (kindDec k) kk && topAttrsOk k as then (.pkt (mkPacket k as (infoOf kk)), R)
      else (.err .value, []) := by
  simp only [nextPacket, toks, List.cons_append, List.append_assoc, List.nil_append, nextPacketWith, hd]
  rw [run_kids kk _ _ _ _ (by simp only [List.length_append, List.length_cons]; omega)]
  by_cases h1 : kidsOk (kindDec k) kk = true <;> by_cases h2 : topAttrsOk k as = true <;> simp [h1, h2]

theorem nextPacket_unknown (n : Name) (as : List Attr) (kk : List Tree) (R : List Tok) (hd : dispatch n = none) :
    (nextPacket (toks (.elem n as kk) ++ R)).1 = .err .unknown := by
  simp only [nextPacket, toks, List.cons_append, nextPacketWith, hd]

theorem packets_text (s : String) (R : List Tok) : packets (.text s :: R) = packets R := by
  rw [packets_unfold, packets_unfold R]; rfl

theorem packets_misc (R : List Tok) : packets (.misc :: R) = packets R := by
  rw [packets_unfold, packets_unfold R]; rfl

theorem packets_close (R : List Tok) : packets (.stop streamEnd :: R) = .pkt closePacket :: packets R := by
  rw [packets_unfold]; simp [nextPacket, nextPacketWith]

theorem packets_elem (n : Name) (as : List Attr) (kk : List Tree) (R : List Tok) (k : Kind)
    (hd : dispatch n = some k) :
    packets (toks (.elem n as kk) ++ R) =
      if kidsOk (kindDec k) kk && topAttrsOk k as then .pkt (mkPacket k as (infoOf kk)) :: packets R
      else [.err .value] := by
  rw [packets_unfold, nextPacket_elem n as kk R k hd]
  by_cases h : (kidsOk (kindDec k) kk && topAttrsOk k as) = true <;> simp [h]

theorem packets_elem_unknown (n : Name) (as : List Attr) (kk : List Tree) (R : List Tok) (hd : dispatch n = none) :
    packets (toks (.elem n as kk) ++ R) = [.err .unknown] := by
  rw [packets_unfold]
  simp only [nextPacket, toks, List.cons_append, nextPacketWith, hd]

theorem packets_nil : packets [] = [.err .eof] := by decide

/-! ### property theorems -/

/-- C02, main statement. For EVERY list of top-level items whose elements are in the dispatch table and carry values
their Go field types accept (arbitrary descendants otherwise: unknown extensions, any depth, descendants named like the
stanza itself), followed by ANY further tokens: reading yields exactly the expected packet per item, in order, and
then goes on with the remaining tokens as if the items had not been there - every decoder leaves the position
exactly after its element. -/
theorem C02_one_per_element (is : List Item) (rest : List Tok)
    (hd : dispatchable is = true) (ht : typedOk is = true) :
    packets (itemsToks is ++ rest) = expected is ++ packets rest := by
  induction is with
  | nil => simp [itemsToks, expected]
  | cons i is ih =>
    have ht' : itemTyped i = true ∧ typedOk is = true := by simpa [typedOk] using ht
    simp only [itemsToks, List.append_assoc, expected, List.flatMap_cons]
    cases i with
    | close =>
      have hd' : dispatchable is = true := by simpa [dispatchable] using hd
      simp only [Item.toks, List.cons_append, List.nil_append, classifyItem, packets_close]
      rw [ih hd' ht'.2]; rfl
    | tree t =>
      cases t with
      | text s =>
        have hd' : dispatchable is = true := by simpa [dispatchable] using hd
        simp only [Item.toks, toks, List.cons_append, List.nil_append, classifyItem, classify, packets_text]
        rw [ih hd' ht'.2]; rfl
      | misc =>
        have hd' : dispatchable is = true := by simpa [dispatchable] using hd
        simp only [Item.toks, toks, List.cons_append, List.nil_append, classifyItem, classify, packets_misc]
        rw [ih hd' ht'.2]; rfl
      | elem n as kk =>
        have hd' : (dispatch n).isSome = true ∧ dispatchable is = true := by simpa [dispatchable] using hd
        obtain ⟨k, hk⟩ := Option.isSome_iff_exists.mp hd'.1
        have hty : (kidsOk (kindDec k) kk && topAttrsOk k as) = true := by
          have := ht'.1; simpa [itemTyped, hk] using this
        simp only [Item.toks, classifyItem, classify, hk]
        rw [packets_elem n as kk _ k hk, ih hd'.2 ht'.2]
        simp [hty, expected]

/-- a complete stream: the packets, then the end of the input -/
theorem C02_stream (is : List Item) (hd : dispatchable is = true) (ht : typedOk is = true) :
    packets (itemsToks is) = expected is ++ [.err .eof] := by
  have := C02_one_per_element is [] hd ht
  simpa [packets_nil] using this

/-- every expected entry of a dispatchable stream is a packet: one per element / closing tag, none for text -/
theorem C02_expected_all_packets (is : List Item) (hd : dispatchable is = true) :
    ∀ r ∈ expected is, ∃ p, r = .pkt p := by
  induction is with
  | nil => intro r hr; simp [expected] at hr
  | cons i is ih =>
    intro r hr
    simp only [expected, List.flatMap_cons, List.mem_append] at hr
    cases i with
    | close =>
      have hd' : dispatchable is = true := by simpa [dispatchable] using hd
      rcases hr with hr | hr
      · simp [classifyItem] at hr; exact ⟨_, hr⟩
      · exact ih hd' r hr
    | tree t =>
      cases t with
      | text s =>
        have hd' : dispatchable is = true := by simpa [dispatchable] using hd
        rcases hr with hr | hr
        · simp [classifyItem, classify] at hr
        · exact ih hd' r hr
      | misc =>
        have hd' : dispatchable is = true := by simpa [dispatchable] using hd
        rcases hr with hr | hr
        · simp [classifyItem, classify] at hr
        · exact ih hd' r hr
      | elem n as kk =>
        have hd' : (dispatch n).isSome = true ∧ dispatchable is = true := by simpa [dispatchable] using hd
        obtain ⟨k, hk⟩ := Option.isSome_iff_exists.mp hd'.1
        rcases hr with hr | hr
        · simp [classifyItem, classify, hk] at hr; exact ⟨_, hr⟩
        · exact ih hd'.2 r hr

/-- kind and addressing: the packet of a dispatch-table element has the kind the table gives its (namespace, name),
and for stanzas type / id / from / to are the values of the element's OWN attributes with these local names (the last
one if repeated), whatever the element contains; nothing is left over or taken from the following tokens. -/
theorem C02_kind_and_addressing (n : Name) (as : List Attr) (kk : List Tree) (R : List Tok) (k : Kind)
    (hd : dispatch n = some k) (ht : itemTyped (.tree (.elem n as kk)) = true) :
    ∃ p, nextPacket (toks (.elem n as kk) ++ R) = (.pkt p, R) ∧ p.kind = k ∧
      (isStanza k = true → p.type = attrLast "type" as ∧ p.id = attrLast "id" as ∧
        p.frm = attrLast "from" as ∧ p.to = attrLast "to" as) ∧
      (k = .message → p.summary = lastKid msgExt "body" (kidInfos kk)) ∧
      (k = .presence → p.summary = lastKid presExt "status" (kidInfos kk)) := by
  have hty : (kidsOk (kindDec k) kk && topAttrsOk k as) = true := by simpa [itemTyped, hd] using ht
  refine ⟨mkPacket k as (infoOf kk), ?_, ?_, ?_, ?_, ?_⟩
  · rw [nextPacket_elem n as kk R k hd]; simp [hty]
  · unfold mkPacket; split <;> rfl
  · intro hs; simp [mkPacket, hs]
  · intro hk; subst hk; simp [mkPacket, isStanza, summaryOf, infoOf]
  · intro hk; subst hk; simp [mkPacket, isStanza, summaryOf, infoOf]

/-- the attribute loops keep the LAST attribute with the local name -/
theorem attrLast_snoc (k : String) (as : List Attr) (a : Attr) :
    attrLast k (as ++ [a]) = if a.name.loc = k then a.value else attrLast k as := by
  simp [attrLast, List.foldl_append]

/-- the addressing of a stanza does not depend on anything below the element -/
theorem C02_addressing_ignores_content (k : Kind) (as : List Attr) (i i' : Info) :
    (mkPacket k as i).type = (mkPacket k as i').type ∧ (mkPacket k as i).id = (mkPacket k as i').id ∧
    (mkPacket k as i).frm = (mkPacket k as i').frm ∧ (mkPacket k as i).to = (mkPacket k as i').to ∧
    (mkPacket k as i).kind = (mkPacket k as i').kind := by
  unfold mkPacket; split <;> simp

/-- unknown namespace or name: after any prefix of good items, an element outside the dispatch table yields an
error at exactly that position, whatever it contains and whatever follows -/
theorem C02_unknown_is_error (is : List Item) (n : Name) (as : List Attr) (kk : List Tree) (rest : List Tok)
    (hd : dispatchable is = true) (ht : typedOk is = true) (hn : dispatch n = none) :
    packets (itemsToks is ++ (toks (.elem n as kk) ++ rest)) = expected is ++ [.err .unknown] := by
  rw [C02_one_per_element is _ hd ht, packets_elem_unknown n as kk rest hn]

theorem key_ne (n : Name) (s l : String) (h : n.space ≠ s) : ((n.space, n.loc) == (s, l)) = false := by
  rw [beq_eq_false_iff_ne]
  intro h2
  injection h2 with h3 _
  exact h h3

/-- a name whose namespace is none of the five top-level namespaces is not in the table -/
theorem dispatch_unknown_namespace (n : Name)
    (h : n.space ≠ nsStream ∧ n.space ≠ nsSASL ∧ n.space ≠ nsClient ∧ n.space ≠ nsComponent ∧ n.space ≠ nsSM) :
    dispatch n = none := by
  obtain ⟨h1, h2, h3, h4, h5⟩ := h
  simp only [nsStream, nsSASL, nsClient, nsComponent, nsSM] at h1 h2 h3 h4 h5
  simp [dispatch, dispatchTable, List.lookup, Name.key, key_ne n _ _ h1, key_ne n _ _ h2, key_ne n _ _ h3,
    key_ne n _ _ h4, key_ne n _ _ h5]

/-- F-02b (as-is behaviour, outside the region of `C02_one_per_element`): a dispatch-table element carrying a value
its Go field type rejects yields an error, and the stream is lost from there -/
theorem C02_partial_value_rejected (is : List Item) (n : Name) (as : List Attr) (kk : List Tree) (rest : List Tok)
    (k : Kind) (hd : dispatchable is = true) (ht : typedOk is = true) (hn : dispatch n = some k)
    (hbad : itemTyped (.tree (.elem n as kk)) = false) :
    packets (itemsToks is ++ (toks (.elem n as kk) ++ rest)) = expected is ++ [.err .value] := by
  have hty : (kidsOk (kindDec k) kk && topAttrsOk k as) = false := by simpa [itemTyped, hn] using hbad
  rw [C02_one_per_element is _ hd ht, packets_elem n as kk rest k hn]
  simp [hty]

/-- witness for F-02b: `<presence><priority>high</priority></presence>` -/
theorem C02_witness_value_rejected :
    packets (toks (.elem ⟨nsClient, "presence"⟩ [] [.elem ⟨nsClient, "priority"⟩ [] [.text "high"]]))
      = [.err .value] := by decide

/-- the model agrees with the reference on every stream whose dispatch-table elements are well typed (elements
outside the table included: the reference stops with an error there, and so does the model) -/
theorem C02_model_matches_spec (is : List Item) (ht : typedOk is = true) :
    modelObs is = cutAtErr (expected is) := by
  unfold modelObs
  induction is with
  | nil => simp [itemsToks, expected, packets_nil, cutAtErr, obsOf]
  | cons i is ih =>
    have ht' : itemTyped i = true ∧ typedOk is = true := by simpa [typedOk] using ht
    have ih := ih ht'.2
    simp only [itemsToks, expected, List.flatMap_cons]
    cases i with
    | close =>
      simp only [Item.toks, List.cons_append, List.nil_append, classifyItem, packets_close, List.map_cons, cutAtErr,
        obsOf, ih, expected]
    | tree t =>
      cases t with
      | text s =>
        simp only [Item.toks, toks, List.cons_append, List.nil_append, classifyItem, classify, packets_text, ih, expected]
      | misc =>
        simp only [Item.toks, toks, List.cons_append, List.nil_append, classifyItem, classify, packets_misc, ih, expected]
      | elem n as kk =>
        cases hk : dispatch n with
        | none =>
          simp only [Item.toks, classifyItem, classify, hk, packets_elem_unknown n as kk _ hk, List.map_cons,
            List.map_nil, obsOf, List.cons_append, List.nil_append, cutAtErr]
        | some k =>
          have hty : (kidsOk (kindDec k) kk && topAttrsOk k as) = true := by
            have := ht'.1; simpa [itemTyped, hk] using this
          simp only [Item.toks, classifyItem, classify, hk, packets_elem n as kk _ k hk, hty, if_true, List.map_cons,
            obsOf, List.cons_append, List.nil_append, cutAtErr, ih, expected]

/-- the oracle accepts the model's own observation on every well-typed stream -/
theorem C02_oracle_accepts_model (is : List Item) (ht : typedOk is = true) : holds is (modelObs is) = true := by
  simp [holds, C02_model_matches_spec is ht]

/-- the oracle rejects an observation that loses or adds a packet: it accepts exactly one observation per stream -/
theorem C02_oracle_unique (is : List Item) (o : List Obs) : holds is o = true ↔ o = cutAtErr (expected is) := by
  simp [holds]

/-- totality of the MODEL: every token list yields finitely many packets followed by exactly one error, which is
never the fuel marker (the fuel `packets` supplies always suffices), and there are at most as many packets as tokens.
This says nothing about the Go decoder's termination or absence of panics on arbitrary bytes: that is sampled
(truncations, corruptions) under a wall-clock bound. -/
theorem C02_total : ∀ (ts : List Tok), ∃ (ps : List Packet) (e : ErrClass),
    packets ts = ps.map .pkt ++ [.err e] ∧ e ≠ .fuel ∧ ps.length ≤ ts.length := by
  have key : ∀ (m : Nat) (ts : List Tok), ts.length ≤ m → ∃ (ps : List Packet) (e : ErrClass),
      packets ts = ps.map .pkt ++ [.err e] ∧ e ≠ .fuel ∧ ps.length ≤ ts.length := by
    intro m
    induction m with
    | zero =>
      intro ts h
      have : ts = [] := by cases ts <;> simp_all
      subst this
      exact ⟨[], .eof, by simp [packets_nil], by simp, by simp⟩
    | succ m ih =>
      intro ts h
      rw [packets_unfold]
      cases hnp : nextPacket ts with
      | mk res r =>
        cases res with
        | err e => exact ⟨[], e, by simp, nextPacket_no_fuel armFix _ _ _ hnp, by simp⟩
        | pkt p =>
          have hl := nextPacket_length armFix _ _ _ hnp
          obtain ⟨ps, e, h1, h2, h3⟩ := ih r (by omega)
          exact ⟨p :: ps, e, by simp [h1], h2, by simp; omega⟩
  intro ts
  exact key ts.length ts (Nat.le_refl _)


/-- each decoder of the fixed tree - the three stanza loops, Err, TlsStartTLS, SMFailed, Command, PubSubOwner,
PubSubEvent, Forwarded, History, the reflection walks over StreamFeatures / Delegation / MucPresence, Skip and plain
reflection - started after the start element of ANY element with well-typed children, followed by ANY tokens, stops
exactly after the matching end element and keeps only what the element holds at its first level -/
theorem C02_every_decoder_exact (dec : Dec) (self : Name) (ks : List Tree) (rest : List Tok) (f : Nat)
    (hf : (toksL ks).length < f) (hk : kidsOk dec ks = true) :
    run armFix f dec self 0 (toksL ks ++ .stop self :: rest) = .ok rest (infoOf ks) := by
  rw [run_kids ks dec self rest f hf]; simp [hk]

/-! ### the region contains unknown content of any shape -/

mutual
theorem treeOk_skip (t : Tree) : treeOk .skip t = true := by
  cases t with
  | elem n as kk => simp [treeOk, armFix, armWith, kidsOk_skip kk, valueOk]
  | text s => simp [treeOk]
  | misc => simp [treeOk]
theorem kidsOk_skip (ks : List Tree) : kidsOk .skip ks = true := by
  cases ks with
  | nil => simp [kidsOk]
  | cons t ts => simp [kidsOk, treeOk_skip t, kidsOk_skip ts]
end

/-- an element that a loop consumes with `d.Skip()` / decodes as a Node is well typed whatever it contains: any
depth, any names (the stanza's own included), any text -/
theorem C02_region_unknown_content (dec : Dec) (n : Name) (as : List Attr) (kk : List Tree)
    (harm : armFix dec n = .call .skip) (hv : valueOk dec n (infoOf kk) = true) :
    treeOk dec (.elem n as kk) = true := by
  simp [treeOk, harm, kidsOk_skip kk, hv]

/-- in particular every child of a message that is neither a registered extension nor body / thread / subject /
error (the children F-02 was about) -/
theorem C02_region_message_unknown_child (n : Name) (as : List Attr) (kk : List Tree)
    (h1 : n.key ∉ msgExt)
    (h2 : n.loc ≠ "body" ∧ n.loc ≠ "thread" ∧ n.loc ≠ "subject" ∧ n.loc ≠ "error") :
    treeOk .message (.elem n as kk) = true := by
  apply C02_region_unknown_content
  · simp [armFix, armWith, h2.1, h2.2.1, h2.2.2.1, h2.2.2.2]; intro h; exact absurd h h1
  · simp [valueOk]

theorem C02_region_presence_unknown_child (n : Name) (as : List Attr) (kk : List Tree)
    (h1 : n.key ∉ presExt)
    (h2 : n.loc ≠ "show" ∧ n.loc ≠ "status" ∧ n.loc ≠ "priority" ∧ n.loc ≠ "error") :
    treeOk .presence (.elem n as kk) = true := by
  apply C02_region_unknown_content
  · simp [armFix, armWith, h2.1, h2.2.1, h2.2.2.1, h2.2.2.2]; intro h; exact absurd h h1
  · simp [valueOk, h2.2.2.1]

theorem C02_region_iq_unknown_child (n : Name) (as : List Attr) (kk : List Tree)
    (h1 : n.key ∉ iqExt) (h2 : n.loc ≠ "error") :
    treeOk .iq (.elem n as kk) = true := by
  apply C02_region_unknown_content
  · simp [armFix, armWith, h2]; intro h; exact absurd h h1
  · simp [valueOk]

/-! ### the hypotheses are satisfiable, the conclusions non-trivial -/

def nIq : Name := ⟨nsClient, "iq"⟩
/-- message with a same-named descendant under an unknown extension, an iq with a pubsub#owner payload holding an
unknown child with a same-named descendant, stream management elements, inter-stanza whitespace, the closing tag -/
def sample : List Item := [
  .tree (.elem nMsg [⟨⟨"", "id"⟩, "m1"⟩, ⟨⟨"", "to"⟩, "a@b"⟩] [.elem nX [] [.elem nMsg [] [.elem nBody [] [.text "no"]]],
                              .elem nBody [] [.text "yes"]]),
  .tree (.text " "),
  .tree (.elem nIq [⟨⟨"", "type"⟩, "result"⟩, ⟨⟨"", "id"⟩, "first"⟩, ⟨⟨"", "id"⟩, "last"⟩]
    [.elem ⟨nsPSOwner, "pubsub"⟩ [] [.elem nX [] [.elem ⟨nsPSOwner, "pubsub"⟩ [] []]]]),
  .tree (.elem ⟨nsSM, "a"⟩ [⟨⟨"", "h"⟩, "12"⟩] []),
  .tree (.elem ⟨nsClient, "presence"⟩ [] [.elem ⟨nsClient, "priority"⟩ [] [.text " -5 "]]),
  .close]

example : dispatchable sample = true ∧ typedOk sample = true := by decide
example : packets (itemsToks sample) =
    [.pkt ⟨.message, "", "m1", "", "a@b", "yes"⟩, .pkt ⟨.iq, "result", "last", "", "", ""⟩,
     .pkt ⟨.smAnswer, "", "", "", "", ""⟩, .pkt ⟨.presence, "", "", "", "", ""⟩, .pkt closePacket, .err .eof] := by decide
example : dispatch ⟨"urn:u", "message"⟩ = none ∧ dispatch ⟨nsClient, "foo"⟩ = none ∧ dispatch ⟨nsSM, "enable"⟩ = none := by
  decide
example : itemTyped (.tree (.elem ⟨nsSM, "a"⟩ [⟨⟨"", "h"⟩, "x"⟩] [])) = false := by decide

end XmppVerif.Props.C02
#print axioms XmppVerif.Props.C02.C02_one_per_element
#print axioms XmppVerif.Props.C02.C02_stream
#print axioms XmppVerif.Props.C02.C02_every_decoder_exact
#print axioms XmppVerif.Props.C02.C02_region_unknown_content
#print axioms XmppVerif.Props.C02.C02_region_message_unknown_child
#print axioms XmppVerif.Props.C02.C02_region_presence_unknown_child
#print axioms XmppVerif.Props.C02.C02_region_iq_unknown_child
#print axioms XmppVerif.Props.C02.C02_expected_all_packets
#print axioms XmppVerif.Props.C02.C02_kind_and_addressing
#print axioms XmppVerif.Props.C02.attrLast_snoc
#print axioms XmppVerif.Props.C02.C02_addressing_ignores_content
#print axioms XmppVerif.Props.C02.C02_unknown_is_error
#print axioms XmppVerif.Props.C02.dispatch_unknown_namespace
#print axioms XmppVerif.Props.C02.C02_partial_value_rejected
#print axioms XmppVerif.Props.C02.C02_witness_value_rejected
#print axioms XmppVerif.Props.C02.C02_model_matches_spec
#print axioms XmppVerif.Props.C02.C02_oracle_accepts_model
#print axioms XmppVerif.Props.C02.C02_oracle_unique
#print axioms XmppVerif.Props.C02.C02_total
