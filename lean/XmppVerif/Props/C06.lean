import XmppVerif.Spec.C06
/-
C06 - the router runs only the first matching route; unhandled IQ requests get one error.
-/
namespace XmppVerif.Props.C06
open XmppVerif.Model.C06 XmppVerif.Spec.C06

private theorem mia (arr : List String) (v : String) : matchInArray arr v = true ↔ v ∈ arr := by
  unfold matchInArray
  rw [List.any_eq_true]
  constructor
  · rintro ⟨x, hx, he⟩; have : x = v := by simpa using he
    subst this; exact hx
  · intro h; exact ⟨v, h, by simp⟩

/-- Each matcher behaves as documented: packet name; stanza type with `normal` as the default message type;
IQ payload namespace (false without payload or for non-IQ packets). -/
theorem C06_matcher_spec (m : Matcher) (p : Pkt) : m.accepts p = true ↔ MatcherSpec m p := by
  cases m with
  | name n =>
    unfold Matcher.accepts MatcherSpec
    cases hk : p.kind <;> simp [pktName] <;> (try (constructor <;> intro h <;> exact h.symm))
  | stype ts =>
    unfold Matcher.accepts MatcherSpec
    cases hk : p.kind <;> simp [mia]
    by_cases ht : p.type = "" <;> simp [ht]
  | iqns ns =>
    unfold Matcher.accepts MatcherSpec
    cases hk : p.kind <;> cases hp : p.payloadNs <;> simp [mia]

/-- A route accepts iff every one of its matchers does (conjunction). -/
theorem C06_route_spec (r : Route) (p : Pkt) : r.accepts p = true ↔ RouteSpec r p := by
  unfold Route.accepts RouteSpec
  rw [List.all_eq_true]
  constructor
  · intro h m hm; exact (C06_matcher_spec m p).mp (h m hm)
  · intro h m hm; exact (C06_matcher_spec m p).mpr (h m hm)

/-- A route without matchers accepts every packet, stanza or not. -/
theorem C06_catch_all (p : Pkt) : Route.accepts [] p = true := rfl

/-- **First match**: the dispatched index is exactly the first route that accepts. -/
theorem C06_first_match (routes : List Route) (p : Pkt) (i : Nat) :
    dispatch routes p = some i ↔
      ∃ h : i < routes.length, routes[i].accepts p = true ∧ ∀ j (hj : j < i), ¬ routes[j].accepts p = true := by
  unfold dispatch; exact List.findIdx?_eq_some_iff_getElem

theorem C06_no_match (routes : List Route) (p : Pkt) :
    dispatch routes p = none ↔ ∀ r ∈ routes, r.accepts p = false := by
  unfold dispatch; exact List.findIdx?_eq_none_iff

/-- **Exactly one handler**: the handler log of `route` is `[i]` for the dispatched route, or empty; never two. -/
theorem C06_exactly_one_handler (routes : List Route) (p : Pkt) :
    (route routes p).handled = (dispatch routes p).toList := by
  unfold route
  cases dispatch routes p with
  | none => simp; split <;> rfl
  | some i => rfl

/-- **Reply iff**: one feature-not-implemented error exactly for an IQ get/set that matches no route; otherwise
nothing is sent (in particular for unmatched messages, presences, IQ results/errors and non-stanza packets). -/
theorem C06_reply_iff (routes : List Route) (p : Pkt) :
    (route routes p).replies = (if isRequest p && (dispatch routes p).isNone then [notImplemented p] else []) := by
  unfold route isRequest
  cases dispatch routes p with
  | none => simp; split <;> simp_all
  | some i => simp

/-- Shape of the error reply: type `error`, the request's id, from/to swapped, 501 / cancel / feature-not-implemented. -/
theorem C06_reply_shape (p : Pkt) :
    (notImplemented p).type = "error" ∧ (notImplemented p).id = p.id ∧
    (notImplemented p).from_ = p.to ∧ (notImplemented p).to = p.from_ ∧
    (notImplemented p).code = 501 ∧ (notImplemented p).etype = "cancel" ∧
    (notImplemented p).reason = "feature-not-implemented" := by
  simp [notImplemented]

/-- The run-time oracle accepts the model for every route table and every packet. -/
theorem C06_oracle_accepts_model (routes : List Route) (p : Pkt) : holds routes p (route routes p) = true := by
  unfold holds
  rw [C06_exactly_one_handler, C06_reply_iff]
  cases hd : dispatch routes p with
  | none =>
    have := (C06_no_match routes p).mp hd
    simp only [Option.toList_none, Option.isNone_none, Bool.and_true, List.isEmpty_nil, Bool.true_and,
      Bool.and_eq_true, List.all_eq_true, Bool.not_eq_true']
    refine ⟨this, ?_⟩
    split <;> simp
  | some i =>
    obtain ⟨hlt, hacc, hfirst⟩ := (C06_first_match routes p i).mp hd
    simp only [Option.toList_some, Option.isNone_some, Bool.and_false]
    have hget : routes[i]? = some routes[i] := List.getElem?_eq_getElem hlt
    simp only [hget, hacc, Bool.true_and, Bool.and_eq_true, List.all_eq_true, Bool.not_eq_true']
    refine ⟨?_, by simp⟩
    intro r hr
    obtain ⟨j, hj, hjr⟩ := List.getElem_of_mem hr
    rw [List.length_take] at hj
    have hji : j < i := by omega
    have : (routes.take i)[j] = routes[j] := List.getElem_take
    rw [← hjr, this]
    have := hfirst j hji
    simpa using this

-- non-vacuity: a table where the second route is the first match; a catch-all in first position wins
example : route [[.name "message"], [.name "iq", .stype ["get"]], []] ⟨.iq, "get", none, "1", "a", "b"⟩ = ⟨[1], []⟩ := by decide
example : route [[], [.name "iq"]] ⟨.iq, "get", none, "1", "a", "b"⟩ = ⟨[0], []⟩ := by decide
example : route [[.name "message"]] ⟨.iq, "set", some "jabber:iq:version", "7", "a", "b"⟩
    = ⟨[], [⟨"error", "7", "b", "a", 501, "cancel", "feature-not-implemented"⟩]⟩ := by decide
example : route [[.name "message"]] ⟨.iq, "result", none, "7", "a", "b"⟩ = ⟨[], []⟩ := by decide
example : route [[.stype ["normal"]]] ⟨.message, "", none, "", "", ""⟩ = ⟨[0], []⟩ := by decide

end XmppVerif.Props.C06

#print axioms XmppVerif.Props.C06.C06_matcher_spec
#print axioms XmppVerif.Props.C06.C06_route_spec
#print axioms XmppVerif.Props.C06.C06_catch_all
#print axioms XmppVerif.Props.C06.C06_first_match
#print axioms XmppVerif.Props.C06.C06_no_match
#print axioms XmppVerif.Props.C06.C06_exactly_one_handler
#print axioms XmppVerif.Props.C06.C06_reply_iff
#print axioms XmppVerif.Props.C06.C06_reply_shape
#print axioms XmppVerif.Props.C06.C06_oracle_accepts_model
