import XmppVerif.Model.Transport
import XmppVerif.Model.C18
import XmppVerif.Model.Recv
/-
Transport-level facts shared by C05, C12 and C18.
-/
namespace XmppVerif.Props.Transport
open XmppVerif.Model.Transport

/-- **Closing a transport makes the reads fail, whether or not the closing tag could be written** (so that a dead
connection found by the keepalive is noticed by the receive loop). -/
theorem close_fails_reads (writeOk : Bool) :
    readsFail (xmppClose writeOk) = true ∧ readsFail (wsClose writeOk) = true := by
  cases writeOk <;> decide

/-- **WebSocket framing is invisible to the parser**: however the server splits messages into frames, and however
it groups the bytes of the stream into messages, the decoder reads the same byte stream. -/
theorem ws_bytes_eq (msgs : List WsMessage) : wsBytes msgs = (msgs.map List.flatten).flatten := by
  unfold wsBytes wsQueue
  induction msgs with
  | nil => rfl
  | cons m ms ih =>
    simp only [List.map_cons, List.filter_cons, List.flatten_cons]
    by_cases h : m.flatten.isEmpty
    · simp only [h, Bool.not_true, Bool.false_eq_true, ↓reduceIte]
      rw [ih]
      have : m.flatten = [] := List.isEmpty_iff.mp h
      rw [this]; rfl
    · simp only [h, Bool.not_false, ↓reduceIte, List.flatten_cons]
      rw [ih]

/-- two framings of the same bytes are read identically (corollary) -/
theorem ws_framing_irrelevant (a b : List WsMessage)
    (h : (a.map List.flatten).flatten = (b.map List.flatten).flatten) : wsBytes a = wsBytes b := by
  rw [ws_bytes_eq, ws_bytes_eq, h]

open XmppVerif.Model in
/-- **A failed keepalive is reported**: the ticker fires, the k-th ping fails (k ≥ 1, the earlier ones succeed) -
the keepalive pings k times, closes the transport once and returns; closing makes the reads fail whatever happens
to the closing tag; and the receive loop, whose read fails, calls the error handler once, raises one Disconnected
event with the current stream-management state and closes the keepalive's quit channel. -/
theorem dead_connection_reported (k : Nat) (writeOk : Bool) (s : Recv.St) :
    (C18.run C18.init ((List.replicate k [C18.Ev.fire, C18.Ev.iter false true]).flatten ++
        [C18.Ev.fire, C18.Ev.iter true true])).2
      = List.replicate k C18.Act.ping ++ [C18.Act.ping, C18.Act.close, C18.Act.stop] ∧
    readsFail (xmppClose writeOk) = true ∧ readsFail (wsClose writeOk) = true ∧
    (Recv.clientRecv s [Recv.In.cut]).2 = [Recv.Act.quitClosed, Recv.Act.errh, Recv.Act.disconnected s.smId s.inbound] := by
  refine ⟨?_, (close_fails_reads writeOk).1, (close_fails_reads writeOk).2, rfl⟩
  induction k with
  | zero => rfl
  | succ k ih =>
    have : C18.run C18.init ((List.replicate (k + 1) [C18.Ev.fire, C18.Ev.iter false true]).flatten ++
        [C18.Ev.fire, C18.Ev.iter true true]) =
      let r := C18.run C18.init ((List.replicate k [C18.Ev.fire, C18.Ev.iter false true]).flatten ++
        [C18.Ev.fire, C18.Ev.iter true true])
      (r.1, C18.Act.ping :: r.2) := by
      simp only [List.replicate_succ, List.flatten_cons, List.cons_append, List.nil_append]
      rfl
    rw [this]
    simp only [ih, List.replicate_succ, List.cons_append]

example : wsBytes [[[1, 2], [3]], [[]], [[4]]] = [1, 2, 3, 4] := by decide

/-- **Nothing received before the loss is dropped (WebSocket, F-05e)**: whatever is in the transport's queue when
the transport is closed - every message the reader goroutine received completely - is delivered to the receive loop,
in order, BEFORE the read that reports the closed transport; and on an open transport the loop blocks after them. -/
theorem ws_read_delivers_before_error (q : List (List UInt8)) (closed : Bool) :
    wsDrain (q.length + 1) q closed = q.map ReadOut.data ++ [if closed then ReadOut.err else ReadOut.blocks] := by
  induction q with
  | nil => cases closed <;> simp [wsDrain, wsRead]
  | cons m rest ih => simp [wsDrain, wsRead, ih]

example : wsDrain 3 [[1], [2, 3]] true = [.data [1], .data [2, 3], .err] := by decide

end XmppVerif.Props.Transport

#print axioms XmppVerif.Props.Transport.close_fails_reads
#print axioms XmppVerif.Props.Transport.ws_bytes_eq
#print axioms XmppVerif.Props.Transport.ws_framing_irrelevant
#print axioms XmppVerif.Props.Transport.dead_connection_reported
#print axioms XmppVerif.Props.Transport.ws_read_delivers_before_error
