import XmppVerif.Spec.C19
/-
C19 - reconnection back-off delays are bounded and grow exponentially up to the cap.
-/
namespace XmppVerif.Props.C19
open XmppVerif.Model.C19 XmppVerif.Spec.C19

private theorem sd_base_pos (c : Cfg) : 0 < (setDefault c).base := by
  unfold setDefault defaultBase; simp only; split <;> omega
private theorem sd_factor_pos (c : Cfg) : 0 < (setDefault c).factor := by
  unfold setDefault defaultFactor; simp only; split <;> omega
private theorem sd_cap_pos (c : Cfg) : 0 < (setDefault c).cap := by
  unfold setDefault defaultCap; simp only; split <;> omega

private theorem big_of_factor_ge_two (b f k : Nat) (hb : 0 < b) (hf : 2 ≤ f) (hk : 64 ≤ k) :
    2^64 ≤ b * f ^ k := by
  have h1 : 2^64 ≤ 2^k := Nat.pow_le_pow_right (by omega) hk
  have h2 : 2^k ≤ f^k := Nat.pow_le_pow_left hf k
  have h3 : f^k ≤ b * f^k := Nat.le_mul_of_pos_left _ hb
  omega

/-- The executable model (exponent cut at 64) equals the uncut specification min(cap, base*factor^n) for every
attempt number, however large, whenever the cap is a Go `int`. -/
theorem C19_model_eq_spec (c : Cfg) (n : Nat) (hc : (setDefault c).cap < 2^63) :
    durMs c n = specMs c n := by
  unfold durMs specMs
  simp only
  by_cases hn : n ≤ 64
  · rw [Nat.min_eq_left hn]
  · have hn' : 64 ≤ n := by omega
    rw [Nat.min_eq_right hn']
    have hb := sd_base_pos c
    have hf := sd_factor_pos c
    by_cases hf1 : (setDefault c).factor = 1
    · rw [hf1]; simp
    · have hf2 : 2 ≤ (setDefault c).factor := by omega
      have a := big_of_factor_ge_two _ _ 64 hb hf2 (Nat.le_refl _)
      have b := big_of_factor_ge_two _ _ n hb hf2 hn'
      rw [Nat.min_eq_left (by omega), Nat.min_eq_left (by omega)]

/-- Never above the cap (and, in `Nat`, never negative), for every n and every setting. -/
theorem C19_le_cap (c : Cfg) (n : Nat) : specMs c n ≤ (setDefault c).cap := by
  unfold specMs; exact Nat.min_le_left _ _

/-- Equals min(cap, base*factor^n) by definition of the spec; stated for the positive settings the property names. -/
theorem C19_eq_min (b f cp : Nat) (nj : Bool) (n : Nat) (hb : 0 < b) (hf : 0 < f) (hcp : 0 < cp) :
    specMs ⟨b, f, cp, nj⟩ n = min cp (b * f ^ n) := by
  unfold specMs setDefault
  have h1 : b ≠ 0 := by omega
  have h2 : f ≠ 0 := by omega
  have h3 : cp ≠ 0 := by omega
  simp [h1, h2, h3]

/-- Non-decreasing in the attempt number. -/
theorem C19_mono (c : Cfg) (n m : Nat) (h : n ≤ m) : specMs c n ≤ specMs c m := by
  unfold specMs
  simp only
  have hf := sd_factor_pos c
  have hp : (setDefault c).factor ^ n ≤ (setDefault c).factor ^ m := Nat.pow_le_pow_right hf h
  have hm : (setDefault c).base * (setDefault c).factor ^ n ≤ (setDefault c).base * (setDefault c).factor ^ m :=
    Nat.mul_le_mul_left _ hp
  omega

/-- Conversion to nanoseconds does not wrap when the cap is at most 9223372036854 ms (≈ 292 years). -/
theorem C19_ns_exact (c : Cfg) (n : Nat) (hc : (setDefault c).cap ≤ 9223372036854) :
    durNs c n = (specMs c n : Int) * 1000000 := by
  have hc63 : (setDefault c).cap < 2^63 := by omega
  unfold durNs
  rw [C19_model_eq_spec c n hc63]
  have hle := C19_le_cap c n
  unfold toInt64
  simp only
  have hlt : specMs c n * 1000000 < 2^63 := by omega
  have hmod : specMs c n * 1000000 % 2^64 = specMs c n * 1000000 := Nat.mod_eq_of_lt (by omega)
  rw [hmod, if_pos hlt]
  simp

/-- The model's value satisfies the oracle (bounds and, without jitter, the exact formula). -/
theorem C19_val_ok (c : Cfg) (n : Nat) (hc : (setDefault c).cap ≤ 9223372036854) :
    holdsVal c n (durNs c n) = true := by
  rw [C19_ns_exact c n hc]
  have hle := C19_le_cap c n
  unfold holdsVal holdsWith capNs
  simp only [Bool.and_eq_true, decide_eq_true_eq]
  refine ⟨⟨by omega, by omega⟩, ?_⟩
  split <;> simp

/-- With jitter: any draw `0 ≤ j < bound` (the contract of `rand.Intn`) lies between zero and the no-jitter value. -/
theorem C19_jitter_ok (c : Cfg) (n : Nat) (j : Int) (hj : c.noJitter = false)
    (hc : (setDefault c).cap ≤ 9223372036854) (h0 : 0 ≤ j) (h1 : j < durNs c n) :
    holdsVal c n j = true := by
  rw [C19_ns_exact c n hc] at h1
  have hle := C19_le_cap c n
  unfold holdsVal holdsWith capNs
  simp only [hj, Bool.and_eq_true, decide_eq_true_eq]
  refine ⟨⟨h0, by omega⟩, ?_⟩
  simp; omega

/-- The oracle the driver executes is the property's oracle, for every cap that is a Go `int`. -/
theorem C19_exec_oracle_eq (c : Cfg) (n : Nat) (obs : Int) (hc : (setDefault c).cap < 2^63) :
    holdsValExec c n obs = holdsVal c n obs := by
  unfold holdsValExec holdsVal; rw [C19_model_eq_spec c n hc]

/-- Oracle run over a whole history, following the model. -/
def oracleRun (s : St) (o : OState) : List Op → Bool
  | [] => true
  | op :: ops =>
    let (s', v) := step s op
    let (ok, o') := holdsStep o op v
    ok && oracleRun s' o' ops

/-- **Stateful sequence = per-attempt query = spec**: for every history of duration()/durationForAttempt(n)/reset
calls, every value the model returns satisfies the oracle, where the oracle counts the waits since the last reset
itself: the k-th wait equals min(cap, base*factor^(k-1)) and durationForAttempt(n) equals min(cap, base*factor^n). -/
theorem C19_history (ops : List Op) : ∀ (s : St) (o : OState),
    o.cfg = s.cfg → o.count = s.attempt → (setDefault s.cfg).cap ≤ 9223372036854 →
    oracleRun s o ops = true := by
  induction ops with
  | nil => intros; rfl
  | cons op ops ih =>
    intro s o hcfg hcnt hc
    cases op with
    | dur =>
      simp only [oracleRun, step, holdsStep, holdsStepWith, Bool.and_eq_true]
      refine ⟨?_, ih _ _ (by simp [hcfg]) (by simp [hcnt]) (by simpa using hc)⟩
      rw [hcfg, hcnt]; exact C19_val_ok _ _ hc
    | durFor n =>
      simp only [oracleRun, step, holdsStep, holdsStepWith, Bool.and_eq_true]
      refine ⟨?_, ih _ _ hcfg hcnt hc⟩
      rw [hcfg]; exact C19_val_ok _ _ hc
    | reset =>
      simp only [oracleRun, step, holdsStep, holdsStepWith, Bool.true_and]
      exact ih _ _ (by simp [hcfg]) (by simp) (by simpa using hc)

/-- Recorded finding F-19b (known_findings.json): outside the hypothesis of `C19_ns_exact` the property fails.
With Cap = 2^62 ms the int64 product `d * time.Millisecond` wraps (to 0 here). -/
theorem C19_witness_overflow :
    holdsValExec ⟨20, 2, 2^62, true⟩ 100 (durNs ⟨20, 2, 2^62, true⟩ 100) = false ∧
    knownOverflow ⟨20, 2, 2^62, true⟩ = true := by decide

private theorem run_dur_replicate (cfg : Cfg) (k : Nat) : ∀ a : Nat,
    (run ⟨cfg, a⟩ (List.replicate k .dur)).2 = (List.range' a k).map (durNs cfg) := by
  induction k with
  | zero => intro a; rfl
  | succ k ih =>
    intro a
    simp only [List.replicate_succ, run, step, List.range'_succ, List.map_cons]
    rw [ih (a + 1)]

/-- **The reconnection loop of the StreamManager**: after the n-th consecutive failed attempt (n = 0, 1, …) of one
connection loss the wait is drawn below min(3 min, 20 ms · 2^n): the bounds of the first k waits are exactly these
values, in this order - so they never exceed the cap and never decrease. -/
theorem C19_supervisor (k : Nat) :
    supervisorBounds k = (List.range k).map (fun n => ((min 180000 (20 * 2 ^ n) : Nat) : Int) * 1000000) := by
  unfold supervisorBounds
  rw [run_dur_replicate, List.range_eq_range']
  apply List.map_congr_left
  intro n _
  have hc : (setDefault supervisorCfg).cap ≤ 9223372036854 := by decide
  rw [C19_ns_exact supervisorCfg n hc]
  rfl

theorem C19_supervisor_bounded_mono (k i j : Nat) (hij : i ≤ j) (hj : j < k) :
    (supervisorBounds k)[i]! ≤ (supervisorBounds k)[j]! ∧ (supervisorBounds k)[j]! ≤ 180000 * 1000000 := by
  rw [C19_supervisor]
  have hi : i < k := by omega
  simp only [List.getElem!_eq_getElem?_getD, List.getElem?_map, List.getElem?_range hi, List.getElem?_range hj,
    Option.map_some, Option.getD_some]
  have hp : 2 ^ i ≤ 2 ^ j := Nat.pow_le_pow_right (by omega) hij
  constructor <;> omega

-- non-vacuity: the defaults satisfy every hypothesis, and the values are the expected ones
example : (setDefault ⟨0, 0, 0, true⟩).cap ≤ 9223372036854 := by decide
example : specMs ⟨0, 0, 0, true⟩ 0 = 20 ∧ specMs ⟨0, 0, 0, true⟩ 5 = 640 ∧ specMs ⟨0, 0, 0, true⟩ 14 = 180000 := by decide
example : supervisorBounds 4 = [20000000, 40000000, 80000000, 160000000] := by decide
example : (run ⟨⟨0,0,0,true⟩, 0⟩ [.dur, .dur, .durFor 5, .reset, .dur]).2 = [20000000, 40000000, 640000000, 0, 20000000] := by decide

end XmppVerif.Props.C19

#print axioms XmppVerif.Props.C19.C19_model_eq_spec
#print axioms XmppVerif.Props.C19.C19_le_cap
#print axioms XmppVerif.Props.C19.C19_eq_min
#print axioms XmppVerif.Props.C19.C19_mono
#print axioms XmppVerif.Props.C19.C19_ns_exact
#print axioms XmppVerif.Props.C19.C19_val_ok
#print axioms XmppVerif.Props.C19.C19_jitter_ok
#print axioms XmppVerif.Props.C19.C19_exec_oracle_eq
#print axioms XmppVerif.Props.C19.C19_history
#print axioms XmppVerif.Props.C19.C19_witness_overflow
#print axioms XmppVerif.Props.C19.C19_supervisor
#print axioms XmppVerif.Props.C19.C19_supervisor_bounded_mono
