import XmppVerif.Spec.C10
/-
C10 - stream management: sent stanzas are held until acknowledged and retransmitted in order.
-/
namespace XmppVerif.Props.C10
open XmppVerif.Model.C17 (Q QS Entry pushS nextIdS)
open XmppVerif.Model.C10 XmppVerif.Spec.C10

/-- queue content with consecutive sequence numbers starting at `s` -/
def mkQ (s : Nat) : List String → Q
  | [] => []
  | x :: xs => ⟨s, x⟩ :: mkQ (s + 1) xs

private theorem mkQ_append (a b : List String) : ∀ s, mkQ s (a ++ b) = mkQ s a ++ mkQ (s + a.length) b := by
  induction a with
  | nil => intro s; simp [mkQ]
  | cons x xs ih => intro s; simp [mkQ, ih, Nat.add_assoc, Nat.add_comm 1]

private theorem mkQ_stz (l : List String) : ∀ s, (mkQ s l).map (·.stz) = l := by
  induction l with
  | nil => intro s; rfl
  | cons x xs ih => intro s; simp [mkQ, ih]

private theorem mkQ_nil_iff (s : Nat) (l : List String) : mkQ s l = [] ↔ l = [] := by
  cases l <;> simp [mkQ]

private theorem mkQ_getLast (l : List String) : ∀ s, (mkQ s l).getLast? = l.getLast?.map (fun x => ⟨s + l.length - 1, x⟩) := by
  induction l with
  | nil => intro s; rfl
  | cons x xs ih =>
    intro s
    cases xs with
    | nil => simp [mkQ]
    | cons y ys =>
      have := ih (s + 1)
      simp only [mkQ] at this ⊢
      rw [List.getLast?_cons_cons, this, List.getLast?_cons_cons]
      simp only [List.length_cons]
      congr 2
      funext z; congr 1; omega

private theorem dropAcked_mkQ (h : Nat) (l : List String) : ∀ s,
    dropAcked h (mkQ s l) = mkQ (s + min (h + 1 - s) l.length) (l.drop (min (h + 1 - s) l.length)) := by
  induction l with
  | nil => intro s; simp [mkQ, dropAcked]
  | cons x xs ih =>
    intro s
    simp only [mkQ, dropAcked]
    by_cases hs : s ≤ h
    · rw [if_pos hs, ih (s + 1)]
      have e : min (h + 1 - s) (List.length (x :: xs)) = min (h + 1 - (s + 1)) xs.length + 1 := by
        simp only [List.length_cons]; omega
      rw [e, List.drop_succ_cons]
      congr 1; omega
    · rw [if_neg hs]
      have e : min (h + 1 - s) (List.length (x :: xs)) = 0 := by
        have : h + 1 - s = 0 := by omega
        rw [this]; simp
      rw [e]; simp [mkQ]

private theorem ids_mkQ (l : List String) : ∀ s, idsIncreasing ((mkQ s l).map (·.id)) = true := by
  induction l with
  | nil => intro s; rfl
  | cons x xs ih =>
    intro s
    cases xs with
    | nil => rfl
    | cons y ys =>
      have := ih (s + 1)
      simp only [mkQ, List.map_cons, idsIncreasing, Bool.and_eq_true, decide_eq_true_eq] at this ⊢
      exact ⟨by omega, this⟩

/-- The invariant tying the queue to the reference: the queue holds exactly the un-delivered suffix of the accepted
stanzas, numbered by their position on the session, and the counter equals the number accepted. -/
def Inv (st : St) (r : Ref) : Prop :=
  st.q = mkQ (r.delivered + 1) r.held ∧ st.lastId = r.accepted.length ∧ r.delivered ≤ r.accepted.length

theorem C10_inv_init : Inv ⟨[], 0⟩ ⟨[], 0⟩ := by simp [Inv, Ref.held, mkQ]

private theorem push_inv (st : St) (r : Ref) (b : String) (h : Inv st r) :
    Inv (pushS st b) { r with accepted := r.accepted ++ [b] } := by
  obtain ⟨hq, hl, hd⟩ := h
  have hheld : ({ r with accepted := r.accepted ++ [b] } : Ref).held = r.held ++ [b] := by
    simp only [Ref.held]; rw [List.drop_append_of_le_length hd]
  have hlen : r.held.length = r.accepted.length - r.delivered := by simp [Ref.held]
  have hnext : nextIdS st = r.accepted.length + 1 := by
    unfold nextIdS
    rw [hq, mkQ_getLast]
    cases hg : r.held.getLast? with
    | none => simp [hl]
    | some x =>
      have hne : r.held ≠ [] := by intro e; rw [e] at hg; simp at hg
      have : 0 < r.held.length := List.length_pos_iff.mpr hne
      simp only [Option.map_some]
      omega
  refine ⟨?_, ?_, ?_⟩
  · simp only [pushS]
    rw [hheld, mkQ_append, hq, hnext]
    simp only [mkQ]
    congr 3; omega
  · simp [pushS, hnext]
  · simp only [List.length_append, List.length_cons, List.length_nil]; omega

/-- an acknowledgement refines the reference (whether or not the retransmission can be written) -/
theorem C10_ack_refines (st : St) (r : Ref) (a : Nat) (h : Inv st r) :
    (step st (.ack a)).2 = (refStep r (.ack a)).2 ∧ Inv (step st (.ack a)).1 (refStep r (.ack a)).1 := by
    obtain ⟨hq, hl, hd⟩ := h
    have hlen : r.held.length = r.accepted.length - r.delivered := by simp [Ref.held]
    -- how many entries the acknowledgement drops
    have hk : r.delivered + min (a + 1 - (r.delivered + 1)) r.held.length
        = max r.delivered (min a r.accepted.length) := by
      rw [hlen]; omega
    have hdrop : dropAcked a st.q = mkQ (max r.delivered (min a r.accepted.length) + 1)
        (r.accepted.drop (max r.delivered (min a r.accepted.length))) := by
      rw [hq, dropAcked_mkQ]
      have e1 : r.delivered + 1 + min (a + 1 - (r.delivered + 1)) r.held.length
          = max r.delivered (min a r.accepted.length) + 1 := by omega
      rw [e1]
      simp only [Ref.held, List.drop_drop]
      congr 2
    simp only [step, refStep]
    rw [hdrop]
    refine ⟨?_, ?_, hl, ?_⟩
    · simp only [List.isEmpty_iff, mkQ_nil_iff, Ref.held, mkQ_stz]
    · simp [Ref.held]
    · show max r.delivered (min a r.accepted.length) ≤ r.accepted.length; omega


/-- **One step refines the reference**: same writes, and the invariant is preserved, for every operation. -/
theorem C10_step_refines (st : St) (r : Ref) (op : Op) (h : Inv st r) :
    (step st op).2 = (refStep r op).2 ∧ Inv (step st op).1 (refStep r op).1 := by
  cases op with
  | sendStanza b => exact ⟨rfl, push_inv st r b h⟩
  | sendRaw b => exact ⟨rfl, push_inv st r b h⟩
  | sendNonza b => exact ⟨rfl, h⟩
  | sendFail b => exact ⟨rfl, push_inv st r b h⟩
  | req b => exact ⟨rfl, h⟩
  | inbound => exact ⟨rfl, h⟩
  | ack a => exact C10_ack_refines st r a h
  | ackFail a => exact ⟨rfl, (C10_ack_refines st r a h).2⟩
  | freshSession => exact ⟨rfl, C10_inv_init⟩
  | resumed => exact ⟨rfl, h⟩

/-- **Refinement for every outbound history**: whatever sequence of Send / SendRaw / `<r/>` / `<a/>` sends and
acknowledgements with any h (below, equal to or above the number sent, repeated, stale), the writes are those of
the reference and the invariant holds at the end. -/
theorem C10_refines (ops : List Op) : ∀ (st : St) (r : Ref), Inv st r →
    (run st ops).2 = (refRun r ops).2 ∧ Inv (run st ops).1 (refRun r ops).1 := by
  induction ops with
  | nil => intro st r h; exact ⟨rfl, h⟩
  | cons op ops ih =>
    intro st r h
    obtain ⟨hw, hi⟩ := C10_step_refines st r op h
    obtain ⟨h1, h2⟩ := ih (step st op).1 (refStep r op).1 hi
    simp only [run, refRun]
    exact ⟨by rw [hw, h1], h2⟩

/-- From a fresh session: every history refines the reference. -/
theorem C10_refines_fresh (ops : List Op) :
    (run ⟨[], 0⟩ ops).2 = (refRun ⟨[], 0⟩ ops).2 ∧ Inv (run ⟨[], 0⟩ ops).1 (refRun ⟨[], 0⟩ ops).1 :=
  C10_refines ops _ _ C10_inv_init

/-- Held stanzas are exactly the accepted ones not yet delivered (read off the invariant). -/
theorem C10_held_exact (st : St) (r : Ref) (h : Inv st r) : st.q.map (·.stz) = r.accepted.drop r.delivered := by
  rw [h.1, mkQ_stz]; rfl

/-- An acknowledgement discards exactly the stanzas up to min(h, sent), never fewer than already delivered. -/
theorem C10_ack_drops_exactly (r : Ref) (a : Nat) :
    (refStep r (.ack a)).1.delivered = max r.delivered (min a r.accepted.length) ∧
    (refStep r (.ack a)).1.accepted = r.accepted := ⟨rfl, rfl⟩

/-- Retransmission: what is still held goes out in original order followed by exactly one `<r/>`; nothing is
written when nothing is held. -/
theorem C10_retransmit_in_order_then_r (st : St) (r : Ref) (a : Nat) (h : Inv st r) :
    (step st (.ack a)).2 =
      (if (r.accepted.drop (max r.delivered (min a r.accepted.length))).isEmpty then []
       else r.accepted.drop (max r.delivered (min a r.accepted.length)) ++ [rBytes]) := by
  rw [(C10_step_refines st r (.ack a) h).1]; rfl

/-- Acknowledgement requests and answers are written but never held or counted. -/
theorem C10_nonza_never_held (st : St) (b : String) : (step st (.sendNonza b)) = (st, [b]) := rfl

/-- The answer to the server's `<r/>` is written but never held or counted either (it goes through `Send` as an
`SMAnswer`, not through the storing path). -/
theorem C10_answer_never_held (st : St) (b : String) : (step st (.req b)) = (st, [b]) := rfl

/-- The run-time oracle accepts the model at every step of every history. -/
theorem C10_oracle_accepts_model (st : St) (r : Ref) (op : Op) (h : Inv st r) :
    (holdsStep r op ⟨(step st op).2, (step st op).1.q⟩).1 = true := by
  obtain ⟨hw, hi⟩ := C10_step_refines st r op h
  have h1 : ((step st op).1.q.map (·.stz)) = (refStep r op).1.held := by rw [hi.1, mkQ_stz]
  have h2 : idsIncreasing ((step st op).1.q.map (·.id)) = true := by rw [hi.1]; exact ids_mkQ _ _
  cases op <;>
    simp only [holdsStep, Bool.and_eq_true, Bool.or_eq_true, decide_eq_true_eq] <;>
    first
      | exact ⟨⟨hw, h1⟩, h2⟩
      | exact ⟨⟨hw, Or.inl h1⟩, h2⟩

/-- A session enabled anew after a refused resumption starts empty and numbers from 1 again, whatever the old session
held; a confirmed resumption keeps everything. -/
theorem C10_fresh_session_starts_empty (st : St) (b : String) :
    (run st [.freshSession, .sendRaw b, .ack 1]).2 = [[], [b], []] ∧
    (run st [.freshSession, .sendRaw b]).1 = ⟨[⟨1, b⟩], 1⟩ := by
  constructor <;> simp [run, step, pushS, nextIdS, dropAcked]

theorem C10_resumed_keeps_held (st : St) : (step st .resumed) = (st, []) := rfl

-- non-vacuity: the design's witness history [sendRaw x, sendRaw y, ack 1] retransmits y only, then <r/>
example : (run ⟨[], 0⟩ [.sendRaw "x", .sendRaw "y", .ack 1]).2 = [["x"], ["y"], ["y", rBytes]] := by decide
example : (run ⟨[], 0⟩ [.sendRaw "x", .sendRaw "y", .ack 1]).1 = ⟨[⟨2, "y"⟩], 2⟩ := by decide
-- a stale acknowledgement after the queue was drained drops nothing that is newer
example : (run ⟨[], 0⟩ [.sendRaw "x", .ack 1, .sendRaw "y", .ack 1]).1 = ⟨[⟨2, "y"⟩], 2⟩ := by decide
example : (run ⟨[], 0⟩ [.sendRaw "x", .ack 7, .sendNonza "r", .ack 0]).2 = [["x"], [], ["r"], []] := by decide

end XmppVerif.Props.C10

#print axioms XmppVerif.Props.C10.C10_inv_init
#print axioms XmppVerif.Props.C10.C10_step_refines
#print axioms XmppVerif.Props.C10.C10_refines
#print axioms XmppVerif.Props.C10.C10_refines_fresh
#print axioms XmppVerif.Props.C10.C10_held_exact
#print axioms XmppVerif.Props.C10.C10_ack_drops_exactly
#print axioms XmppVerif.Props.C10.C10_retransmit_in_order_then_r
#print axioms XmppVerif.Props.C10.C10_nonza_never_held
#print axioms XmppVerif.Props.C10.C10_answer_never_held
#print axioms XmppVerif.Props.C10.C10_oracle_accepts_model
#print axioms XmppVerif.Props.C10.C10_fresh_session_starts_empty
#print axioms XmppVerif.Props.C10.C10_resumed_keeps_held
