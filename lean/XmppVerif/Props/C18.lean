import XmppVerif.Model.C18
/-
C18 - keepalive: sent at the interval, closes a dead connection, stops with the session.
Logic only; that the ticker fires every `interval` and that `Ping` returns quickly are runtime facts (sampled).
-/
namespace XmppVerif.Props.C18
open XmppVerif.Model.C18

def pings (as : List Act) : Nat := (as.filter (· == .ping)).length
def closes (as : List Act) : Nat := (as.filter (· == .close)).length
def fires (es : List Ev) : Nat := (es.filter (· == .fire)).length
def failedPing : Ev → Bool
  | .iter true _ => true
  | _ => false

def pend (s : St) : Nat := if s.pending then 1 else 0
def isFire : Ev → Nat
  | .fire => 1
  | _ => 0

theorem run_cons (s : St) (e : Ev) (es : List Ev) :
    run s (e :: es) = ((run (step s e).1 es).1, (step s e).2 ++ (run (step s e).1 es).2) := rfl

-- one-step facts: the state has three Boolean fields, every event has at most two Boolean parameters
private theorem step_stopped (s : St) (e : Ev) (h : s.stopped = true) :
    (step s e).2 = [] ∧ (step s e).1.stopped = true := by
  obtain ⟨p, q, st⟩ := s
  simp only at h; subst h
  cases e <;> simp [step]

private theorem step_pings (s : St) (e : Ev) :
    pings (step s e).2 + pend (step s e).1 ≤ isFire e + pend s := by
  obtain ⟨p, q, st⟩ := s
  cases e with
  | fire => cases p <;> cases q <;> cases st <;> simp [step, pings, pend, isFire]
  | closeQuit => cases p <;> cases q <;> cases st <;> simp [step, pings, pend, isFire]
  | iter f c => cases p <;> cases q <;> cases st <;> cases f <;> cases c <;> simp [step, pings, pend, isFire]

private theorem step_closes (s : St) (e : Ev) :
    closes (step s e).2 ≤ 1 ∧ (closes (step s e).2 = 1 → failedPing e = true ∧ (step s e).1.stopped = true) := by
  obtain ⟨p, q, st⟩ := s
  cases e with
  | fire => cases p <;> cases q <;> cases st <;> simp [step, closes, failedPing]
  | closeQuit => cases p <;> cases q <;> cases st <;> simp [step, closes, failedPing]
  | iter f c => cases p <;> cases q <;> cases st <;> cases f <;> cases c <;> simp [step, closes, failedPing]

/-- once the goroutine has returned nothing happens any more: no ping, no close -/
theorem C18_stopped_is_final (es : List Ev) : ∀ s : St, s.stopped = true → (run s es).2 = [] := by
  induction es with
  | nil => intro s _; rfl
  | cons e es ih =>
    intro s h
    obtain ⟨h1, h2⟩ := step_stopped s e h
    rw [run_cons]
    simp only [h1, List.nil_append]
    exact ih _ h2

private theorem fires_cons (e : Ev) (es : List Ev) : fires (e :: es) = isFire e + fires es := by
  cases e <;> simp [fires, isFire, List.filter_cons] <;> omega

/-- **One ping per tick**: in every run, the pings so far plus a still-pending tick never exceed the ticks fired
plus the tick that was pending at the start. -/
theorem C18_ping_per_tick (es : List Ev) : ∀ s : St,
    pings (run s es).2 + pend (run s es).1 ≤ fires es + pend s := by
  induction es with
  | nil => intro s; simp [run, pings, fires]
  | cons e es ih =>
    intro s
    rw [run_cons, fires_cons]
    have h1 := step_pings s e
    have h2 := ih (step s e).1
    simp only [pings, List.filter_append, List.length_append] at h1 h2 ⊢
    omega

/-- **A tick produces a ping**: while the session is up (quit not closed, not stopped) an iteration with a pending
tick pings; with a successful write it keeps running. -/
theorem C18_tick_pings (s : St) (fails choose : Bool) (hp : s.pending = true) (hq : s.quitClosed = false)
    (hs : s.stopped = false) :
    (step s (.iter fails choose)).2.head? = some .ping ∧
    (fails = false → (step s (.iter fails choose)).1.stopped = false) := by
  cases fails <;> simp [step, hp, hq, hs]

/-- **A failed ping closes the transport once and stops**: the first failing ping is followed by exactly one
`close` and the return; nothing happens afterwards, whatever events follow. -/
theorem C18_fail_closes_once_and_stops (s : St) (choose : Bool) (es : List Ev)
    (hp : s.pending = true) (hq : s.quitClosed = false ∨ choose = true) (hs : s.stopped = false) :
    (run s (.iter true choose :: es)).2 = [.ping, .close, .stop] := by
  have hb : (s.pending && (!s.quitClosed || choose)) = true := by
    rcases hq with h | h <;> simp [hp, h]
  have hst : step s (.iter true choose) = ({ s with pending := false, stopped := true }, [.ping, .close, .stop]) := by
    simp [step, hs, hb]
  rw [run_cons, hst]
  simp only
  rw [C18_stopped_is_final es _ rfl]
  rfl

/-- at most one `close` in any run, and only after a failed ping -/
theorem C18_close_at_most_once (es : List Ev) : ∀ s : St,
    closes (run s es).2 ≤ 1 ∧ (closes (run s es).2 = 1 → es.any failedPing = true) := by
  induction es with
  | nil => intro s; simp [run, closes]
  | cons e es ih =>
    intro s
    rw [run_cons]
    obtain ⟨h1, h2⟩ := step_closes s e
    obtain ⟨h3, h4⟩ := ih (step s e).1
    simp only [closes, List.filter_append, List.length_append, List.any_cons, Bool.or_eq_true] at h1 h2 h3 h4 ⊢
    by_cases hc : (List.filter (fun x => x == Act.close) (step s e).2).length = 1
    · -- this step closed: the goroutine has returned, nothing follows
      obtain ⟨hf, hst⟩ := h2 hc
      rw [C18_stopped_is_final es _ hst]
      simp only [List.filter_nil, List.length_nil, Nat.add_zero]
      exact ⟨by omega, fun _ => Or.inl hf⟩
    · have h0 : (List.filter (fun x => x == Act.close) (step s e).2).length = 0 := by omega
      rw [h0]
      simp only [Nat.zero_add]
      exact ⟨h3, fun h => Or.inr (h4 h)⟩

/-- **Stops with the session**: once quit is closed, an iteration that finds no pending tick (or chooses quit)
returns without pinging or closing. -/
theorem C18_quit_stops (s : St) (fails choose : Bool) (hq : s.quitClosed = true) (hs : s.stopped = false)
    (h : s.pending = false ∨ choose = false) :
    step s (.iter fails choose) = ({ s with stopped := true }, [.stop]) := by
  rcases h with h | h <;> simp [step, hq, hs, h]

/-- **After the session ended**: pings after `closeQuit` are bounded by the tick pending at that moment plus the
ticks that fire afterwards; with no further tick (Ping much faster than the interval) that is at most ONE. Zero
cannot be promised: Go's `select` may pick the ready tick over the closed quit channel. -/
theorem C18_at_most_one_after_close (es : List Ev) (s : St) :
    pings (run s es).2 ≤ fires es + pend s := by
  have := C18_ping_per_tick es s
  omega

-- non-vacuity: tick, ping, tick, failing ping closes; quit after that changes nothing
example : (run init [.fire, .iter false false, .fire, .iter true false, .closeQuit, .fire, .iter false true]).2
    = [.ping, .ping, .close, .stop] := by decide
example : (run init [.fire, .closeQuit, .iter false true, .iter false true]).2 = [.ping, .stop] := by decide
example : (run init [.fire, .closeQuit, .iter false false]).2 = [.stop] := by decide

end XmppVerif.Props.C18

#print axioms XmppVerif.Props.C18.C18_stopped_is_final
#print axioms XmppVerif.Props.C18.C18_ping_per_tick
#print axioms XmppVerif.Props.C18.C18_tick_pings
#print axioms XmppVerif.Props.C18.C18_fail_closes_once_and_stops
#print axioms XmppVerif.Props.C18.C18_close_at_most_once
#print axioms XmppVerif.Props.C18.C18_quit_stops
#print axioms XmppVerif.Props.C18.C18_at_most_one_after_close
