import XmppVerif.Spec.C20
/-
C20 - address normalisation yields a dialable host:port and picks the right transport.
-/
namespace XmppVerif.Props.C20
open XmppVerif.Model.C20 XmppVerif.Spec.C20

private theorem lastIndex_absent (c : Char) : ∀ s : List Char, c ∉ s → lastIndex c s = -1 := by
  intro s
  induction s with
  | nil => intro _; rfl
  | cons x xs ih =>
    intro h
    have hx : x ≠ c := fun e => h (by simp [e])
    have hxs : c ∉ xs := fun m => h (List.mem_cons_of_mem _ m)
    simp [lastIndex, ih hxs, hx]

private theorem lastIndex_lt (c : Char) : ∀ s : List Char, lastIndex c s < s.length ∧ -1 ≤ lastIndex c s := by
  intro s
  induction s with
  | nil => simp [lastIndex]
  | cons x xs ih =>
    simp only [lastIndex, List.length_cons]
    split
    · omega
    · split <;> omega

private theorem lastIndex_split (c : Char) (t : List Char) (ht : c ∉ t) :
    ∀ s : List Char, lastIndex c (s ++ c :: t) = s.length := by
  intro s
  induction s with
  | nil => simp [lastIndex, lastIndex_absent c t ht]
  | cons x xs ih =>
    simp only [List.cons_append, lastIndex, ih, List.length_cons]
    have : (0 : Int) ≤ (xs.length : Int) := by omega
    simp [this]

private theorem noneOf_not_mem {bad s : List Char} {c : Char} (h : noneOf bad s = true) (hc : c ∈ bad) : c ∉ s := by
  intro hm
  unfold noneOf at h
  have := List.all_eq_true.mp h c hm
  simp [hc] at this

private theorem digits_not_mem {p : List Char} {c : Char} (h : isDigits p = true) (hc : c.isDigit = false) : c ∉ p := by
  intro hm
  unfold isDigits at h
  simp only [Bool.and_eq_true] at h
  have := List.all_eq_true.mp h.2 c hm
  simp [hc] at this

private theorem count_zero_of_not_mem {c : Char} {s : List Char} (h : c ∉ s) : s.count c = 0 :=
  List.count_eq_zero.mpr h

private theorem head_ne_of_not_mem {c : Char} {s t : List Char} (h : c ∉ s) (ht : t.head? ≠ some c) :
    (s ++ t).head? ≠ some c := by
  cases s with
  | nil => simpa using ht
  | cons x xs =>
    simp only [List.cons_append, List.head?_cons, ne_eq, Option.some.injEq]
    intro e; exact h (by simp [e])

private theorem contains_false {c : Char} {s : List Char} (h : c ∉ s) : s.contains c = false := by
  simp [h]

private theorem contains_true_of_count {s : List Char} (h : 2 ≤ s.count ':') : s.contains ':' = true := by
  have : ':' ∈ s := List.count_pos_iff.mp (by omega)
  simp [this]

private theorem ep_plain0 (addr : List Char) (q : Nat) (hh : addr.head? ≠ some '[') (hc : addr.count ':' = 0) :
    ensurePort addr q = addr ++ ':' :: itoa q := by
  unfold ensurePort; rw [if_neg hh, hc]; try rfl
private theorem ep_plain1 (addr : List Char) (q : Nat) (hh : addr.head? ≠ some '[') (hc : addr.count ':' = 1) :
    ensurePort addr q = addr := by
  unfold ensurePort; rw [if_neg hh, hc]; try rfl
private theorem ep_plain2 (addr : List Char) (q k : Nat) (hh : addr.head? ≠ some '[') (hc : addr.count ':' = k + 2) :
    ensurePort addr q = '[' :: addr ++ ']' :: ':' :: itoa q := by
  unfold ensurePort; rw [if_neg hh, hc]; try rfl
private theorem ep_br_le (addr : List Char) (q : Nat) (hh : addr.head? = some '[')
    (h : lastIndex ':' addr ≤ lastIndex ']' addr) : ensurePort addr q = addr ++ ':' :: itoa q := by
  unfold ensurePort; rw [if_pos hh, if_pos h]
private theorem ep_br_gt (addr : List Char) (q : Nat) (hh : addr.head? = some '[')
    (h : ¬ lastIndex ':' addr ≤ lastIndex ']' addr) : ensurePort addr q = addr := by
  unfold ensurePort; rw [if_pos hh, if_neg h]

private theorem join_plain (host p : List Char) (c1 : ':' ∉ host) (c4 : '%' ∉ host) :
    joinHostPort host p = host ++ ':' :: p := by
  unfold joinHostPort; simp [c1, c4]
private theorem join_v6 (host p : List Char) (c1 : ':' ∈ host) :
    joinHostPort host p = '[' :: host ++ ']' :: ':' :: p := by
  unfold joinHostPort; simp [c1]

private theorem mem_of_count {s : List Char} (h : 2 ≤ s.count ':') : ':' ∈ s :=
  List.count_pos_iff.mp (by omega)

/-- shape facts about "[host]:port" -/
private theorem br_port_gt (host p : List Char) (d1 : ':' ∉ p) (d3 : ']' ∉ p) :
    ¬ lastIndex ':' (('[' :: host ++ [']']) ++ ':' :: p) ≤ lastIndex ']' (('[' :: host ++ [']']) ++ ':' :: p) := by
  have e2 : ('[' :: host ++ [']']) ++ ':' :: p = ('[' :: host) ++ ']' :: (':' :: p) := by simp
  have hc : lastIndex ':' (('[' :: host ++ [']']) ++ ':' :: p) = (('[' :: host ++ [']']).length : Int) :=
    lastIndex_split ':' p d1 _
  have hb' : lastIndex ']' (('[' :: host ++ [']']) ++ ':' :: p) = (('[' :: host).length : Int) := by
    rw [e2]; exact lastIndex_split ']' (':' :: p) (by simp [d3]) _
  rw [hc, hb']; simp only [List.length_append, List.length_cons, List.length_nil]; omega

private theorem br_le (host : List Char) :
    lastIndex ':' ('[' :: host ++ [']']) ≤ lastIndex ']' ('[' :: host ++ [']']) := by
  have hr : lastIndex ']' ('[' :: host ++ [']']) = (('[' :: host).length : Int) :=
    lastIndex_split ']' [] (by simp) ('[' :: host)
  have hl := (lastIndex_lt ':' ('[' :: host ++ [']'])).1
  rw [hr]; simp only [List.length_append, List.length_cons, List.length_nil] at hl ⊢; omega

/-- **Dial address**: for every well-formed address form (DNS / IPv4 / bare or bracketed IPv6, with or without a
port text) the normalised address is exactly `JoinHostPort(host, port)`, with 5222 only when no port was written. -/
theorem C20_dial (f : Form) (h : f.wf = true) : ensurePort f.render defaultPort = f.expected := by
  obtain ⟨kind, host, port⟩ := f
  unfold Form.wf at h
  simp only [Bool.and_eq_true] at h
  obtain ⟨hp, hk⟩ := h
  cases kind with
  | plain =>
    simp only at hk
    have c1 : ':' ∉ host := noneOf_not_mem hk (by simp)
    have c2 : '[' ∉ host := noneOf_not_mem hk (by simp)
    have c4 : '%' ∉ host := noneOf_not_mem hk (by simp)
    cases port with
    | none =>
      have hh : host.head? ≠ some '[' := by
        intro e; exact c2 (List.mem_of_mem_head? e)
      show ensurePort host defaultPort = joinHostPort host (itoa defaultPort)
      rw [ep_plain0 host _ hh (count_zero_of_not_mem c1), join_plain host _ c1 c4]
    | some p =>
      simp only at hp
      have d1 : ':' ∉ p := digits_not_mem hp (by decide)
      have hh : (host ++ ':' :: p).head? ≠ some '[' := head_ne_of_not_mem c2 (by simp)
      have hc : (host ++ ':' :: p).count ':' = 1 := by
        simp [List.count_append, count_zero_of_not_mem c1, count_zero_of_not_mem d1]
      show ensurePort (host ++ ':' :: p) defaultPort = joinHostPort host p
      rw [ep_plain1 _ _ hh hc, join_plain host _ c1 c4]
  | v6bare =>
    simp only [Bool.and_eq_true, decide_eq_true_eq] at hk
    obtain ⟨⟨hcnt, hb⟩, hnone⟩ := hk
    have c2 : '[' ∉ host := noneOf_not_mem hb (by simp)
    cases port with
    | some p => simp at hnone
    | none =>
      have hh : host.head? ≠ some '[' := by
        intro e; exact c2 (List.mem_of_mem_head? e)
      have hk2 : host.count ':' = (host.count ':' - 2) + 2 := by omega
      show ensurePort host defaultPort = joinHostPort host (itoa defaultPort)
      rw [ep_plain2 host _ _ hh hk2, join_v6 host _ (mem_of_count hcnt)]
  | v6br =>
    simp only [Bool.and_eq_true, decide_eq_true_eq] at hk
    obtain ⟨hcnt, hb⟩ := hk
    cases port with
    | none =>
      show ensurePort ('[' :: host ++ [']']) defaultPort = joinHostPort host (itoa defaultPort)
      rw [ep_br_le _ _ (by simp) (br_le host), join_v6 host _ (mem_of_count hcnt)]
      simp
    | some p =>
      simp only at hp
      have d1 : ':' ∉ p := digits_not_mem hp (by decide)
      have d3 : ']' ∉ p := digits_not_mem hp (by decide)
      show ensurePort (('[' :: host ++ [']']) ++ ':' :: p) defaultPort = joinHostPort host p
      rw [ep_br_gt _ _ (by simp) (br_port_gt host p d1 d3), join_v6 host _ (mem_of_count hcnt)]
      simp

/-- The default port is added only when none was written: with a port text the result is the input (for plain
hosts and bracketed IPv6), i.e. host and explicit port are kept verbatim, whatever the default would be. -/
theorem C20_explicit_port_kept (f : Form) (h : f.wf = true) (p : List Char) (hp : f.port = some p)
    (q : Nat) : ensurePort f.render q = f.render := by
  obtain ⟨kind, host, port⟩ := f
  simp only at hp; subst hp
  unfold Form.wf at h
  simp only [Bool.and_eq_true] at h
  obtain ⟨hp, hk⟩ := h
  have d1 : ':' ∉ p := digits_not_mem hp (by decide)
  have d3 : ']' ∉ p := digits_not_mem hp (by decide)
  cases kind with
  | plain =>
    simp only at hk
    have c1 : ':' ∉ host := noneOf_not_mem hk (by simp)
    have c2 : '[' ∉ host := noneOf_not_mem hk (by simp)
    have hh : (host ++ ':' :: p).head? ≠ some '[' := head_ne_of_not_mem c2 (by simp)
    have hc : (host ++ ':' :: p).count ':' = 1 := by
      simp [List.count_append, count_zero_of_not_mem c1, count_zero_of_not_mem d1]
    show ensurePort (host ++ ':' :: p) q = host ++ ':' :: p
    exact ep_plain1 _ _ hh hc
  | v6bare => simp at hk
  | v6br =>
    show ensurePort (('[' :: host ++ [']']) ++ ':' :: p) q = ('[' :: host ++ [']']) ++ ':' :: p
    exact ep_br_gt _ _ (by simp) (br_port_gt host p d1 d3)

/-- Transport choice: a client gets the WebSocket transport exactly for ws:/wss: addresses, a component is refused
exactly for those, and in every other case the XMPP transport dials the normalised address. -/
theorem C20_transport (addr : List Char) :
    (clientTransport addr = .ws ↔ isWs addr = true) ∧
    (componentTransport addr = .refused ↔ isWs addr = true) ∧
    (isWs addr = false → clientTransport addr = .xmpp (ensurePort addr 5222) ∧
                         componentTransport addr = .xmpp (ensurePort addr 5222)) := by
  unfold clientTransport componentTransport defaultPort
  cases h : isWs addr <;> simp

/-- Through the constructor: every well-formed form that does not render with a ws:/wss: prefix is dialled at
`JoinHostPort(host, port)`. -/
theorem C20_constructor (f : Form) (h : f.wf = true) (hw : isWs f.render = false) :
    clientTransport f.render = .xmpp f.expected ∧ componentTransport f.render = .xmpp f.expected := by
  have := (C20_transport f.render).2.2 hw
  rw [show (5222 : Nat) = defaultPort from rfl, C20_dial f h] at this
  exact this

/-- Recorded finding F-20a (known_findings.json): a host named `ws` with a port is a well-formed form, yet it
selects the WebSocket transport instead of being dialled at ws:5222. -/
theorem C20_witness_ws_host :
    (Form.mk .plain "ws".toList (some "5222".toList)).wf = true ∧
    clientTransport (Form.mk .plain "ws".toList (some "5222".toList)).render = .ws ∧
    knownWsHost (Form.mk .plain "ws".toList (some "5222".toList)) = true := by decide

/-- Outside that region (and for plain hosts not starting like the scheme) no well-formed form is mistaken:
a well-formed form renders with a ws:/wss: prefix only if its host is `ws`/`wss` followed by a port, or starts with
`ws:` itself (impossible for plain hosts, which contain no colon). -/
theorem C20_ws_only_known (f : Form) (h : f.wf = true) (hk : f.kind = .plain) (hw : isWs f.render = true) :
    knownWsHost f = true := by
  obtain ⟨kind, host, port⟩ := f
  simp only at hk; subst hk
  unfold Form.wf at h
  simp only [Bool.and_eq_true] at h
  obtain ⟨_, hk⟩ := h
  have c1 : ':' ∉ host := noneOf_not_mem hk (by simp)
  unfold isWs Form.render at hw
  unfold knownWsHost
  cases port with
  | none =>
    simp only [Bool.or_eq_true] at hw
    exfalso
    rcases hw with hw | hw
    · obtain ⟨t, ht⟩ := List.isPrefixOf_iff_prefix.mp hw
      exact c1 (by rw [← ht]; simp)
    · obtain ⟨t, ht⟩ := List.isPrefixOf_iff_prefix.mp hw
      exact c1 (by rw [← ht]; simp)
  | some p =>
    simp only [Bool.or_eq_true] at hw
    simp only [Option.isSome_some, Bool.and_true, beq_self_eq_true, Bool.true_and, Bool.or_eq_true, beq_iff_eq]
    rcases hw with hw | hw
    · left
      match host, c1, hw with
      | [], _, hw => simp [List.isPrefixOf] at hw
      | [a], _, hw => simp [List.isPrefixOf] at hw
      | [a, b], _, hw =>
        simp [List.isPrefixOf] at hw
        obtain ⟨h1, h2⟩ := hw; subst h1; subst h2; rfl
      | a :: b :: c :: r, c1, hw =>
        simp [List.isPrefixOf] at hw
        exfalso; exact c1 (by simp [← hw.2.2])
    · right
      match host, c1, hw with
      | [], _, hw => simp [List.isPrefixOf] at hw
      | [a], _, hw => simp [List.isPrefixOf] at hw
      | [a, b], _, hw => simp [List.isPrefixOf] at hw
      | [a, b, c], _, hw =>
        simp [List.isPrefixOf] at hw
        obtain ⟨h1, h2, h3⟩ := hw; subst h1; subst h2; subst h3; rfl
      | a :: b :: c :: d :: r, c1, hw =>
        simp [List.isPrefixOf] at hw
        exfalso; exact c1 (by simp [← hw.2.2.2])

-- non-vacuity and concrete shapes
example : (Form.mk .plain "example.org".toList none).wf = true := by decide
example : (Form.mk .v6br "::ffff:1.2.3.4".toList (some "5269".toList)).wf = true := by decide
example : ensurePort "fe80::1%eth0".toList 5222 = "[fe80::1%eth0]:5222".toList := by decide
example : ensurePort "[::1]".toList 5222 = "[::1]:5222".toList := by decide
example : ensurePort "[::1]:80".toList 5222 = "[::1]:80".toList := by decide
example : ensurePort "host".toList 5222 = "host:5222".toList := by decide

end XmppVerif.Props.C20

#print axioms XmppVerif.Props.C20.C20_dial
#print axioms XmppVerif.Props.C20.C20_explicit_port_kept
#print axioms XmppVerif.Props.C20.C20_transport
#print axioms XmppVerif.Props.C20.C20_constructor
#print axioms XmppVerif.Props.C20.C20_witness_ws_host
#print axioms XmppVerif.Props.C20.C20_ws_only_known

set_option linter.unusedSimpArgs false
namespace XmppVerif.Props.C20
open XmppVerif.Model.C20 XmppVerif.Spec.C20

private theorem splitLast_none (c : Char) : ∀ s : List Char, c ∉ s → splitLast c s = none := by
  intro s
  induction s with
  | nil => intro _; rfl
  | cons x xs ih =>
    intro h
    have hx : x ≠ c := fun e => h (by simp [e])
    have hxs : c ∉ xs := fun m => h (List.mem_cons_of_mem _ m)
    simp [splitLast, ih hxs, hx]

private theorem splitLast_spec (c : Char) (b : List Char) (hb : c ∉ b) :
    ∀ a : List Char, splitLast c (a ++ c :: b) = some (a, b) := by
  intro a
  induction a with
  | nil => simp [splitLast, splitLast_none c b hb]
  | cons x xs ih => simp [splitLast, ih]

private theorem takeWhile_ne (c : Char) (h t : List Char) (hh : c ∉ h) :
    (h ++ c :: t).takeWhile (· != c) = h ∧ (h ++ c :: t).dropWhile (· != c) = c :: t := by
  induction h with
  | nil => simp
  | cons x xs ih =>
    have hx : x ≠ c := fun e => hh (by simp [e])
    have hxs : c ∉ xs := fun m => hh (List.mem_cons_of_mem _ m)
    have := ih hxs
    simp [hx, this]

private theorem not_contains {c : Char} {s : List Char} (h : c ∉ s) : s.contains c = false := by
  simpa using h

/-- **`net.SplitHostPort` inverts `net.JoinHostPort`** on every host without brackets and every port without
`:`, `[`, `]` - whichever branch (bracketed or not) the join took. -/
theorem split_join (host port : List Char) (h1 : '[' ∉ host) (h2 : ']' ∉ host)
    (p1 : ':' ∉ port) (p2 : '[' ∉ port) (p3 : ']' ∉ port) :
    splitHostPort (joinHostPort host port) = some (host, port) := by
  unfold joinHostPort
  split
  · -- bracketed
    have e : ('[' :: host ++ ']' :: ':' :: port) = ('[' :: host ++ [']']) ++ ':' :: port := by simp
    unfold splitHostPort
    rw [e, splitLast_spec ':' port p1]
    simp only [List.cons_append, List.head?_cons, if_true, List.tail_cons]
    have := takeWhile_ne ']' host (':' :: port) h2
    simp only [List.append_assoc, List.cons_append, List.nil_append] at this ⊢
    rw [this.1, this.2]
    have c1 : (host ++ ']' :: ':' :: port).contains '[' = false := by
      apply not_contains; simp [h1, p2]
    have c2 : (':' :: port).contains ']' = false := by
      apply not_contains; simp [p3]
    simp [not_contains p1, c1, c2]
    exact ⟨p1, ⟨h1, p2⟩, p3⟩
  · -- plain
    rename_i hc
    have hcolon : ':' ∉ host := by
      intro m; apply hc; simp [m]
    unfold splitHostPort
    rw [splitLast_spec ':' port p1]
    have hh : (host ++ ':' :: port).head? ≠ some '[' := by
      cases host with
      | nil => simp
      | cons x xs =>
        have : x ≠ '[' := fun e => h1 (by simp [e])
        simp [this]
    have c1 : (host ++ ':' :: port).contains '[' = false := by apply not_contains; simp [h1, p2]
    have c2 : (host ++ ':' :: port).contains ']' = false := by apply not_contains; simp [h2, p3]
    have hh' : host.head?.getD ':' ≠ '[' := by
      cases host with
      | nil => simp
      | cons x xs =>
        have : x ≠ '[' := fun e => h1 (by simp [e])
        simp [this]
    simp [hh', not_contains hcolon, c1, c2]
    exact ⟨hcolon, ⟨h1, p2⟩, h2, p3⟩

/-- **The normalised address is dialable and keeps host and port**: for every well-formed address form, what
`ensurePort` produces splits (by `net.SplitHostPort`, as the dialer will) into exactly the given host and the given
port - or 5222 when none was given. -/
theorem C20_dialable (f : Form) (h : f.wf = true) :
    splitHostPort (ensurePort f.render defaultPort) = some (f.host, f.port.getD (itoa defaultPort)) := by
  rw [C20_dial f h]
  unfold Form.expected
  have hw := h
  unfold Form.wf at hw
  simp only [Bool.and_eq_true] at hw
  obtain ⟨hport, hkind⟩ := hw
  -- the port is a digit string (given) or "5222"
  have pd : ∀ c : Char, c.isDigit = false → c ∉ f.port.getD (itoa defaultPort) := by
    intro c hc
    cases hp : f.port with
    | none =>
      simp only [Option.getD_none]
      have : itoa defaultPort = ['5', '2', '2', '2'] := by decide
      rw [this]
      intro m
      simp at m
      rcases m with rfl | rfl <;> simp [Char.isDigit] at hc
    | some p =>
      simp only [Option.getD_some]
      rw [hp] at hport
      exact digits_not_mem hport hc
  have hb : '[' ∉ f.host ∧ ']' ∉ f.host := by
    cases hk : f.kind <;> rw [hk] at hkind <;> simp only [Bool.and_eq_true] at hkind
    · exact ⟨noneOf_not_mem hkind (by simp), noneOf_not_mem hkind (by simp)⟩
    · exact ⟨noneOf_not_mem hkind.1.2 (by simp), noneOf_not_mem hkind.1.2 (by simp)⟩
    · exact ⟨noneOf_not_mem hkind.2 (by simp), noneOf_not_mem hkind.2 (by simp)⟩
  exact split_join f.host _ hb.1 hb.2 (pd ':' (by decide)) (pd '[' (by decide)) (pd ']' (by decide))

example : splitHostPort "[::1]:5222".toList = some ("::1".toList, "5222".toList) := by decide
example : splitHostPort "a:b:1".toList = none ∧ splitHostPort "[::1]".toList = none ∧ splitHostPort "host".toList = none := by decide

end XmppVerif.Props.C20

#print axioms XmppVerif.Props.C20.split_join
#print axioms XmppVerif.Props.C20.C20_dialable
