import XmppVerif.Props.Recv
import XmppVerif.Spec.RecvObs
/-
C09 - stream management: the reported inbound count equals the number of stanzas received.
-/
namespace XmppVerif.Props.C09
open XmppVerif.Model.Recv XmppVerif.Spec.Recv XmppVerif.Spec.RecvObs XmppVerif.Props.Recv

/-- **Every answer carries the stanza count**: for every inbound history and every starting count, the h values of
the `<a/>` elements the client writes are exactly those of the reference walk that counts stanzas only. -/
theorem C09_answer_h (s : St) (ins : List In) :
    answers (clientRecv s ins).2 = refAnswers s.inbound (processed ins) :=
  (client_facts ins s).answersE

/-- The reference walk, unfolded: the answer to a request preceded by the items `pre` reports
`n + (number of stanzas in pre)` - non-stanza elements in `pre` (requests, answers, features, …) never count. -/
theorem C09_ref_counts_stanzas_only (n : Nat) (pre rest : List In) (f : Bool)
    (hpre : ∀ i ∈ pre, isReq i = false) :
    refAnswers n (pre ++ .pkt .r f :: rest) = (n + stanzaCount pre) :: refAnswers (n + stanzaCount pre) rest := by
  induction pre generalizing n with
  | nil => simp [refAnswers, isStanzaIn, stanzaOf, Pkt.isStanza, isReq, stanzaCount]
  | cons i pre ih =>
    have hi := hpre i (by simp)
    have ih' := fun m => ih m (fun j hj => hpre j (List.mem_cons_of_mem _ hj))
    have hcnt : stanzaCount (i :: pre) = (if isStanzaIn i then 1 else 0) + stanzaCount pre := by
      unfold stanzaCount; simp only [List.filter_cons]; split <;> simp <;> omega
    by_cases hs : isStanzaIn i = true
    · rw [hcnt]
      simp only [List.cons_append, refAnswers, hs, if_true]
      rw [ih' (n + 1)]
      have e : n + 1 + stanzaCount pre = n + (1 + stanzaCount pre) := by omega
      rw [e]
    · have hs' : isStanzaIn i = false := by simpa using hs
      rw [hcnt]
      simp only [List.cons_append, refAnswers, hs', hi, Bool.false_eq_true, if_false, Nat.zero_add]
      exact ih' n

/-- The count kept in the session state after any history: start + number of stanzas handled, nothing else. -/
theorem C09_count_is_stanza_count (s : St) (ins : List In) :
    (clientRecv s ins).1.inbound = s.inbound + stanzaCount (processed ins) :=
  (client_facts ins s).inbound

/-- **Across a resumption**: the session state (id and count) survives in the `Session`; the count a resumption
request would present after history `h1` on the first connection and the answers on the resumed connection with
history `h2` continue the same walk: `answers` of the second run start from the count the first run ended with. -/
theorem C09_resume_h (s : St) (h1 h2 : List In) :
    answers (clientRecv (clientRecv s h1).1 h2).2
      = refAnswers (s.inbound + stanzaCount (processed h1)) (processed h2) := by
  rw [C09_answer_h, C09_count_is_stanza_count]

/-- Non-stanza elements never change the count (one step). -/
theorem C09_nonstanza_never_counted (s : St) (p : Pkt) (f : Bool) (h : p.isStanza = false) :
    (clientStep s (.pkt p f)).1.inbound = s.inbound := by
  cases p <;> simp_all [clientStep, Pkt.isStanza] <;> (try split) <;> rfl

theorem C09_stanza_counted_once (s : St) (p : Pkt) (f : Bool) (h : p.isStanza = true) :
    (clientStep s (.pkt p f)).1.inbound = s.inbound + 1 := by
  cases p <;> simp_all [clientStep, Pkt.isStanza]

theorem C09_oracle_accepts_model (c : Case) (hc : c.client = true) : holdsC09 c (modelSummary c) = true := by
  unfold holdsC09 modelSummary
  have f := client_facts c.ins ⟨c.smId, c.n0⟩
  simp only [hc, if_true, summarise, Bool.not_false, Bool.and_true, Bool.and_eq_true, decide_eq_true_eq,
    List.all_eq_true]
  refine ⟨f.answersE, ?_⟩
  intro d hd
  rw [f.disc] at hd
  simp at hd; subst hd; simp

/-- **The resumption request carries the stanza count**: after any history on a stream-managed session the
request that follows presents the session's id and `start + number of stanzas received`, nothing else. -/
theorem C09_resume_request (c : Case) : holdsResume c (modelResume c) = true := by
  unfold holdsResume modelResume
  have f := client_facts c.ins ⟨c.smId, c.n0⟩
  simp only [f.smId, f.inbound]
  by_cases h : (c.smId == "") = true
  · simp [h]
  · simp [h]

-- non-vacuity: the design's witness for F-09 (an <a/> before the <r/> must not be counted)
example : answers (clientRecv ⟨"sm", 0⟩ [.pkt (.a 0) false, .pkt .r false, .pkt (.msg "1") false,
    .pkt (.nonza "features") false, .pkt .r false]).2 = [0, 1] := by decide

end XmppVerif.Props.C09

#print axioms XmppVerif.Props.C09.C09_answer_h
#print axioms XmppVerif.Props.C09.C09_ref_counts_stanzas_only
#print axioms XmppVerif.Props.C09.C09_count_is_stanza_count
#print axioms XmppVerif.Props.C09.C09_resume_h
#print axioms XmppVerif.Props.C09.C09_nonstanza_never_counted
#print axioms XmppVerif.Props.C09.C09_stanza_counted_once
#print axioms XmppVerif.Props.C09.C09_oracle_accepts_model
#print axioms XmppVerif.Props.C09.C09_resume_request
