import XmppVerif.Props.C02Bytes
import XmppVerif.Props.C12
import XmppVerif.Proofs.C02Prefix
import XmppVerif.Proofs.C02BytesCut
/-
C12, stage B: a lost connection at ANY byte offset of a rendered stream ("byte" = code point after UTF-8 decoding).
The bytes up to the cut go through the tokenizer model (Model/C02Bytes) and the packet model (Model/C02); the result is
exactly one packet per top-level element that lies wholly before the cut, then an error - i.e. the token-level history
`pre ++ [cut]` that Props/C12.lean quantifies over - and therefore exactly one Disconnected event, one error callback
and every earlier stanza routed.
-/
namespace XmppVerif.Props.C12Bytes
open XmppVerif.Model.C02 XmppVerif.Model.C02Bytes XmppVerif.Spec.C02 XmppVerif.Spec.C02Bytes XmppVerif.Proofs.C02Bytes
open XmppVerif.Props.C02Bytes (treeItems itemsToks_trees)
open XmppVerif.Props.C02 (C02_one_per_element packets_nil C02_expected_all_packets)

/-! ### lists -/

theorem resolveL_append (env : Env) (a b : List STree) : resolveL env (a ++ b) = resolveL env a ++ resolveL env b := by
  induction a with
  | nil => rfl
  | cons t ts ih => simp [resolveL, ih]

theorem dispatchable_left : ∀ (a b : List Item), dispatchable (a ++ b) = true → dispatchable a = true := by
  intro a
  induction a with
  | nil => intro _ _; rfl
  | cons i is ih =>
    intro b h
    cases i with
    | close => simp only [List.cons_append, dispatchable] at h ⊢; exact ih b h
    | tree t =>
      cases t with
      | text s => simp only [List.cons_append, dispatchable] at h ⊢; exact ih b h
      | misc => simp only [List.cons_append, dispatchable] at h ⊢; exact ih b h
      | elem n as kk =>
        simp only [List.cons_append, dispatchable, Bool.and_eq_true] at h ⊢
        exact ⟨h.1, ih b h.2⟩

theorem typedOk_left (a b : List Item) (h : typedOk (a ++ b) = true) : typedOk a = true := by
  simp only [typedOk, List.all_append, Bool.and_eq_true] at h ⊢
  exact h.1

theorem renderL_append (a b : List STree) : renderL (a ++ b) = renderL a ++ renderL b := by
  induction a with
  | nil => rfl
  | cons t ts ih => simp [renderL, ih]

/-- every offset inside a rendered forest falls into exactly one tree, strictly before its end -/
theorem take_renderL : ∀ (items : List STree) (n : Nat), n < (renderL items).length →
    ∃ pre t post a b, items = pre ++ t :: post ∧ render t = a ++ b ∧ b ≠ [] ∧ (renderL items).take n = renderL pre ++ a := by
  intro items
  induction items with
  | nil => intro n h; simp [renderL] at h
  | cons t ts ih =>
    intro n h
    by_cases hn : n < (render t).length
    · refine ⟨[], t, ts, (render t).take n, (render t).drop n, rfl, (List.take_append_drop _ _).symm, ?_, ?_⟩
      · intro e
        have := congrArg List.length e
        simp at this
        omega
      · simp only [renderL, List.nil_append]
        rw [List.take_append_of_le_length (by omega)]
    · simp only [renderL, List.length_append] at h
      obtain ⟨pre, u, post, a, b, h1, h2, h3, h4⟩ := ih (n - (render t).length) (by omega)
      refine ⟨t :: pre, u, post, a, b, by simp [h1], h2, h3, ?_⟩
      simp only [renderL]
      rw [List.take_append, List.take_of_length_le (by omega), h4, List.append_assoc]

theorem lastIsText_split : ∀ (pre : List STree), lastIsText pre = true → ∃ init u, pre = init ++ [u] ∧ u.isText = true := by
  intro pre
  induction pre with
  | nil => intro h; simp [lastIsText] at h
  | cons x xs ih =>
    intro h
    cases xs with
    | nil => exact ⟨[], x, rfl, by simpa [lastIsText] using h⟩
    | cons y ys =>
      obtain ⟨init, u, e, hu⟩ := ih (by simpa [lastIsText] using h)
      exact ⟨x :: init, u, by simp [e], hu⟩

/-! ### packets of a cut stream -/

theorem lookup_mem {α β : Type} [BEq α] : ∀ (l : List (α × β)) (k : α) (v : β), l.lookup k = some v → v ∈ l.map (·.2) := by
  intro l
  induction l with
  | nil => intro k v h; simp [List.lookup] at h
  | cons p ps ih =>
    intro k v h
    obtain ⟨a, b⟩ := p
    simp only [List.lookup] at h
    split at h
    · injection h with h; simp [h]
    · simp only [List.map_cons, List.mem_cons]; exact Or.inr (ih k v h)

theorem dispatch_not_close (n : Name) (k : Kind) (h : dispatch n = some k) : k ≠ .streamClose := by
  have hm := lookup_mem dispatchTable n.key k h
  have : ∀ v ∈ dispatchTable.map (·.2), v ≠ Kind.streamClose := by decide
  exact this k hm

/-- the tokens of a tree that has been cut: whatever proper prefix of them is complete, it yields no packet -/
theorem packets_of_cut_tree (env : Env) (t : STree) (P ys : List BTok) (hys : ys ≠ []) (h : btoks env t = P ++ ys) :
    ∃ e, packets (eraseL P) = [.err e] := by
  have he : toks (resolve env t) = eraseL P ++ eraseL ys := by
    rw [← erase_tree, h]; simp [eraseL]
  have hys' : eraseL ys ≠ [] := by
    intro e; apply hys; cases ys <;> simp_all [eraseL]
  cases hr : resolve env t with
  | elem n as kk =>
    rw [hr] at he
    exact XmppVerif.Proofs.C02Prefix.no_packet_from_proper_prefix n as kk _ _ he hys'
  | text s =>
    rw [hr] at he
    simp only [toks] at he
    have : eraseL P = [] := by
      cases hp : eraseL P with
      | nil => rfl
      | cons x xs =>
        rw [hp] at he
        have := congrArg List.length he
        simp only [List.length_cons, List.length_append, List.length_nil] at this
        have : (eraseL ys).length = 0 := by omega
        exact absurd (List.eq_nil_of_length_eq_zero this) hys'
    rw [this]; exact ⟨_, packets_nil⟩
  | misc =>
    rw [hr] at he
    simp only [toks] at he
    have : eraseL P = [] := by
      cases hp : eraseL P with
      | nil => rfl
      | cons x xs =>
        rw [hp] at he
        have := congrArg List.length he
        simp only [List.length_cons, List.length_append, List.length_nil] at this
        have : (eraseL ys).length = 0 := by omega
        exact absurd (List.eq_nil_of_length_eq_zero this) hys'
    rw [this]; exact ⟨_, packets_nil⟩

/-- **A cut inside (or right after) the item `t`**: declaration, header, the items `pre` in full, then only the part
`a` of `t`'s rendering. The complete tokens of these bytes, after what InitStream consumes, give the packet model
exactly one packet per element of `pre` - the elements wholly before the cut - and then an error. -/
theorem C12B_cut_in_item (q : QName) (as : List SAttr) (tail : List Char) (pre : List STree) (t : STree) (post : List STree)
    (a b : List Char)
    (hq : qnameOk q = true) (has : as.all SAttr.ok = true) (ht : wsOk tail = true)
    (hok : okL (pre ++ t :: post) = true) (hsplit : render t = a ++ b) (hb : b ≠ [] ∨ t.isText = true)
    (hpre : lastIsText pre = true → a ≠ [])
    (hd : dispatchable (treeItems (resolveL (envOf [] as) pre)) = true)
    (hty : typedOk (treeItems (resolveL (envOf [] as) pre)) = true) :
    ∃ e, packets (eraseL ((tokenize (xmlDecl ++ (renderOpen q as tail ++ (renderL pre ++ a)))).complete.drop 2)) =
      expected (treeItems (resolveL (envOf [] as) pre)) ++ [.err e] := by
  obtain ⟨P, ys, hys, hbt, hc⟩ := cut_forest pre t post [⟨q, envOf (curEnv []) as⟩] a b hok hsplit hb hpre
  obtain ⟨e, he⟩ := packets_of_cut_tree _ t P ys hys hbt
  refine ⟨e, ?_⟩
  unfold tokenize
  rw [tok_xmlDecl, tok_header q as tail [] _ hq has ht, pre_pre, complete_pre', hc]
  simp only [List.cons_append, List.nil_append, List.drop_succ_cons, List.drop_zero, curEnv, eraseL, List.map_append]
  have h1 := erase_list (envOf [] as) pre
  simp only [eraseL] at h1 he
  rw [h1, ← itemsToks_trees, C02_one_per_element _ _ hd hty, he]

/-- **Every byte offset.** Cut the rendered stream - declaration, header, any forest of top-level items - at ANY offset
`n` inside the items. Then the items split as `pre ++ t :: post` with the cut inside (or exactly at the end of the
character data) `t`, and the packet model yields exactly the packets of `pre`, the elements wholly before the cut, then
an error: never a packet for the element that was cut, never a different one. -/
theorem C12B_every_byte_offset (q : QName) (as : List SAttr) (tail : List Char) (items : List STree) (n : Nat)
    (hq : qnameOk q = true) (has : as.all SAttr.ok = true) (ht : wsOk tail = true) (hok : okL items = true)
    (hn : n < (renderL items).length)
    (hd : dispatchable (treeItems (resolveL (envOf [] as) items)) = true)
    (hty : typedOk (treeItems (resolveL (envOf [] as) items)) = true) :
    ∃ pre t post e, items = pre ++ t :: post ∧
      (renderL pre).length ≤ n ∧ (n < (renderL pre).length + (render t).length ∨ t.isText = true) ∧
      packets (eraseL ((tokenize (xmlDecl ++ (renderOpen q as tail ++ (renderL items).take n))).complete.drop 2)) =
        expected (treeItems (resolveL (envOf [] as) pre)) ++ [.err e] := by
  obtain ⟨pre, t, post, a, b, hitems, hsplit, hb, htake⟩ := take_renderL items n hn
  have hlen : n = (renderL pre).length + a.length := by
    have := congrArg List.length htake
    simp only [List.length_take, List.length_append] at this
    omega
  have hpart : ∀ (p r : List STree), items = p ++ r →
      dispatchable (treeItems (resolveL (envOf [] as) p)) = true ∧ typedOk (treeItems (resolveL (envOf [] as) p)) = true := by
    intro p r e
    rw [e, resolveL_append] at hd hty
    simp only [treeItems, List.map_append] at hd hty
    exact ⟨dispatchable_left _ _ hd, typedOk_left _ _ hty⟩
  by_cases hcase : lastIsText pre = true ∧ a = []
  · -- the cut falls exactly after character data: that text is the item being cut
    obtain ⟨init, u, hpre, hu⟩ := lastIsText_split pre hcase.1
    have hitems' : items = init ++ u :: (t :: post) := by rw [hitems, hpre]; simp
    have hokall := hok
    rw [hitems'] at hokall
    obtain ⟨_, hoku, hadj⟩ := okL_split init u (t :: post) hokall
    obtain ⟨hd', hty'⟩ := hpart init (u :: t :: post) hitems'
    have hune : render u ≠ [] := by
      cases u with
      | text ps =>
        simp only [STree.ok, Bool.and_eq_true, Bool.not_eq_true'] at hoku
        obtain ⟨c, r, e, _⟩ := pieces_head ps [] hoku.1 hoku.2
        simp only [List.append_nil] at e
        simp [render, e]
      | elem q' as' tail' kids etail => simp [STree.isText] at hu
      | empty q' as' tail' => simp [STree.isText] at hu
      | cdata s => simp [STree.isText] at hu
      | comment s => simp [STree.isText] at hu
      | pi t' sep d => simp [STree.isText] at hu
    obtain ⟨e, he⟩ := C12B_cut_in_item q as tail init u (t :: post) (render u) [] hq has ht hokall (by simp)
      (Or.inr hu) (fun _ => hune) hd' hty'
    refine ⟨init, u, t :: post, e, hitems', ?_, Or.inr hu, ?_⟩
    · rw [hlen, hpre, renderL_append, List.length_append]; omega
    · rw [htake, hcase.2, hpre, renderL_append]
      simpa [renderL] using he
  · obtain ⟨hd', hty'⟩ := hpart pre (t :: post) hitems
    have hpre' : lastIsText pre = true → a ≠ [] := fun hl ha => hcase ⟨hl, ha⟩
    rw [hitems] at hok
    obtain ⟨e, he⟩ := C12B_cut_in_item q as tail pre t post a b hq has ht hok hsplit (Or.inl hb) hpre' hd' hty'
    refine ⟨pre, t, post, e, hitems, by omega, Or.inl ?_, ?_⟩
    · have := congrArg List.length hsplit
      simp only [List.length_append] at this
      have hbl : 0 < b.length := List.length_pos_iff.mpr hb
      omega
    · rw [htake]; exact he

/-! ### … and therefore reported exactly once (composition with Props/C12.lean) -/

open XmppVerif.Model.Recv XmppVerif.Spec.Recv XmppVerif.Spec.RecvObs in
/-- how the receive loop sees one result of NextPacket: `f` names the abstract packet of the Recv model for a decoded
packet; a decoder error is a `cut`; no write of an `<a/>` answer fails (that loss is C12_failed_answer_reported) -/
def inOf (f : Packet → XmppVerif.Model.Recv.Pkt) : PRes → XmppVerif.Model.Recv.In
  | .pkt p => .pkt (f p) false
  | .err _ => .cut

theorem mkPacket_kind (k : Kind) (as : List Attr) (i : Info) : (mkPacket k as i).kind = k := by
  unfold mkPacket; split <;> rfl

theorem expected_trees_not_close : ∀ (ts : List Tree), dispatchable (treeItems ts) = true →
    ∀ r ∈ expected (treeItems ts), ∃ p, r = .pkt p ∧ p.kind ≠ .streamClose := by
  intro ts
  induction ts with
  | nil => intro _ r hr; simp [treeItems, expected] at hr
  | cons t ts ih =>
    intro hd r hr
    simp only [treeItems, List.map_cons, expected, List.flatMap_cons, List.mem_append] at hr
    cases t with
    | text s =>
      have hd' : dispatchable (treeItems ts) = true := by simpa [treeItems, dispatchable] using hd
      rcases hr with hr | hr
      · simp [classifyItem, classify] at hr
      · exact ih hd' r hr
    | misc =>
      have hd' : dispatchable (treeItems ts) = true := by simpa [treeItems, dispatchable] using hd
      rcases hr with hr | hr
      · simp [classifyItem, classify] at hr
      · exact ih hd' r hr
    | elem n as kk =>
      have hd' : (dispatch n).isSome = true ∧ dispatchable (treeItems ts) = true := by
        simpa [treeItems, dispatchable] using hd
      obtain ⟨k, hk⟩ := Option.isSome_iff_exists.mp hd'.1
      rcases hr with hr | hr
      · simp only [classifyItem, classify, hk, List.mem_singleton] at hr
        exact ⟨_, hr, by rw [mkPacket_kind]; exact dispatch_not_close n k hk⟩
      · exact ih hd'.2 r hr

open XmppVerif.Model.Recv XmppVerif.Spec.Recv XmppVerif.Spec.RecvObs in
/-- **C12 at every byte offset.** Whatever the offset `n` at which the connection is lost inside the rendered items,
the receive loop, fed with what the decoder makes of the bytes before the cut, raises exactly one Disconnected event
carrying the stream-management id and the count of the stanzas wholly received, calls the error handler once for the
loss (plus once per stream error received before), and has routed exactly the stanzas wholly before the cut.
`f` is any naming of decoded packets in the alphabet of the Recv model that calls only a stream-close packet `close`. -/
theorem C12B_reported_once_at_every_byte_offset (f : Packet → XmppVerif.Model.Recv.Pkt)
    (hf : ∀ p, p.kind ≠ .streamClose → f p ≠ .close) (s : XmppVerif.Model.Recv.St)
    (q : QName) (as : List SAttr) (tail : List Char) (items : List STree) (n : Nat)
    (hq : qnameOk q = true) (has : as.all SAttr.ok = true) (ht : wsOk tail = true) (hok : okL items = true)
    (hn : n < (renderL items).length)
    (hd : dispatchable (treeItems (resolveL (envOf [] as) items)) = true)
    (hty : typedOk (treeItems (resolveL (envOf [] as) items)) = true) :
    ∃ pre t post, items = pre ++ t :: post ∧ (renderL pre).length ≤ n ∧
      (n < (renderL pre).length + (render t).length ∨ t.isText = true) ∧
      (let hist := (packets (eraseL ((tokenize (xmlDecl ++ (renderOpen q as tail ++ (renderL items).take n))).complete.drop 2))).map (inOf f)
       let before := (expected (treeItems (resolveL (envOf [] as) pre))).map (inOf f)
       discEvents (clientRecv s hist).2 = [(s.smId, s.inbound + stanzaCount before)] ∧
       errhCount (clientRecv s hist).2 = serrCount before + 1 ∧
       routedStanzas (clientRecv s hist).2 = before.filterMap stanzaOf) := by
  obtain ⟨pre, t, post, e, hitems, h1, h2, hp⟩ := C12B_every_byte_offset q as tail items n hq has ht hok hn hd hty
  refine ⟨pre, t, post, hitems, h1, h2, ?_⟩
  have hdpre : dispatchable (treeItems (resolveL (envOf [] as) pre)) = true := by
    rw [hitems, resolveL_append] at hd
    simp only [treeItems, List.map_append] at hd
    exact dispatchable_left _ _ hd
  have hstops : ∀ i ∈ (expected (treeItems (resolveL (envOf [] as) pre))).map (inOf f), stops i = false := by
    intro i hi
    obtain ⟨r, hr, hir⟩ := List.mem_map.mp hi
    obtain ⟨p, hrp, hk⟩ := expected_trees_not_close _ hdpre r hr
    subst hrp
    have := hf p hk
    rw [← hir]
    simp only [inOf]
    cases hfp : f p <;> simp_all [stops]
  simp only
  rw [hp, List.map_append]
  simp only [List.map_cons, List.map_nil, inOf]
  exact XmppVerif.Props.C12.C12_every_cut_position s _ [] hstops

/-! ### non-vacuity -/

open XmppVerif.Props.C02Bytes (sampleForest streamQ streamAttrs) in
/-- the sample stream of Props/C02Bytes (its items are 207 characters) cut 150 characters into the items: inside the
CDATA section of the message, so no item is complete; cut at 195: the message (188 characters) and the white space
are complete, `<stream:features/>` is not -/
example :
    packets (eraseL ((tokenize (xmlDecl ++ (renderOpen streamQ streamAttrs [] ++ (renderL sampleForest).take 150))).complete.drop 2))
      = [.err .eof] ∧
    packets (eraseL ((tokenize (xmlDecl ++ (renderOpen streamQ streamAttrs [] ++ (renderL sampleForest).take 195))).complete.drop 2))
      = [.pkt ⟨.message, "", "", "", "a&b", "1 < 2 & 3 > 2 ]]>"⟩, .err .eof] := by
  decide +kernel

end XmppVerif.Props.C12Bytes
#print axioms XmppVerif.Props.C12Bytes.C12B_cut_in_item
#print axioms XmppVerif.Props.C12Bytes.C12B_every_byte_offset
#print axioms XmppVerif.Props.C12Bytes.C12B_reported_once_at_every_byte_offset
