import XmppVerif.Spec.C17
/-
C17 - the unacknowledged-stanza queue is a FIFO with increasing sequence numbers.
Property theorems only (helper lemmas are local and `private`).
-/
namespace XmppVerif.Props.C17
open XmppVerif.Model.C17 XmppVerif.Spec.C17

/-- Sequence numbers strictly increase in insertion (= queue) order. -/
def Inc (q : Q) : Prop := List.Pairwise (· < ·) (q.map (·.id))

instance (q : Q) : Decidable (Inc q) := by unfold Inc; infer_instance

private theorem abs_drop (q : Q) (n : Nat) : abs (q.drop n) = (abs q).drop n := by
  simp [abs, List.map_drop]

/-- One step of the plain slice operations is one step of the reference FIFO (simulation, any state). -/
theorem C17_step_refines_slice (q : Q) (op : Op) :
    abs (step q op).1 = (refStep (abs q) op).1 ∧ absOut (step q op).2 = (refStep (abs q) op).2 := by
  cases op with
  | push s => simp [step, refStep, push, abs, absOut]
  | pop =>
    cases q with
    | nil => simp [step, refStep, pop, abs, absOut]
    | cons e r => simp [step, refStep, pop, abs, absOut]
  | popn k =>
    by_cases hk : k ≤ 0
    · simp [step, refStep, popN, peekN, hk, abs, absOut]
    · simp only [step, refStep, popN, peekN, hk, if_false, absOut]
      constructor
      · rw [abs_drop]
        simp only [List.length_take]
        by_cases h : k.toNat ≤ q.length
        · simp [Nat.min_eq_left h]
        · have h' : q.length ≤ k.toNat := by omega
          rw [Nat.min_eq_right h']
          simp [abs, List.drop_eq_nil_of_le, h']
      · simp [abs]
  | peek => simp [step, refStep, peek, abs, absOut]
  | peekn k =>
    by_cases hk : k ≤ 0
    · simp [step, refStep, peekN, hk, absOut]
    · simp [step, refStep, peekN, hk, abs, absOut]
  | empty => simp [step, refStep, abs, absOut]

/-- One step of the queue object (slice + persistent counter) is one step of the reference FIFO. -/
theorem C17_step_refines (s : QS) (op : Op) :
    abs (stepS s op).1.q = (refStep (abs s.q) op).1 ∧ absOut (stepS s op).2 = (refStep (abs s.q) op).2 := by
  cases op with
  | push x => simp [stepS, pushS, refStep, abs, absOut]
  | pop => exact C17_step_refines_slice s.q .pop
  | popn k => exact C17_step_refines_slice s.q (.popn k)
  | peek => exact C17_step_refines_slice s.q .peek
  | peekn k => exact C17_step_refines_slice s.q (.peekn k)
  | empty => exact C17_step_refines_slice s.q .empty

/-- **Refinement**: any operation sequence, from any queue, returns exactly what the reference
FIFO returns and ends holding exactly what it holds. -/
theorem C17_refines (ops : List Op) : ∀ s : QS,
    abs (runS s ops).1.q = (refRun (abs s.q) ops).1 ∧
    (runS s ops).2.map absOut = (refRun (abs s.q) ops).2 := by
  induction ops with
  | nil => intro s; simp [runS, refRun]
  | cons op ops ih =>
    intro s
    have h := C17_step_refines s op
    have ih' := ih (stepS s op).1
    simp only [runS, refRun]
    rw [← h.1, ← h.2]
    exact ⟨ih'.1, by simp [ih'.2]⟩

/-- Peek, PeekN and Empty never modify the queue. -/
theorem C17_peek_pure (s : QS) (op : Op) (h : isPeek op = true) : (stepS s op).1 = s := by
  cases op <;> simp_all [isPeek, stepS, step]

private theorem le_last : ∀ (q : Q) (e l : Entry), Inc q → e ∈ q → q.getLast? = some l → e.id ≤ l.id := by
  intro q
  induction q with
  | nil => intro e l _ he; simp at he
  | cons a t ih =>
    intro e l h he hl
    unfold Inc at h
    simp only [List.map_cons, List.pairwise_cons] at h
    cases t with
    | nil =>
      simp at he hl; subst he; subst hl; exact Nat.le_refl _
    | cons b r =>
      have hl' : (b :: r).getLast? = some l := by simpa [List.getLast?_cons_cons] using hl
      rcases List.mem_cons.mp he with rfl | he'
      · have hlm : l ∈ (b :: r) := List.mem_of_getLast? hl'
        have := h.1 l.id (List.mem_map_of_mem hlm)
        omega
      · exact ih e l h.2 he' hl'

private theorem inc_push (s : QS) (x : String) (h : Inc s.q) : Inc (pushS s x).q := by
  have h0 := h
  unfold Inc pushS at *
  simp only
  rw [List.map_append, List.pairwise_append]
  refine ⟨h, by simp, ?_⟩
  intro a ha b hb
  simp only [List.map_cons, List.map_nil, List.mem_singleton] at hb
  subst hb
  obtain ⟨e, he, rfl⟩ := List.mem_map.mp ha
  unfold nextIdS
  cases hl : s.q.getLast? with
  | none =>
    have : s.q = [] := List.getLast?_eq_none_iff.mp hl
    rw [this] at he; simp at he
  | some l =>
    have := le_last s.q e l h0 he hl
    simp only; omega

/-- Inductive step: every operation preserves strictly increasing sequence numbers. -/
theorem C17_ids_step (s : QS) (op : Op) (h : Inc s.q) : Inc (stepS s op).1.q := by
  cases op with
  | push x => exact inc_push s x h
  | pop =>
    simp only [stepS, step]
    cases hq : s.q with
    | nil => simp [pop, Inc]
    | cons e r =>
      simp only [pop]
      unfold Inc at *
      rw [hq] at h
      simp only [List.map_cons, List.pairwise_cons] at h
      exact h.2
  | popn k =>
    simp only [stepS, step, popN]
    unfold Inc at *
    rw [List.map_drop]
    exact List.Pairwise.drop h
  | peek => simpa [stepS, step] using h
  | peekn k => simpa [stepS, step] using h
  | empty => simpa [stepS, step] using h

/-- **Every reachable state** (any operation sequence from a fresh queue, or from any state that
already satisfies it) carries strictly increasing sequence numbers in insertion order. -/
theorem C17_ids_increasing (ops : List Op) : ∀ s : QS, Inc s.q → Inc (runS s ops).1.q := by
  induction ops with
  | nil => intro s h; simpa [runS] using h
  | cons op ops ih => intro s h; simpa [runS] using ih _ (C17_ids_step s op h)

theorem C17_ids_increasing_fresh (ops : List Op) : Inc (runS ⟨[], 0⟩ ops).1.q :=
  C17_ids_increasing ops ⟨[], 0⟩ (by simp [Inc])

private theorem idsIncreasing_iff (l : List Nat) : idsIncreasing l = true ↔ List.Pairwise (· < ·) l := by
  induction l with
  | nil => simp [idsIncreasing]
  | cons a t ih =>
    cases t with
    | nil => simp [idsIncreasing]
    | cons b r =>
      simp only [idsIncreasing, Bool.and_eq_true, decide_eq_true_eq, ih]
      constructor
      · rintro ⟨hab, hp⟩
        refine List.pairwise_cons.mpr ⟨?_, hp⟩
        intro x hx
        rcases List.mem_cons.mp hx with rfl | hx
        · exact hab
        · have := (List.pairwise_cons.mp hp).1 x hx; omega
      · intro hp
        have := List.pairwise_cons.mp hp
        exact ⟨this.1 b (by simp), this.2⟩

/-- The run-time oracle accepts exactly the model's own behaviour on every reachable state: the
oracle used to judge the implementation is implied by the theorems above (it is not stricter). -/
theorem C17_oracle_accepts_model (s : QS) (op : Op) (h : Inc s.q) :
    (holdsStep ⟨abs s.q, s.q⟩ op ⟨(stepS s op).2, (stepS s op).1.q⟩).1 = true := by
  have hr := C17_step_refines s op
  have hi := (idsIncreasing_iff _).mpr (C17_ids_step s op h)
  simp only [holdsStep, Bool.and_eq_true, decide_eq_true_eq, Bool.or_eq_true, Bool.not_eq_true']
  refine ⟨⟨⟨hr.2, hr.1⟩, hi⟩, ?_⟩
  cases hp : isPeek op with
  | false => simp
  | true => right; rw [C17_peek_pure s op hp]

/-- nil receiver: behaves as the empty reference FIFO and never changes. -/
theorem C17_nil_receiver (op : Op) : absOut (stepNil op) = (refStep [] op).2 := by
  cases op <;> simp [stepNil, refStep, absOut]
  all_goals (split <;> simp)

-- Non-vacuity: a concrete non-trivial reachable state satisfies the hypotheses and exercises
-- in-range, out-of-range and negative counts.
example : Inc (runS ⟨[], 0⟩ [.push "a", .push "b", .push "c", .pop, .push "d"]).1.q := by decide
-- numbering continues after the queue was drained
example : (runS ⟨[], 0⟩ [.push "a", .pop, .push "b"]).1 = ⟨[⟨2, "b"⟩], 2⟩ := by decide
example : (runS ⟨[], 0⟩ [.push "a", .push "b", .push "c", .popn 2, .push "d", .peekn 5, .popn (-1)]).2
    = [.ents [], .ents [], .ents [], .ents [⟨1, "a"⟩, ⟨2, "b"⟩], .ents [],
       .ents [⟨3, "c"⟩, ⟨4, "d"⟩], .ents []] := by decide

end XmppVerif.Props.C17

#print axioms XmppVerif.Props.C17.C17_refines
#print axioms XmppVerif.Props.C17.C17_step_refines
#print axioms XmppVerif.Props.C17.C17_step_refines_slice
#print axioms XmppVerif.Props.C17.C17_peek_pure
#print axioms XmppVerif.Props.C17.C17_ids_step
#print axioms XmppVerif.Props.C17.C17_ids_increasing
#print axioms XmppVerif.Props.C17.C17_ids_increasing_fresh
#print axioms XmppVerif.Props.C17.C17_oracle_accepts_model
#print axioms XmppVerif.Props.C17.C17_nil_receiver
