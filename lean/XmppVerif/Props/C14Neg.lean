import XmppVerif.Props.NegLemmas
/-
C14 at session level, over the negotiation model (`Model/Neg.lean`, the model of C03 / C04 / C11):
"a `<failure/>` reply is a permanent error and anything other than `<success/>` is never treated as authenticated".
-/
set_option linter.unusedSimpArgs false
namespace XmppVerif.Props.C14Neg
open XmppVerif.Model.Neg XmppVerif.Spec.Neg XmppVerif.Props.Neg

private theorem phase1_authgate (cfg : Cfg) (s0 : Sess) (sc : Script) :
    match phase1 cfg s0 sc with
    | .stop r => authGateOk sc (r.outcome == .established) r.writes = true
    | .go _ _ _ => sc.authReply = .success := by
  phase1_split [authGateOk]

/-- **Only `<success/>` authenticates, for every server behaviour and every configuration**: whenever the reply to
the client's `<auth/>` is anything else, `Client.connect` does not establish a session and the client writes nothing
after the `<auth/>` - no stream restart, no resumption, no bind on the unauthenticated stream. -/
theorem C14_session_only_success (cfg : Cfg) (s0 : Sess) (sc : Script) :
    authGateOk sc ((negotiate cfg s0 sc).outcome == .established) (negotiate cfg s0 sc).writes = true := by
  have h := phase1_authgate cfg s0 sc
  unfold negotiate
  cases hp : phase1 cfg s0 sc with
  | stop r => rw [hp] at h; exact h
  | go sec f3 w =>
    rw [hp] at h
    simp only [authGateOk, h, beq_self_eq_true, Bool.true_or]

private theorem phase1_failure_permanent (cfg : Cfg) (s0 : Sess) (sc : Script) :
    match phase1 cfg s0 sc with
    | .stop r => (sc.authReply = .failure → (r.writes.any (fun w => w.kind == .auth)) = true →
                   r.outcome = .failed true)
    | .go _ _ _ => sc.authReply = .success := by
  phase1_split []

/-- **`<failure/>` is permanent**: if the client sent `<auth/>` and the server answered `<failure/>`, the connection
attempt ends with a permanent error (the StreamManager does not retry: C13). -/
theorem C14_session_failure_permanent (cfg : Cfg) (s0 : Sess) (sc : Script)
    (hf : sc.authReply = .failure) (hw : ((negotiate cfg s0 sc).writes.any (fun w => w.kind == .auth)) = true) :
    (negotiate cfg s0 sc).outcome = .failed true := by
  have h := phase1_failure_permanent cfg s0 sc
  unfold negotiate at hw ⊢
  cases hp : phase1 cfg s0 sc with
  | stop r => rw [hp] at h hw; exact h hf hw
  | go sec f3 w => rw [hp] at h; rw [h] at hf; cases hf

private theorem phase1_mechgate (cfg : Cfg) (s0 : Sess) (sc : Script) :
    match phase1 cfg s0 sc with
    | .stop r => mechGateOk sc r.writes = true
    | .go _ _ w => mechGateOk sc w = true := by
  phase1_split [mechGateOk, featuresAtAuth, tlsNegotiated]

private theorem afterAuth_no_auth (s : Sess) (sec : Bool) (f3 : Features) (sc : Script) :
    ((afterAuth s sec f3 sc).writes.any (fun w => w.kind == .auth)) = false := by
  unfold afterAuth
  simp only
  split <;> (try split) <;> (try split) <;> (try split) <;> (try split) <;> (try split) <;> (try split) <;>
    simp [List.any_append] <;> (try split) <;> simp [List.any_append]

/-- **Only an advertised mechanism is used; with no common mechanism nothing is sent** - at session level, for every
server script: an `<auth/>` is written only if the features in force at that moment (after the TLS restart when TLS
was negotiated) offer a mechanism the credential supports. A mechanism list remembered from an earlier stream or
connection does not count. -/
theorem C14_session_mech_gate (cfg : Cfg) (s0 : Sess) (sc : Script) :
    mechGateOk sc (negotiate cfg s0 sc).writes = true := by
  have h := phase1_mechgate cfg s0 sc
  unfold negotiate
  cases hp : phase1 cfg s0 sc with
  | stop r => rw [hp] at h; exact h
  | go sec f3 w =>
    rw [hp] at h
    simp only [mechGateOk, List.any_append, afterAuth_no_auth, Bool.or_false] at h ⊢
    exact h

-- non-vacuity: a server that answers <failure/> and would go on answering
example : (negotiate ⟨true⟩ ⟨false, "", 0, "", false⟩
    { conn := .ok, feat1 := some ⟨false, true, false, false⟩, tlsReply := .proceed, tlsOk := true, open2 := true,
      feat2 := none, authReply := .failure, open3 := true, feat3 := some ⟨false, true, false, false⟩,
      resumeReply := .resumedSame, bindReply := .resultBind, sessReply := .result, enableReply := .enabled true,
      newSmId := "x", bindJid := "j" }).writes.map (·.kind) = [.open_, .auth] := by decide

end XmppVerif.Props.C14Neg

#print axioms XmppVerif.Props.C14Neg.C14_session_only_success
#print axioms XmppVerif.Props.C14Neg.C14_session_failure_permanent
#print axioms XmppVerif.Props.C14Neg.C14_session_mech_gate
