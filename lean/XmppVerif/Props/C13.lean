import XmppVerif.Model.C13
/-
C13 - StreamManager re-establishes exactly one working session after each loss.
-/
namespace XmppVerif.Props.C13
open XmppVerif.Model.C13

/-- a run of reconnection attempts that eventually succeeds: some transient failures, then ok -/
def succeeds : List Attempt → Bool
  | .ok :: _ => true
  | .transient :: rest => succeeds rest
  | _ => false

/-- number of transient failures before the first non-transient outcome -/
def transients : List Attempt → Nat
  | .transient :: rest => transients rest + 1
  | _ => 0

theorem retry_success (atts : List Attempt) (h : succeeds atts = true) : ∀ o : Out,
    retry atts o = { o with sessions := o.sessions + 1, postConnect := o.postConnect + 1,
                            receivers := o.receivers + 1,
                            attempts := o.attempts + transients atts + 1, waits := o.waits + transients atts } := by
  induction atts with
  | nil => simp [succeeds] at h
  | cons a rest ih =>
    intro o
    cases a with
    | ok => simp [retry, transients]
    | permanent => simp [succeeds] at h
    | transient =>
      simp only [succeeds] at h
      simp only [retry, transients, ih h]
      congr 1 <;> omega

/-- **Exactly one new session per loss**: if after every termination (abrupt or graceful) the server eventually
accepts again, then after k terminations there are exactly k+1 sessions, the post-connect callback ran once per
session, one receive loop (with its keepalive) was started per session, nothing gave up and nothing is left
retrying; every attempt was preceded by exactly one back-off wait per earlier failure (no reconnect storm). -/
theorem C13_one_session_per_loss (ls : List (Ending × List Attempt)) (h : ∀ l ∈ ls, succeeds l.2 = true) :
    ∀ o : Out, o.gaveUp = false → o.retrying = false →
      let r := lives ls o
      r.sessions = o.sessions + ls.length ∧ r.postConnect = o.postConnect + ls.length ∧
      r.receivers = o.receivers + ls.length ∧ r.gaveUp = false ∧ r.retrying = false ∧
      r.attempts = o.attempts + ls.length + (ls.map (fun l => transients l.2)).sum ∧
      r.waits = o.waits + (ls.map (fun l => transients l.2)).sum := by
  induction ls with
  | nil => intro o hg hr; simp [lives, hg, hr]
  | cons l rest ih =>
    intro o hg hr
    obtain ⟨s1, s2, s3, s4, s5, g, rt, ff⟩ := o
    simp only at hg hr
    subst hg hr
    obtain ⟨e, atts⟩ := l
    have hs := h (e, atts) (by simp)
    have ih' := ih (fun l hl => h l (List.mem_cons_of_mem _ hl))
    simp only [lives, retry_success atts hs, Bool.or_self, Bool.false_eq_true, if_false]
    have := ih' ⟨s1 + 1, s2 + 1, s3 + 1, s4 + transients atts + 1, s5 + transients atts, false, false, ff⟩ rfl rfl
    simp only [List.length_cons, List.map_cons, List.sum_cons] at this ⊢
    obtain ⟨h1, h2, h3, h4, h5, h6, h7⟩ := this
    refine ⟨by omega, by omega, by omega, h4, h5, by omega, by omega⟩

theorem C13_run_one_session_per_loss (ls : List (Ending × List Attempt)) (h : ∀ l ∈ ls, succeeds l.2 = true) :
    (run ⟨.ok, ls⟩).sessions = ls.length + 1 ∧ (run ⟨.ok, ls⟩).postConnect = ls.length + 1 ∧
    (run ⟨.ok, ls⟩).receivers = ls.length + 1 ∧ (run ⟨.ok, ls⟩).gaveUp = false := by
  have := C13_one_session_per_loss ls h ⟨1, 1, 1, 1, 0, false, false, false⟩ rfl rfl
  simp only [run]
  simp only at this
  obtain ⟨h1, h2, h3, h4, _, _, _⟩ := this
  exact ⟨by omega, by omega, by omega, h4⟩

/-- the post-connect callback runs once per session and a receive loop is started per session, in every run -/
theorem retry_counts (atts : List Attempt) : ∀ o : Out, o.postConnect = o.sessions → o.receivers = o.sessions →
    (retry atts o).postConnect = (retry atts o).sessions ∧ (retry atts o).receivers = (retry atts o).sessions := by
  induction atts with
  | nil => intro o h1 h2; simp [retry, h1, h2]
  | cons a rest ih =>
    intro o h1 h2
    cases a with
    | ok => simp [retry, h1, h2]
    | permanent => simp [retry, h1, h2]
    | transient => exact ih _ (by simp [h1]) (by simp [h2])

theorem C13_postconnect_once_per_session (s : Script) :
    (run s).postConnect = (run s).sessions ∧ (run s).receivers = (run s).sessions := by
  have key : ∀ (ls : List (Ending × List Attempt)) (o : Out), o.postConnect = o.sessions → o.receivers = o.sessions →
      (lives ls o).postConnect = (lives ls o).sessions ∧ (lives ls o).receivers = (lives ls o).sessions := by
    intro ls
    induction ls with
    | nil => intro o h1 h2; exact ⟨h1, h2⟩
    | cons l rest ih =>
      intro o h1 h2
      obtain ⟨e, atts⟩ := l
      have := retry_counts atts o h1 h2
      simp only [lives]
      split
      · exact this
      · exact ih _ this.1 this.2
  unfold run
  cases s.first with
  | ok => exact key _ _ rfl rfl
  | transient => simp
  | permanent => simp

/-- **A permanent error ends the retry loop**: after transient failures and then a permanent one, exactly that many
attempts were made, no further attempt is ever made for this or any later script entry, and no session appears. -/
theorem C13_permanent_stops (pre : List Attempt) (post : List Attempt) (hpre : ∀ a ∈ pre, a = .transient) (o : Out) :
    retry (pre ++ .permanent :: post) o =
      { o with attempts := o.attempts + pre.length + 1, waits := o.waits + pre.length, gaveUp := true } := by
  induction pre generalizing o with
  | nil => simp [retry]
  | cons a rest ih =>
    have ha := hpre a (by simp)
    subst ha
    have ih' := ih (fun a h => hpre a (List.mem_cons_of_mem _ h))
    simp only [List.cons_append, retry, ih', List.length_cons]
    congr 1 <;> omega

theorem C13_gave_up_is_final (rest : List (Ending × List Attempt)) (e : Ending) (atts : List Attempt) (o : Out)
    (h : (retry atts o).gaveUp = true) : lives ((e, atts) :: rest) o = retry atts o := by
  simp [lives, h]

/-- a failed FIRST connection is returned by `Run` and leaves nothing running: no retry, no session -/
theorem C13_first_failure_returns (a : Attempt) (ls : List (Ending × List Attempt)) (h : a ≠ .ok) :
    run ⟨a, ls⟩ = ⟨0, 0, 0, 1, 0, false, false, true⟩ := by
  cases a <;> simp_all [run]

-- non-vacuity
example : run ⟨.ok, [(.drop, [.transient, .transient, .ok]), (.graceful, [.ok])]⟩
    = ⟨3, 3, 3, 5, 2, false, false, false⟩ := by decide
example : run ⟨.ok, [(.drop, [.transient, .permanent, .ok]), (.drop, [.ok])]⟩
    = ⟨1, 1, 1, 3, 1, true, false, false⟩ := by decide

end XmppVerif.Props.C13

#print axioms XmppVerif.Props.C13.retry_success
#print axioms XmppVerif.Props.C13.C13_one_session_per_loss
#print axioms XmppVerif.Props.C13.C13_run_one_session_per_loss
#print axioms XmppVerif.Props.C13.C13_postconnect_once_per_session
#print axioms XmppVerif.Props.C13.C13_permanent_stops
#print axioms XmppVerif.Props.C13.C13_gave_up_is_final
#print axioms XmppVerif.Props.C13.C13_first_failure_returns
