/-
Shared helpers for the line protocol (core Lean only; linked into the `driver` executable).
Strings travel hex-encoded (UTF-8 bytes) so that NUL, tabs, newlines and quotes survive.
-/
namespace XmppVerif.Util

def hexDigit (n : Nat) : Char :=
  if n < 10 then Char.ofNat (48 + n) else Char.ofNat (87 + n)

def hexVal (c : Char) : Option Nat :=
  if '0' ≤ c ∧ c ≤ '9' then some (c.toNat - 48)
  else if 'a' ≤ c ∧ c ≤ 'f' then some (c.toNat - 87)
  else if 'A' ≤ c ∧ c ≤ 'F' then some (c.toNat - 55)
  else none

def bytesToHex (bs : List UInt8) : String :=
  String.ofList (bs.flatMap fun b => [hexDigit (b.toNat / 16), hexDigit (b.toNat % 16)])

def hexToBytesAux : List Char → Option (List UInt8)
  | [] => some []
  | [_] => none
  | a :: b :: rest => do
      let x ← hexVal a
      let y ← hexVal b
      let r ← hexToBytesAux rest
      pure (UInt8.ofNat (x * 16 + y) :: r)

/-- `-` encodes the empty string (so that a field is never empty). -/
def hexToBytes (s : String) : Option (List UInt8) :=
  if s = "-" then some [] else hexToBytesAux s.toList

def encBytes (bs : List UInt8) : String :=
  if bs.isEmpty then "-" else bytesToHex bs

def encStr (s : String) : String := encBytes s.toUTF8.toList

def decStr (h : String) : Option String := do
  let bs ← hexToBytes h
  String.fromUTF8? (ByteArray.mk bs.toArray)

def boolStr (b : Bool) : String := if b then "true" else "false"

def parseInt (s : String) : Option Int := s.toInt?

def parseBool (s : String) : Option Bool :=
  if s = "true" then some true else if s = "false" then some false else none

end XmppVerif.Util
