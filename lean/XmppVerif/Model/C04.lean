import XmppVerif.Model.Neg
/-
Refinement of the `tlsOk` parameter of the negotiation model: `XMPPTransport.StartTLS` (xmpp_transport.go).
`tls.Client(conn, cfg).Handshake()` verifies the chain and `cfg.ServerName` unless `InsecureSkipVerify`
(crypto/tls - trusted, a parameter here); then `VerifyHostname(Config.Domain)` unless `InsecureSkipVerify`;
only then `isSecure = true`.
-/
namespace XmppVerif.Model.C04

structure TlsCfg where
  skipVerify : Bool        -- TLSConfig.InsecureSkipVerify
  rootsKnowCA : Bool       -- TLSConfig.RootCAs contains the issuer of the server's chain
  serverName : String      -- TLSConfig.ServerName ("" = unset: defaults to the domain)
  domain : String          -- Config.Domain
  deriving DecidableEq, Repr

structure Cert where
  signedByCA : Bool        -- chain leads to the CA the test minted
  unexpired : Bool
  names : List String      -- DNS names the certificate is valid for
  deriving DecidableEq, Repr

def effectiveServerName (t : TlsCfg) : String := if t.serverName == "" then t.domain else t.serverName

/-- crypto/tls handshake verification (trusted behaviour): chain, validity period, ServerName -/
def handshakeVerifies (t : TlsCfg) (c : Cert) : Bool :=
  t.skipVerify || (t.rootsKnowCA && c.signedByCA && c.unexpired && c.names.contains (effectiveServerName t))

/-- `StartTLS()` returns nil and sets `isSecure` -/
def startTLSOk (t : TlsCfg) (c : Cert) : Bool :=
  handshakeVerifies t c && (t.skipVerify || c.names.contains t.domain)

/-! ### WebSocket transport

`WebsocketTransport` cannot do STARTTLS (`DoesStartTLS` = false) and is secure exactly when the URL scheme is `wss`
(`IsSecure`; the TLS session is the one of the HTTP upgrade). `NewSession` tries STARTTLS only on an insecure
transport and applies the SAME gate to every transport: not secure and not `Insecure` → permanent error before SASL. -/

/-- does `NewSession` go on to SASL on a WebSocket transport, and under which secure flag -/
def wsGate (insecure wss : Bool) : Option Bool :=
  if wss then some true else if insecure then some false else none

/-- what the client writes on a WebSocket connection to a server that completes every step it is asked for -/
def wsWrites (insecure wss : Bool) : List Neg.Write :=
  match wsGate insecure wss with
  | none => [⟨.open_, false⟩]
  | some sec => [⟨.open_, sec⟩, ⟨.auth, sec⟩, ⟨.open_, sec⟩, ⟨.bind, sec⟩]

end XmppVerif.Model.C04
