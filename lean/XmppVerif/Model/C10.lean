import XmppVerif.Model.C17
/-
Model of the outbound stream-management path: `Client.Send` / `Client.SendRaw` (client.go) and
`SendMissingStz` (router.go), as they are after fix F-10, over the queue model of C17.
A "write" is one call of `transport.Write` with these bytes. `h` is the value of an inbound `<a h='…'/>`.
-/
namespace XmppVerif.Model.C10
open XmppVerif.Model.C17

/-- `xml.Marshal(stanza.SMRequest{})` -/
def rBytes : String := "<r xmlns=\"urn:xmpp:sm:3\"></r>"

inductive Op where
  | sendStanza (bytes : String)   -- Send(message | presence | iq): bytes = xml.Marshal(packet)
  | sendNonza (bytes : String)    -- Send(SMRequest | SMAnswer): written, never held
  | sendRaw (s : String)          -- SendRaw(s)
  | ack (h : Nat)                 -- inbound <a h='h'/> reaching Router.route
  | sendFail (s : String)         -- Send / SendRaw of a stanza whose write fails (an error is returned): it was stored
                                  -- before the write and stays held - nothing else changes, in particular not the head
  | ackFail (h : Nat)             -- as `ack h`, but the connection is dead: every write of the retransmission fails
                                  -- (the acknowledged stanzas are discarded, nothing is written, nothing else changes -
                                  -- in particular the session stays usable: the next ops behave as always)
  | inbound                       -- an inbound stanza handled by Client.recv: nothing is written, nothing held
  | req (answer : String)         -- inbound <r/> reaching Client.recv: the client writes the answer (the bytes of
                                  -- `<a h='inbound count'/>`; the count itself is C09's), through Send: never held
  | freshSession                  -- a reconnection on which the server refused the resumption (<failed/>, another
                                  -- previd) and stream management was enabled anew: the held stanzas and the numbering
                                  -- of the old session are gone (Session.resume clears SMState, EnableStreamManagement
                                  -- installs a new queue) - the server's h restarts at 0 as well
  | resumed                       -- a reconnection on which the server confirmed the resumption: the session goes on,
                                  -- held stanzas and numbering untouched, nothing is written by the negotiation
  deriving DecidableEq, Repr

/-- State: `Session.SMState.UnAckQueue` (stream management active: `Config.StreamManagementEnable = true`). -/
abbrev St := QS

/-- `SendMissingStz`: drop every head entry whose sequence number is ≤ h. -/
def dropAcked (h : Nat) : Q → Q
  | [] => []
  | e :: r => if e.id ≤ h then dropAcked h r else e :: r

/-- one op: new state and the list of writes it caused, in order -/
def step (s : St) : Op → St × List String
  | .sendStanza b => (pushS s b, [b])
  | .sendNonza b  => (s, [b])
  | .sendRaw b    => (pushS s b, [b])
  | .sendFail b   => (pushS s b, [])
  | .req b        => (s, [b])
  | .inbound      => (s, [])
  | .ack h =>
    let q' := dropAcked h s.q
    ({ s with q := q' }, if q'.isEmpty then [] else q'.map (·.stz) ++ [rBytes])
  | .ackFail h => ({ s with q := dropAcked h s.q }, [])
  | .freshSession => (⟨[], 0⟩, [])
  | .resumed => (s, [])

def run (s : St) : List Op → St × List (List String)
  | [] => (s, [])
  | op :: ops =>
    let (s', w) := step s op
    let (s'', ws) := run s' ops
    (s'', w :: ws)

end XmppVerif.Model.C10
