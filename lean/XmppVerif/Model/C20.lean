/-
Model of `ensurePort` (network.go) and of the transport choice in `NewClientTransport` /
`NewComponentTransport` (transport.go). Addresses are lists of characters (ASCII structure only matters).
-/
namespace XmppVerif.Model.C20

/-- `strings.LastIndex(s, c)` for a one-character needle: -1 when absent. -/
def lastIndex (c : Char) : List Char → Int
  | [] => -1
  | x :: xs =>
    let r := lastIndex c xs
    if r ≥ 0 then r + 1 else if x = c then 0 else -1

def defaultPort : Nat := 5222

/-- `strconv.Itoa` for a non-negative port. -/
def itoa (n : Nat) : List Char := (toString n).toList

/-- `ensurePort(addr, port)`. -/
def ensurePort (addr : List Char) (port : Nat) : List Char :=
  if addr.head? = some '[' then
    if lastIndex ':' addr ≤ lastIndex ']' addr then addr ++ ':' :: itoa port else addr
  else
    match addr.count ':' with
    | 0 => addr ++ ':' :: itoa port
    | 1 => addr
    | _ => '[' :: addr ++ ']' :: ':' :: itoa port

/-- split at the LAST occurrence of `c`: `(before, after)`; `none` when `c` does not occur -/
def splitLast (c : Char) : List Char → Option (List Char × List Char)
  | [] => none
  | x :: xs =>
    match splitLast c xs with
    | some (a, b) => some (x :: a, b)
    | none => if x = c then some ([], xs) else none

/-- `net.SplitHostPort` (Go's net/ipsock.go), which is what the dialer applies to the address it is given:
`none` = an error ("missing port", "too many colons", "missing ']'", "unexpected '['/']'"). -/
def splitHostPort (s : List Char) : Option (List Char × List Char) :=
  match splitLast ':' s with
  | none => none                                             -- missing port in address
  | some (pre, port) =>
    if s.head? = some '[' then
      -- the first ']' has to be followed directly by the last ':'
      let inner := s.tail
      let host := inner.takeWhile (· != ']')
      match inner.dropWhile (· != ']') with
      | [] => none                                           -- missing ']' in address
      | _ :: after =>
        match after with
        | [] => none                                         -- missing port
        | a :: t =>
          if a != ':' then none                              -- missing port
          else if t.contains ':' then none                   -- too many colons
          else if inner.contains '[' then none               -- unexpected '['
          else if after.contains ']' then none               -- unexpected ']'
          else some (host, t)
    else
      if pre.contains ':' then none                          -- too many colons
      else if s.contains '[' then none
      else if s.contains ']' then none
      else some (pre, port)

inductive Transport where
  | xmpp (dial : List Char)
  | ws
  | refused
  deriving DecidableEq, Repr

def isWs (addr : List Char) : Bool :=
  ['w', 's', ':'].isPrefixOf addr || ['w', 's', 's', ':'].isPrefixOf addr

def clientTransport (addr : List Char) : Transport :=
  if isWs addr then .ws else .xmpp (ensurePort addr defaultPort)

def componentTransport (addr : List Char) : Transport :=
  if isWs addr then .refused else .xmpp (ensurePort addr defaultPort)

end XmppVerif.Model.C20
