/-
Model of `Router.route` / `Router.Match` / `Route.Match` and the three matchers (router.go), plus
`iqNotImplemented` / `IQ.MakeError` (stanza/iq.go). The IQ-result side table is the subject of C07 and is
empty here; the SMAnswer hook only fires for a *Client sender (C10).
Matcher strings are lower-cased at registration as `Packet`, `StanzaType`, `IQNamespaces` do
(ASCII lower-casing; non-ASCII case mapping of strings.ToLower is not modelled).
-/
namespace XmppVerif.Model.C06

inductive Kind where
  | message | presence | iq | other
  deriving DecidableEq, Repr

structure Pkt where
  kind : Kind
  type : String
  payloadNs : Option String     -- IQ only: Payload.Namespace() when Payload != nil
  id : String
  from_ : String
  to : String
  deriving DecidableEq, Repr

inductive Matcher where
  | name (n : String)            -- nameMatcher
  | stype (ts : List String)     -- nsTypeMatcher
  | iqns (ns : List String)      -- nsIQMatcher
  deriving DecidableEq, Repr

def lower (s : String) : String := String.ofList (s.toList.map Char.toLower)

/-- registration: `Route.Packet`, `Route.StanzaType`, `Route.IQNamespaces` lower-case their arguments -/
def register : Matcher → Matcher
  | .name n => .name (lower n)
  | .stype ts => .stype (ts.map lower)
  | .iqns ns => .iqns (ns.map lower)

/-- `nameMatcher.Match`: the type switch leaves `name` empty for non-stanza packets -/
def pktName : Kind → String
  | .message => "message" | .iq => "iq" | .presence => "presence" | .other => ""

def matchInArray (arr : List String) (v : String) : Bool := arr.any (· == v)

def Matcher.accepts (m : Matcher) (p : Pkt) : Bool :=
  match m with
  | .name n => pktName p.kind == n
  | .stype ts =>
    match p.kind with
    | .iq | .presence => matchInArray ts p.type
    | .message => matchInArray ts (if p.type == "" then "normal" else p.type)
    | .other => false
  | .iqns ns =>
    match p.kind, p.payloadNs with
    | .iq, some n => matchInArray ns n
    | _, _ => false

abbrev Route := List Matcher     -- registered (already lower-cased) matchers, conjunction

def Route.accepts (r : Route) (p : Pkt) : Bool := r.all (·.accepts p)

/-- `Router.Match`: index of the first route that accepts. -/
def dispatch (routes : List Route) (p : Pkt) : Option Nat := routes.findIdx? (·.accepts p)

structure Reply where
  type : String
  id : String
  from_ : String
  to : String
  code : Nat
  etype : String
  reason : String
  deriving DecidableEq, Repr

/-- `iqNotImplemented` via `MakeError`: type error, from/to swapped, id kept. -/
def notImplemented (p : Pkt) : Reply :=
  ⟨"error", p.id, p.to, p.from_, 501, "cancel", "feature-not-implemented"⟩

structure Out where
  handled : List Nat      -- indices of the routes whose handler ran, in order
  replies : List Reply    -- what was sent back through the Sender
  deriving DecidableEq, Repr

/-- `Router.route` with an empty IQ-result table. -/
def route (routes : List Route) (p : Pkt) : Out :=
  match dispatch routes p with
  | some i => ⟨[i], []⟩
  | none =>
    if p.kind == .iq && (p.type == "get" || p.type == "set") then ⟨[], [notImplemented p]⟩
    else ⟨[], []⟩

end XmppVerif.Model.C06
