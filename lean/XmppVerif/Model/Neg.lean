/-
Model of session negotiation: `Client.connect` → `XMPPTransport.Connect` → `NewSession` and its step functions
(session.go, auth.go, xmpp_transport.go), as they are after the fixes F-03 (bind / session replies must be IQ results)
and F-04 (`isSecure` and `TlsEnabled` are per connection). One `Script` = what the server does on one connection, one
reply class per step; what the client writes is the output. Strings (ids, JIDs) are parameters.
-/
namespace XmppVerif.Model.Neg

/-- the part of `<stream:features>` the negotiation looks at -/
structure Features where
  starttls : Bool           -- <starttls/> offered
  mech : Bool               -- a SASL mechanism supported by the credential is offered
  sm : Bool                 -- <sm xmlns='urn:xmpp:sm:3'/> advertised
  sessionMandatory : Bool   -- <session/> present without <optional/>
  deriving DecidableEq, Repr

inductive ConnR where | ok | dialFail | headerFail  deriving DecidableEq, Repr
inductive TlsR where | proceed | failure | other | closed  deriving DecidableEq, Repr
inductive AuthR where | success | failure | otherPacket | undecodable  deriving DecidableEq, Repr
inductive ResR where | resumedSame | resumedOther | failed | otherPacket | undecodable  deriving DecidableEq, Repr
inductive BindR where | resultBind | errorBind | resultNoBind | nonIq | undecodable  deriving DecidableEq, Repr
inductive SessR where | result | error | nonIq | undecodable  deriving DecidableEq, Repr
inductive EnR where | enabled (canResume : Bool) | failed | otherPacket | undecodable  deriving DecidableEq, Repr

structure Script where
  conn      : ConnR
  feat1     : Option Features     -- none: the features element cannot be decoded / stream closed
  tlsReply  : TlsR
  tlsOk     : Bool                -- `StartTLS()` returns nil: handshake and the configured verification succeed
  open2     : Bool                -- stream restart after TLS: header received
  feat2     : Option Features
  authReply : AuthR
  open3     : Bool                -- stream restart after SASL
  feat3     : Option Features
  resumeReply : ResR
  bindReply : BindR
  sessReply : SessR
  enableReply : EnR
  newSmId   : String              -- id attribute of <enabled/>
  bindJid   : String              -- <jid/> of the bind result
  deriving DecidableEq, Repr

structure Cfg where
  insecure : Bool
  deriving DecidableEq, Repr

/-- what survives between connections: `Client.Session` (nil or not), `Config.StreamManagementEnable` -/
structure Sess where
  present : Bool          -- c.Session != nil
  smId    : String        -- Session.SMState.Id
  inbound : Nat           -- Session.SMState.Inbound
  bindJid : String
  smReq   : Bool          -- Config.StreamManagementEnable (the server's <enabled resume='false'/> switches it off)
  deriving DecidableEq, Repr

inductive WKind where
  | open_ | starttls | auth | resume (previd : String) (h : Nat) | bind | session | enable
  deriving DecidableEq, Repr

structure Write where
  kind   : WKind
  secure : Bool      -- written after a successful StartTLS on this connection
  deriving DecidableEq, Repr

inductive Outcome where
  | established
  | failed (permanent : Bool)
  deriving DecidableEq, Repr

structure Result where
  outcome : Outcome
  writes  : List Write
  sess    : Sess
  secure  : Bool      -- transport.IsSecure() at the end
  resumed : Bool      -- established by resumption (no bind)
  deriving DecidableEq, Repr

def Sess.dropped (s : Sess) : Sess := { s with present := false, smId := "", inbound := 0, bindJid := "" }
def Sess.clearSM (s : Sess) : Sess := { s with smId := "", inbound := 0 }

/-- steps 7-10: resume or bind (+ session, + enable). The `writes` of the result are only those of these steps,
in order; `sec` = the secure flag they are written under. -/
def afterAuth (s : Sess) (sec : Bool) (f3 : Features) (sc : Script) : Result :=
  let fail (s : Sess) (w : List Write) : Result := ⟨.failed false, w, s, sec, false⟩
  -- attempt resumption
  let tryResume := f3.sm && s.smId != ""
  let w1 : List Write := if tryResume then [⟨.resume s.smId s.inbound, sec⟩] else []
  if tryResume && sc.resumeReply == .resumedSame then
    ⟨.established, w1, s, sec, true⟩
  else if tryResume && sc.resumeReply != .failed then
    fail s.clearSM w1                                   -- mismatched id / unexpected reply / stream error
  else
    let s := if tryResume then s.clearSM else s         -- <failed/>: drop the stale state, bind a fresh session
    -- bind
    let w2 := w1 ++ [⟨.bind, sec⟩]
    if sc.bindReply != .resultBind then fail s w2
    else
      let s := { s with bindJid := sc.bindJid }
      -- legacy session, when mandatory
      let w3 := if f3.sessionMandatory then w2 ++ [⟨.session, sec⟩] else w2
      if f3.sessionMandatory && sc.sessReply != .result then fail s w3
      else
        -- stream management
        if f3.sm && s.smReq then
          let w4 := w3 ++ [⟨.enable, sec⟩]
          match sc.enableReply with
          | .enabled canResume =>
            ⟨.established, w4, { s with smId := sc.newSmId, inbound := 0, smReq := s.smReq && canResume }, sec, false⟩
          | .failed => fail s.clearSM w4
          | _ => fail s w4
        else ⟨.established, w3, s, sec, false⟩

/-- the session object `NewSession` works on: the previous one, or a fresh one -/
def sfix (s0 : Sess) : Sess := if s0.present then s0 else { s0.dropped with present := true }

/-- outcome of the steps up to and including the stream restart after SASL -/
inductive Phase1 where
  | stop (r : Result)                                        -- the connection attempt ended here
  | go (sec : Bool) (f3 : Features) (w : List Write)         -- continue with resume / bind under these features
  deriving DecidableEq, Repr

/-- `XMPPTransport.Connect` + the first half of `NewSession`: features, STARTTLS, SASL, stream restarts -/
def phase1 (cfg : Cfg) (s0 : Sess) (sc : Script) : Phase1 :=
  let w0 : List Write := [⟨.open_, false⟩]
  match sc.conn with
  | .dialFail => .stop ⟨.failed false, [], s0, false, false⟩     -- a refused dial can be retried (fix F-13d)
  | .headerFail => .stop ⟨.failed false, w0, s0, false, false⟩
  | .ok =>
    -- NewSession: reuse the session object if there is one
    let s : Sess := sfix s0
    match sc.feat1 with
    | none => .stop ⟨.failed true, w0, s0.dropped, false, false⟩          -- NewSession returns nil: the session is lost
    | some f1 =>
      -- STARTTLS
      let w1 := if f1.starttls then w0 ++ [⟨.starttls, false⟩] else w0
      let tlsDone := f1.starttls && sc.tlsReply == .proceed && sc.tlsOk
      let tlsErr := (f1.starttls && !tlsDone) || (!f1.starttls && !cfg.insecure)
      if !tlsDone && !cfg.insecure then .stop ⟨.failed true, w1, s0.dropped, false, false⟩
      else if tlsErr then .stop ⟨.failed false, w1, s, false, false⟩    -- insecure allowed, but STARTTLS broke the stream
      else
        -- stream restart after TLS
        let w2 := if tlsDone then w1 ++ [⟨.open_, true⟩] else w1
        let fA : Option Features := if tlsDone then (if sc.open2 then sc.feat2 else none) else some f1
        match fA with
        | none => .stop ⟨.failed false, w2, s, tlsDone, false⟩
        | some fa =>
          -- SASL
          if !fa.mech then .stop ⟨.failed true, w2, s, tlsDone, false⟩
          else
            let w3 := w2 ++ [⟨.auth, tlsDone⟩]
            match sc.authReply with
            | .failure => .stop ⟨.failed true, w3, s, tlsDone, false⟩
            | .otherPacket => .stop ⟨.failed false, w3, s, tlsDone, false⟩
            | .undecodable => .stop ⟨.failed false, w3, s, tlsDone, false⟩
            | .success =>
              let w4 := w3 ++ [⟨.open_, tlsDone⟩]
              if !sc.open3 then .stop ⟨.failed false, w4, s, tlsDone, false⟩
              else match sc.feat3 with
                | none => .stop ⟨.failed false, w4, s, tlsDone, false⟩
                | some f3 => .go tlsDone f3 w4

/-- one connection attempt: `Client.connect()` -/
def negotiate (cfg : Cfg) (s0 : Sess) (sc : Script) : Result :=
  match phase1 cfg s0 sc with
  | .stop r => r
  | .go sec f3 w =>
    let r := afterAuth (sfix s0) sec f3 sc
    { r with writes := w ++ r.writes }

/-- a history of connections on one client -/
def connectAll (cfg : Cfg) (s : Sess) : List Script → List Result
  | [] => []
  | sc :: rest =>
    let r := negotiate cfg s sc
    r :: connectAll cfg r.sess rest

end XmppVerif.Model.Neg
