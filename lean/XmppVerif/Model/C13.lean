/-
Model of the supervision loop: `StreamManager.Run / connect / resume / Stop` (stream_manager.go) together with what
`Client.Connect`, `Client.Resume` and `Client.connect` start (client.go), after the fixes F-13a (Resume starts the
receive loop and the keepalive), F-13b (a failed negotiation does not raise a Disconnected event), F-13c (a graceful
`</stream:stream>` raises one) and F-13d (a failed dial is not a permanent error).
One `Life` = one established connection: how it ends, and the outcomes of the reconnection attempts that follow.
-/
namespace XmppVerif.Model.C13

inductive Attempt where
  | ok          -- the server accepts and completes the negotiation
  | transient   -- refused dial, or a negotiation failure that is not permanent
  | permanent   -- rejected credentials, TLS policy failure
  deriving DecidableEq, Repr

inductive Ending where
  | drop        -- abrupt loss: the receive loop gets a read error
  | graceful    -- the server sends `</stream:stream>`
  | wfail       -- the read side still works, the write of the `<a/>` answer to the server's `<r/>` fails
  deriving DecidableEq, Repr

/-- a fault script: the first connection attempt, then for each established connection how it ends and what the
following reconnection attempts meet -/
structure Script where
  first : Attempt
  lives : List (Ending × List Attempt)
  deriving Repr

structure Out where
  sessions      : Nat     -- sessions established (Connect or Resume returned nil)
  postConnect   : Nat     -- PostConnect callback invocations
  receivers     : Nat     -- receive loops (+ keepalives) started
  attempts      : Nat     -- connection attempts made (dials)
  waits         : Nat     -- back-off waits taken
  gaveUp        : Bool    -- a permanent error ended the retry loop
  retrying      : Bool    -- the retry loop is still running (the script ran out of attempts)
  firstFailed   : Bool    -- Run returned the error of the first connection
  deriving DecidableEq, Repr

/-- `StreamManager.resume`: try until success or a permanent error; back off after each transient failure -/
def retry : List Attempt → Out → Out
  | [], o => { o with retrying := true }
  | .ok :: _, o => { o with sessions := o.sessions + 1, postConnect := o.postConnect + 1,
                            receivers := o.receivers + 1, attempts := o.attempts + 1 }
  | .permanent :: _, o => { o with attempts := o.attempts + 1, gaveUp := true }
  | .transient :: rest, o => retry rest { o with attempts := o.attempts + 1, waits := o.waits + 1 }

/-- each established connection ends once; its Disconnected event starts exactly one retry loop -/
def lives : List (Ending × List Attempt) → Out → Out
  | [], o => o
  | (_, atts) :: rest, o =>
    let o' := retry atts o
    -- a further life exists only if a session was re-established
    if o'.gaveUp || o'.retrying then o' else lives rest o'

def run (s : Script) : Out :=
  let o0 : Out := ⟨0, 0, 0, 1, 0, false, false, false⟩
  match s.first with
  | .ok => lives s.lives { o0 with sessions := 1, postConnect := 1, receivers := 1 }
  | _ => { o0 with firstFailed := true }     -- `Run` returns the error; nothing is retried, nothing keeps running

end XmppVerif.Model.C13
