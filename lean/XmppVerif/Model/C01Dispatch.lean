import XmppVerif.Model.C01Compose
/-
C01: the two registered types whose hand-written UnmarshalXML is a dispatch on the child's local name
(pubsub_owner.go `PubSubOwner`, msg_pubsub_event.go `PubSubEvent`; as after the repair F-02: an unknown child is skipped).

  marshal    reflection (no MarshalXML): the tagged XMLName, no attributes, then the interface-typed field
             (`OwnerUseCase` / `EventElement`) - drilled to the struct it holds, written under that struct's tagged
             XMLName or, when it has none, under the FIELD's Go name (F-01k) - then, PubSubOwner only, `set` (ResultSet)
  unmarshal  XMLName = start.Name (no check, no attribute loop); for each child: `case "label":` a fresh value of the arm's
             Go type, Decoder.DecodeElement, assigned to the interface field (the last wins); any other child (and so the
             ResultSet: F-01l) is skipped.
The case tables and field lists are regenerated from the source and tied (Tie/C01Schema.lean).
-/
namespace XmppVerif.Model.C01S
open XmppVerif.Model.C01 hiding Schema Field FKind FVal FlatVal schemas fld conforms fvalOk encField decField decFields

structure DSpec where
  tyName : String
  name   : Name                    -- the tagged XMLName
  field  : String                  -- Go name of the interface-typed field
  cases  : List (String × String)  -- `case "label":` ↦ Go type decoded in that arm
  hasSet : Bool                    -- a trailing `ResultSet *ResultSet xml:"set,omitempty"` that the loop never reads
  deriving DecidableEq, Repr

structure DVal where
  sel : Option Ext     -- the interface field: nil, or a pointer to a struct of one of the Go types
  set : Val            -- ResultSet: .nil or .ref …   (hasSet only)

def encDispatch (d : DSpec) (v : DVal) : El :=
  .elem d.name []
    ((match v.sel with
      | some x => encD d.name.space ⟨[], d.field.toList⟩ false x.schema x.v
      | none => []) ++
     (if d.hasSet then (if isEmptyVal v.set then [] else encD d.name.space ⟨[], ['s', 'e', 't']⟩ true (.ptr tyResultSet) v.set)
      else []))

def dKid (d : DSpec) (v : DVal) : El → Option DVal
  | .elem n a ks =>
    match d.cases.lookup (String.ofList n.loc) with
    | some ty => (decExt ty (.elem n a ks)).map fun x => { v with sel := some x }
    | none => some v                                   -- d.Skip()
  | _ => some v

def decDispatch (d : DSpec) : El → Option DVal
  | .elem _ _ kids => foldKids (dKid d) ⟨none, .nil⟩ kids
  | _ => none

def dPubSubOwner : DSpec :=
  ⟨"PubSubOwner", ⟨"http://jabber.org/protocol/pubsub#owner".toList, "pubsub".toList⟩, "OwnerUseCase",
   [("affiliations", "AffiliationsOwner"), ("configure", "ConfigureOwner"), ("default", "DefaultOwner"),
    ("delete", "DeleteOwner"), ("purge", "PurgeOwner"), ("subscriptions", "SubscriptionsOwner")], true⟩

def dPubSubEvent : DSpec :=
  ⟨"PubSubEvent", ⟨"http://jabber.org/protocol/pubsub#event".toList, "event".toList⟩, "EventElement",
   [("collection", "CollectionEvent"), ("configuration", "ConfigurationEvent"), ("delete", "DeleteEvent"),
    ("items", "ItemsEvent"), ("purge", "PurgeEvent"), ("subscription", "SubscriptionEvent")], false⟩

def dispatchSpecs : List DSpec := [dPubSubOwner, dPubSubEvent]

/-- well-formed dispatcher: a name, a legal non-empty namespace -/
def DSpec.wf (d : DSpec) : Bool := nameOk d.name.loc && !d.name.space.isEmpty && legal d.name.space

/-- the class: no ResultSet (never read back: F-01l); the interface field nil or a value whose Go type has a well-formed
schema with a TAGGED XMLName (written under the field's name otherwise and then not recognised: F-01k) whose local name
is the label of the arm that decodes this very type; the value fits -/
def DVal.wf (d : DSpec) (v : DVal) : Bool :=
  (match v.set with | .nil => true | _ => false) &&
  (match v.sel with
   | none => true
   | some x =>
     match x.schema with
     | .struct _ (.tag n) _ _ =>
       Ty.wf x.schema && x.v.fits x.schema && d.cases.lookup (String.ofList n.loc) == some x.ty
     | _ => false)

end XmppVerif.Model.C01S
