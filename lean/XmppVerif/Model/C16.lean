import XmppVerif.Util
/-
Model of the XEP-0114 handshake in component.go: `Component.handshake` (SHA-1 of stream id ++ secret in lower-case
hex), the stream id picked by `stanza.InitStream`, and the reply handling of `Component.Resume`.
SHA-1 is written from FIPS 180-4 over `UInt32` (core Lean); it is tied to `crypto/sha1` by a correspondence op of
its own. Stream ids and secrets are BYTE strings.
-/
namespace XmppVerif.Model.C16

-- ---------------------------------------------------------------------------------------------
-- SHA-1 (FIPS 180-4, section 6.1)

def rotl (x : UInt32) (n : UInt32) : UInt32 := (x <<< n) ||| (x >>> (32 - n))

def be32 (w : UInt32) : List UInt8 :=
  [(w >>> 24).toUInt8, (w >>> 16).toUInt8, (w >>> 8).toUInt8, w.toUInt8]

/-- the 64-bit big-endian length field -/
def be64 (n : Nat) : List UInt8 :=
  [UInt8.ofNat (n / 2 ^ 56), UInt8.ofNat (n / 2 ^ 48), UInt8.ofNat (n / 2 ^ 40), UInt8.ofNat (n / 2 ^ 32),
   UInt8.ofNat (n / 2 ^ 24), UInt8.ofNat (n / 2 ^ 16), UInt8.ofNat (n / 2 ^ 8), UInt8.ofNat n]

def word (a b c d : UInt8) : UInt32 :=
  (a.toUInt32 <<< 24) ||| (b.toUInt32 <<< 16) ||| (c.toUInt32 <<< 8) ||| d.toUInt32

/-- section 5.1.1: 0x80, zero bytes up to 56 mod 64, then the bit length -/
def pad (msg : List UInt8) : List UInt8 :=
  msg ++ 0x80 :: (List.replicate ((119 - msg.length % 64) % 64) 0 ++ be64 (8 * msg.length))

def words : List UInt8 → List UInt32
  | a :: b :: c :: d :: rest => word a b c d :: words rest
  | _ => []

structure St where
  a : UInt32
  b : UInt32
  c : UInt32
  d : UInt32
  e : UInt32
  deriving DecidableEq, Repr

def init : St := ⟨0x67452301, 0xEFCDAB89, 0x98BADCFE, 0x10325476, 0xC3D2E1F0⟩

def f (t : Nat) (b c d : UInt32) : UInt32 :=
  if t < 20 then (b &&& c) ||| ((~~~ b) &&& d)
  else if t < 40 then b ^^^ c ^^^ d
  else if t < 60 then (b &&& c) ||| (b &&& d) ||| (c &&& d)
  else b ^^^ c ^^^ d

def k (t : Nat) : UInt32 :=
  if t < 20 then 0x5A827999 else if t < 40 then 0x6ED9EBA1 else if t < 60 then 0x8F1BBCDC else 0xCA62C1D6

/-- one round; `w` is the sliding window W[t .. t+15] of the message schedule -/
def round (t : Nat) (s : St) (w : List UInt32) : St × List UInt32 :=
  let wt := w.headD 0
  let tmp := rotl s.a 5 + f t s.b s.c s.d + s.e + k t + wt
  let nw := rotl (w.getD 13 0 ^^^ w.getD 8 0 ^^^ w.getD 2 0 ^^^ wt) 1
  (⟨tmp, s.a, rotl s.b 30, s.c, s.d⟩, w.tail ++ [nw])

def rounds : Nat → Nat → St → List UInt32 → St
  | 0, _, s, _ => s
  | n + 1, t, s, w =>
    let r := round t s w
    rounds n (t + 1) r.1 r.2

def compress (h : St) (block : List UInt32) : St :=
  let r := rounds 80 0 h block
  ⟨h.a + r.a, h.b + r.b, h.c + r.c, h.d + r.d, h.e + r.e⟩

def blocks : Nat → St → List UInt32 → St
  | 0, h, _ => h
  | n + 1, h, ws => blocks n (compress h (ws.take 16)) (ws.drop 16)

def sha1 (msg : List UInt8) : List UInt8 :=
  let p := pad msg
  let h := blocks (p.length / 64) init (words p)
  be32 h.a ++ be32 h.b ++ be32 h.c ++ be32 h.d ++ be32 h.e

-- ---------------------------------------------------------------------------------------------
-- hex and the digest

/-- `hex.EncodeToString`: two lower-case digits per byte -/
def hexLower (bs : List UInt8) : List Char :=
  bs.flatMap fun b => [Util.hexDigit (b.toNat / 16), Util.hexDigit (b.toNat % 16)]

def hexChars : List Char := "0123456789abcdef".toList

/-- `Component.handshake(streamId)`: hex(SHA1(streamId + c.Secret)) -/
def digest (streamId secret : List UInt8) : List Char := hexLower (sha1 (streamId ++ secret))

/-- `fmt.Sprintf("<handshake>%s</handshake>", …)` -/
def handshakeElement (d : List Char) : List Char := "<handshake>".toList ++ d ++ "</handshake>".toList

-- ---------------------------------------------------------------------------------------------
-- the stream id (stanza.InitStream)

/-- an attribute of the server's stream header as `encoding/xml` reports it: namespace ("" when the name has no
prefix), local name, unescaped value -/
structure Attr where
  space : String
  loc   : String
  value : List UInt8
  deriving DecidableEq, Repr

/-- the loop over `elem.Attr` in `InitStream`: a later matching attribute overwrites an earlier one -/
def streamIdOf (attrs : List Attr) : List UInt8 :=
  attrs.foldl (fun acc a => if a.space = "" ∧ a.loc = "id" then a.value else acc) []

-- ---------------------------------------------------------------------------------------------
-- Component.Resume

/-- the connection states of client.go (values of the ConnState constants) -/
inductive ConnState where
  | disconnected | resuming | sessionEstablished | streamError | permanentError
  deriving DecidableEq, Repr

def ConnState.code : ConnState → Nat
  | .disconnected => 0 | .resuming => 1 | .sessionEstablished => 2 | .streamError => 3 | .permanentError => 4

/-- what `transport.Connect()` did -/
inductive Connect where
  | refused                        -- NewComponentTransport or the dial failed
  | noStream                       -- connected, but no stream header came back
  | opened (attrs : List Attr)     -- stream header with these attributes
  deriving Repr

/-- what `stanza.NextPacket` returns after the handshake was written -/
inductive Reply where
  | handshake                      -- stanza.Handshake
  | streamError                    -- stanza.StreamError
  | other                          -- any other packet (stanza, features, stream close, SM nonza, ...)
  | decodeError                    -- NextPacket failed: closed, malformed, unknown namespace or element
  deriving DecidableEq, Repr

structure Result where
  /-- `none`: nil was returned; `some p`: a ConnError with Permanent = p -/
  err      : Option Bool
  /-- the states announced to the event handler, in order -/
  states   : List ConnState
  /-- the text written inside `<handshake>` (none: nothing written) -/
  sentDigest : Option (List Char)
  /-- `go c.recv()` was started: stanzas from the server get routed -/
  recvStarted : Bool
  deriving DecidableEq, Repr

def Result.established (r : Result) : Bool := r.states.contains .sessionEstablished

def resume (conn : Connect) (secret : List UInt8) (writeOk : Bool) (reply : Reply) : Result :=
  match conn with
  | .refused => ⟨some true, [.permanentError], none, false⟩
  | .noStream => ⟨some true, [.permanentError], none, false⟩
  | .opened attrs =>
    let d := digest (streamIdOf attrs) secret
    if !writeOk then ⟨some false, [.streamError], none, false⟩ else
    match reply with
    | .handshake => ⟨none, [.sessionEstablished], some d, true⟩
    | .streamError => ⟨some true, [.streamError], some d, false⟩
    | .other => ⟨some true, [.permanentError], some d, false⟩
    | .decodeError => ⟨some true, [.permanentError], some d, false⟩

end XmppVerif.Model.C16
