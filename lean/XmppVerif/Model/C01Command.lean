import XmppVerif.Model.C01Dispatch
/-
C01: stanza.Command (commands.go, XEP-0050), as after the repair F-02.
  marshal    reflection: `<command xmlns=…>` with the attributes action (omitempty), node, sessionid, status, lang
             (omitempty), then the CommandElements in order - each interface value drilled to what it holds: Actions /
             Note / Form under their tagged XMLNames (schema codec), a Node through Node.MarshalXML -, then the six error
             flags (`*struct{}`, omitempty), then `set` (ResultSet)
  unmarshal  hand-written: XMLName = start.Name; the five attributes by local name (the last wins); for each child:
             "actions" / "note" / "x" - a fresh Actions / Note / Form, DecodeElement, appended; ANY other child - the
             flags and the ResultSet included (F-01m) - a fresh Node, DecodeElement, appended.
The class of the theorem: no flag, no ResultSet (they would come back as Nodes), elements that are Actions or Form
values (Note.Text is `,cdata`: outside the schema codec, F-01f) or Nodes of the exact class whose root is not named
actions / note / x.
-/
namespace XmppVerif.Model.C01S
open XmppVerif.Model.C01 hiding Schema Field FKind FVal FlatVal schemas fld conforms fvalOk encField decField decFields

def nsCommands : Str := "http://jabber.org/protocol/commands".toList

structure CmdAttrs where
  action    : Str
  node      : Str
  sessionid : Str
  status    : Str
  lang      : Str
  deriving DecidableEq, Repr

inductive CmdEl where
  | ext (x : Ext)      -- *Actions, *Note, *Form
  | node (t : Tree)    -- *Node

structure CommandV where
  attrs : CmdAttrs
  elems : List CmdEl
  flags : List Bool    -- BadAction, BadLocale, BadPayload, BadSessionId, MalformedAction, SessionExpired
  set   : Val          -- ResultSet: .nil or .ref …

def cmdFlagNames : List Str :=
  ["bad-action", "bad-locale", "bad-payload", "bad-sessionid", "malformed-action", "session-expired"].map String.toList

/-- `case "label":` ↦ the Go type decoded in that arm (tied) -/
def cmdCases : List (String × String) := [("actions", "Actions"), ("note", "Note"), ("x", "Form")]

def actionL : Str := "action".toList
def nodeL : Str := "node".toList
def sessionidL : Str := "sessionid".toList
def statusAL : Str := "status".toList
def langL : Str := "lang".toList

def cmdAttrPairs (a : CmdAttrs) : List (Str × Option Str) :=
  [(actionL, omitEmpty a.action), (nodeL, some a.node), (sessionidL, omitEmpty a.sessionid),
   (statusAL, omitEmpty a.status), (langL, omitEmpty a.lang)]

def encCmdEl : CmdEl → List El
  | .ext x => encD nsCommands ⟨[], "CommandElements".toList⟩ false x.schema x.v
  | .node t => [encNode t]

def encFlags : List Str → List Bool → List El
  | n :: ns, b :: bs => (if b then [.elem ⟨[], n⟩ [] []] else []) ++ encFlags ns bs
  | _, _ => []

def encCommand (v : CommandV) : El :=
  .elem ⟨nsCommands, "command".toList⟩ (mkAttrs (cmdAttrPairs v.attrs))
    (v.elems.flatMap encCmdEl ++ encFlags cmdFlagNames v.flags ++
     (if isEmptyVal v.set then [] else encD nsCommands ⟨[], ['s', 'e', 't']⟩ true (.ptr tyResultSet) v.set))

def cmdKid (acc : List CmdEl) : El → Option (List CmdEl)
  | .elem n a ks =>
    match cmdCases.lookup (String.ofList n.loc) with
    | some ty => (decExt ty (.elem n a ks)).map fun x => acc ++ [.ext x]
    | none => (decNode (.elem n a ks)).map fun t => acc ++ [.node t]
  | _ => some acc

def decCommand : El → Option CommandV
  | .elem _ attrs kids =>
    (foldKids cmdKid [] kids).map fun els =>
      ⟨⟨lastAttr actionL attrs, lastAttr nodeL attrs, lastAttr sessionidL attrs, lastAttr statusAL attrs,
        lastAttr langL attrs⟩, els, [false, false, false, false, false, false], .nil⟩
  | _ => none

def CmdEl.wf : CmdEl → Bool
  | .ext x =>
    (match x.schema with
     | .struct _ (.tag n) _ _ =>
       Ty.wf x.schema && x.v.fits x.schema && cmdCases.lookup (String.ofList n.loc) == some x.ty
     | _ => false)
  | .node (.mk n a c ns) =>
    (Tree.mk n a c ns).wf nsCommands && (cmdCases.lookup (String.ofList n.loc)).isNone

def CommandV.wf (v : CommandV) : Bool :=
  legal v.attrs.action && legal v.attrs.node && legal v.attrs.sessionid && legal v.attrs.status && legal v.attrs.lang &&
  v.elems.all CmdEl.wf && v.flags == [false, false, false, false, false, false] &&
  (match v.set with | .nil => true | _ => false)

end XmppVerif.Model.C01S
