import XmppVerif.Model.C01Stanza
/-
C01, schema-driven generic codec: a Lean mirror of the part of encoding/xml's reflection walk (Go 1.23.5,
marshal.go `marshalValue` / `marshalStruct` / `marshalAttr`, read.go `Decoder.unmarshal` / `unmarshalPath` /
`unmarshalAttr` / `copyValue`, typeinfo.go `getTypeInfo` / `structFieldInfo`) that the struct tags of stanza/ use.

  Ty      a Go type as encoding/xml sees it: a primitive, a struct (its Go name, its XMLName, and per field - in the
          order of typeInfo.fields, embedded structs already flattened - the fieldInfo header `Hdr` = mode, (xmlns, name),
          omitempty, and the field's type), a pointer, a slice, an interface (always nil here), stanza.Node (custom
          codec, Model/C01Node.lean), or `unsupported` (a tag form / Go type outside this model: never well-formed).
  Val     a Go value of such a type.
  encD / encVal / encKids   marshalValue: omitempty test, pointer drilling, slices without wrapper, start-name
          precedence (tagged XMLName, dynamic XMLName, field name, type name), attributes first in field order, children in
          field order, `xmlns=""` for an empty dynamic XMLName under a namespaced parent.
  decInto / decKidF / decAnyF   Decoder.unmarshal INTO an existing value: XMLName check, attribute loop (every attribute
          whose local name - and namespace when the tag gives one - matches; every such value must parse; the last
          wins), child loop (first field in declaration order with equal name; otherwise the first `,any` field; otherwise
          Skip), pointer allocation, append for slices, overwrite for primitives, merge for structs, character data of
          direct children concatenated for primitives (numbers and bools TrimSpace'd, empty = zero value).
  marshalS / unmarshalS     the two directions at token level, through `view` (print + tokenize) and `parseElem`
          (Decoder.DecodeElement) of Model/C01Node.lean, so that results compose with the envelope theorems.

All functions are structurally recursive on `Ty` (nested inductive: mutual definitions).
Not modelled (=> `Mode.other` / `Ty.unsupported`, rejected by `Ty.wf`): `,chardata`, `,cdata`, `,comment`, `a>b` paths,
`,any,attr`, attributes or element fields whose tag names a namespace, TextMarshaler / Marshaler types other than Node and History (modelled as leaves).
-/
namespace XmppVerif.Model.C01S
open XmppVerif.Model.C01 hiding Schema Field FKind FVal FlatVal schemas fld conforms fvalOk encField decField decFields

/-- primitive Go kinds (`uint` is the 64-bit platform's; `int bits` covers int8 … int64 and int = 64) -/
inductive Prim where
  | str | bool | int (bits : Nat) | uint
  deriving DecidableEq, Repr

/-- fieldInfo.flags & fMode (only the modes stanza/ uses; `other` = anything else) -/
inductive Mode where
  | attr | elem | any | innerxml | other
  deriving DecidableEq, Repr

/-- the struct's XMLName field: none, tagged `xml:"[space ]local"`, or an untagged xml.Name (dynamic) -/
inductive XN where
  | absent | tag (n : Name) | dyn
  deriving DecidableEq, Repr

/-- fieldInfo of one field: mode, (xmlns, name) as computed by structFieldInfo, omitempty -/
structure Hdr where
  mode : Mode
  name : Name
  om   : Bool
  deriving DecidableEq, Repr

inductive Ty where
  | prim (k : Prim)
  | struct (tyName : Str) (xn : XN) (hs : List Hdr) (ts : List Ty)
  | ptr (t : Ty)
  | slice (t : Ty)
  | iface
  | node
  | history                                -- stanza.History (pres_muc.go): hand-written MarshalXML / UnmarshalXML
  | unsupported (what : String)
  deriving Repr

inductive Val where
  | str (s : Str)
  | bool (b : Bool)
  | int (i : Int)
  | uint (n : Nat)
  | struct (dn : Name) (fs : List Val)   -- dn = value of a dynamic XMLName (⟨[], []⟩ otherwise)
  | nil                                    -- nil pointer / nil interface
  | ref (v : Val)                          -- non-nil pointer
  | slice (l : List Val)                   -- nil and empty slices are not distinguished
  | node (t : Tree)
  | history (maxchars maxstanzas seconds : Option Int)   -- the three NullableInt of stanza.History (Since: zero time)
  deriving Repr

abbrev Schema := Ty

def noName : Name := ⟨[], []⟩

/-! ### boolean equality (no derive handler for nested inductives) -/
mutual
def Ty.beq : Ty → Ty → Bool
  | .prim a, .prim b => decide (a = b)
  | .struct n x hs ts, .struct n' x' hs' ts' => decide (n = n') && decide (x = x') && decide (hs = hs') && Ty.beqL ts ts'
  | .ptr a, .ptr b => Ty.beq a b
  | .slice a, .slice b => Ty.beq a b
  | .iface, .iface => true
  | .node, .node => true
  | .history, .history => true
  | .unsupported a, .unsupported b => decide (a = b)
  | _, _ => false
def Ty.beqL : List Ty → List Ty → Bool
  | [], [] => true
  | a :: as, b :: bs => Ty.beq a b && Ty.beqL as bs
  | _, _ => false
end

mutual
def Val.beq : Val → Val → Bool
  | .str a, .str b => decide (a = b)
  | .bool a, .bool b => decide (a = b)
  | .int a, .int b => decide (a = b)
  | .uint a, .uint b => decide (a = b)
  | .struct n fs, .struct n' fs' => decide (n = n') && Val.beqL fs fs'
  | .nil, .nil => true
  | .ref a, .ref b => Val.beq a b
  | .slice a, .slice b => Val.beqL a b
  | .node a, .node b => Tree.beq a b
  | .history a b c, .history a' b' c' => decide (a = a') && decide (b = b') && decide (c = c')
  | _, _ => false
def Val.beqL : List Val → List Val → Bool
  | [], [] => true
  | a :: as, b :: bs => Val.beq a b && Val.beqL as bs
  | _, _ => false
end

/-! ### zero values -/
def emptyTree : Tree := .mk noName [] [] []

mutual
def zero : Ty → Val
  | .prim .str => .str []
  | .prim .bool => .bool false
  | .prim (.int _) => .int 0
  | .prim .uint => .uint 0
  | .struct _ _ _ ts => .struct noName (zeroL ts)
  | .ptr _ => .nil
  | .slice _ => .slice []
  | .iface => .nil
  | .node => .node emptyTree
  | .history => .history none none none
  | .unsupported _ => .nil
def zeroL : List Ty → List Val
  | [] => []
  | t :: ts => zero t :: zeroL ts
end

/-! ### primitives as text -/
def primText : Val → Str
  | .str s => s
  | .bool b => showBool b
  | .int i => showInt i
  | .uint n => showNat n
  | _ => []

/-- copyValue: strings verbatim; numbers and bools: empty = zero value, otherwise TrimSpace then strconv -/
def copyValue (k : Prim) (src : Str) : Option Val :=
  match k with
  | .str => some (.str src)
  | .bool => if src = [] then some (.bool false) else (parseBool (trimSpace src)).map .bool
  | .int bits => if src = [] then some (.int 0) else (parseIntBits bits (trimSpace src)).map .int
  | .uint => if src = [] then some (.uint 0) else (parseUint64 (trimSpace src)).map .uint

/-- isEmptyValue (a struct is never empty; `node` is a struct) -/
def isEmptyVal : Val → Bool
  | .str s => s.isEmpty
  | .bool b => !b
  | .int i => i == 0
  | .uint n => n == 0
  | .nil => true
  | .slice l => l.isEmpty
  | _ => false

/-! ### marshal -/

/-- marshalAttr on a field value: nil pointer = no attribute, one pointer level, marshalSimple -/
def attrText : Ty → Val → Option Str
  | .prim _, v => some (primText v)
  | .ptr (.prim _), .ref v => some (primText v)
  | _, _ => none

/-- the (name, text) pairs of the attribute fields, in field order -/
def attrPairs : List Hdr → List Ty → List Val → List (Str × Option Str)
  | h :: hs, t :: ts, v :: vs =>
    (if h.mode = .attr then [(h.name.loc, if h.om && isEmptyVal v then none else attrText t v)] else []) ++
      attrPairs hs ts vs
  | _, _, _ => []

/-- start-name precedence of marshalValue: tagged XMLName; non-empty dynamic XMLName; field (xmlns, name); type name -/
def startName (tyName : Str) (xn : XN) (dn : Name) (fn : Name) : Name :=
  match xn with
  | .tag n => n
  | .dyn => if dn.loc ≠ [] then dn else if fn.loc ≠ [] then fn else ⟨[], tyName⟩
  | .absent => if fn.loc ≠ [] then fn else ⟨[], tyName⟩

/-- "If an empty name was found, namespace is overridden with an empty space": an untagged XMLName, a start name
without namespace, under a parent whose start name has one -/
def emptyNsAttr (xn : XN) (nm : Name) (ps : Str) : List Attr :=
  if xn = .dyn ∧ nm.space = [] ∧ ps ≠ [] then [⟨⟨[], xmlnsL⟩, []⟩] else []

/-- the `,innerxml` string of a struct (first such field), written verbatim -/
def innerVal : List Hdr → List Val → Str
  | h :: hs, v :: vs => if h.mode = .innerxml then primText v else innerVal hs vs
  | _, _ => []

/-! ### stanza.History (pres_muc.go): hand-written codec, a leaf of the schema type -/
def historyL : Str := ['h', 'i', 's', 't', 'o', 'r', 'y']
def maxcharsL : Str := ['m', 'a', 'x', 'c', 'h', 'a', 'r', 's']
def maxstanzasL : Str := ['m', 'a', 'x', 's', 't', 'a', 'n', 'z', 'a', 's']
def secondsL : Str := ['s', 'e', 'c', 'o', 'n', 'd', 's']

/-- History.MarshalXML: nothing when no NullableInt is set (and Since is the zero time); otherwise `<history …/>` -
start.Name = {Local: "history"} whatever the field is called - with one attribute per set value (strconv.Itoa) -/
def encHistory (mc ms sec : Option Int) : List El :=
  if mc.isNone && ms.isNone && sec.isNone then []
  else [.elem ⟨[], historyL⟩
    (mkAttrs [(maxcharsL, mc.map showInt), (maxstanzasL, ms.map showInt), (secondsL, sec.map showInt)]) []]

/-- one iteration of the attribute loop of History.UnmarshalXML: strconv.Atoi, an error aborts -/
def histAttr (cur : Option Int × Option Int × Option Int) (a : Attr) : Option (Option Int × Option Int × Option Int) :=
  if a.name.loc = maxcharsL then (parseIntBits 64 a.value).map fun i => (some i, cur.2.1, cur.2.2)
  else if a.name.loc = maxstanzasL then (parseIntBits 64 a.value).map fun i => (cur.1, some i, cur.2.2)
  else if a.name.loc = secondsL then (parseIntBits 64 a.value).map fun i => (cur.1, cur.2.1, some i)
  else some cur

def histAttrs : Option Int × Option Int × Option Int → List Attr → Option (Option Int × Option Int × Option Int)
  | cur, [] => some cur
  | cur, a :: r =>
    match histAttr cur a with
    | some c => histAttrs c r
    | none => none

mutual
/-- marshalValue after the omitempty test. `ps` = Space of the enclosing start element (p.tags top), `fn` = the
field's (xmlns, name) (⟨[], []⟩ at top level), `om` = the field's omitempty flag (slice elements go through
marshalValue again, omitempty test included). -/
def encD (ps : Str) (fn : Name) (om : Bool) : Ty → Val → List El
  | .prim _, v => [.elem (if fn.loc ≠ [] then fn else ⟨[], lit "?"⟩) [] (txt true (primText v))]
  | .ptr t, .ref v => encD ps fn om t v
  | .slice t, .slice l => l.flatMap fun v => if om && isEmptyVal v then [] else encD ps fn om t v
  | .struct tn xn hs ts, .struct dn vs =>
    let nm := startName tn xn dn fn
    [.elem nm (mkAttrs (attrPairs hs ts vs) ++ emptyNsAttr xn nm ps)
      (encKids nm.space hs ts vs ++ (if (innerVal hs vs).isEmpty then [] else [.raw (innerVal hs vs)]))]
  | .node, .node t => [encNode t]
  | .history, .history mc ms sec => encHistory mc ms sec
  | _, _ => []
/-- marshalStruct: the non-attribute fields in order -/
def encKids (ps : Str) : List Hdr → List Ty → List Val → List El
  | h :: hs, t :: ts, v :: vs =>
    (if h.mode = .elem ∨ h.mode = .any then (if h.om && isEmptyVal v then [] else encD ps h.name h.om t v) else []) ++
      encKids ps hs ts vs
  | _, _, _ => []
end

/-- xml.Marshal(v): marshalValue without field info -/
def encS (s : Schema) (v : Val) : List El := encD [] noName false s v

/-! ### unmarshal -/

/-- the attributes a field takes: local name equal, namespace equal when the tag names one -/
def attrVals (h : Hdr) (attrs : List Attr) : List Str :=
  (attrs.filter fun a => a.name.loc == h.name.loc && (h.name.space.isEmpty || h.name.space == a.name.space)).map (·.value)

/-- unmarshalAttr: a nil pointer is allocated (one level), then copyValue -/
def decAttrVal : Ty → Str → Option Val
  | .prim k, s => copyValue k s
  | .ptr (.prim k), s => (copyValue k s).map .ref
  | _, _ => none

/-- every matching attribute is assigned in turn: all must parse, the last wins -/
def decAttr1 (t : Ty) (cur : Val) : List Str → Option Val
  | [] => some cur
  | s :: r =>
    match decAttrVal t s with
    | some v => decAttr1 t v r
    | none => none

def decAttrsF (attrs : List Attr) : List Hdr → List Ty → List Val → Option (List Val)
  | h :: hs, t :: ts, v :: vs =>
    match (if h.mode = .attr then decAttr1 t v (attrVals h attrs) else some v), decAttrsF attrs hs ts vs with
    | some v', some vs' => some (v' :: vs')
    | _, _ => none
  | [], [], [] => some []
  | _, _, _ => none

/-- unmarshalPath, perfect match: an element field (`,any` fields carry fElement too, under their Go field name)
whose name equals the child's local name, and whose namespace - when the tag gives one - equals the child's -/
def hdrTakes (h : Hdr) (n : Name) : Bool :=
  (h.mode == .elem || h.mode == .any) && h.name.loc == n.loc && (h.name.space.isEmpty || h.name.space == n.space)

/-- "Validate and assign element name": a tagged XMLName rejects another local name, and another namespace when the
tag names one -/
def xnAccepts (xn : XN) (n : Name) : Bool :=
  match xn with
  | .tag t => t.loc == n.loc && (t.space.isEmpty || t.space == n.space)
  | _ => true

/-- `,innerxml`: the first such field receives the bytes between the tags (only "nothing" / "one raw run" modelled) -/
def setInner : List Hdr → List Val → Str → List Val
  | h :: hs, v :: vs, s => if h.mode = .innerxml then .str s :: vs else v :: setInner hs vs s
  | _, vs, _ => vs

def hasMode (m : Mode) (hs : List Hdr) : Bool := hs.any fun h => h.mode == m

/-- Node.UnmarshalXML into an existing Node: attributes and children are appended, name and content replaced -/
def mergeNode : Tree → Tree → Tree
  | .mk _ a _ ns, .mk n' a' c' ns' => .mk n' (a ++ a') c' (ns ++ ns')

mutual
/-- Decoder.unmarshal(val, start) INTO the current value `cur` of a field of type `t` -/
def decInto : Ty → Val → El → Option Val
  | .prim k, _, .elem _ _ ks => copyValue k (contentOf ks)
  | .ptr (.ptr _), _, _ => none                                  -- only one pointer level is followed
  | .ptr t, .ref v, e => (decInto t v e).map .ref
  | .ptr t, _, e => (decInto t (zero t) e).map .ref              -- nil pointer: allocate
  | .slice t, .slice l, e => (decInto t (zero t) e).map fun x => .slice (l ++ [x])
  | .struct _ xn hs ts, .struct dn vs, .elem n a ks =>
    if xnAccepts xn n then
      match decAttrsF a hs ts vs with
      | none => none
      | some vs1 =>
        match foldKids (fun acc k =>
            match k with
            | .elem kn _ _ =>
              if hs.any (hdrTakes · kn) then decKidF hs ts acc k
              else if hasMode .any hs then decAnyF hs ts acc k
              else some acc                                       -- d.Skip()
            | _ => some acc) vs1 ks with
        | none => none
        | some vs2 =>
          if hasMode .innerxml hs then (innerOf ks).map fun s => .struct (if xn = .dyn then n else dn) (setInner hs vs2 s)
          else some (.struct (if xn = .dyn then n else dn) vs2)
    else none
  | .iface, cur, _ => some cur                                   -- interface-typed field: d.Skip()
  | .node, .node cur, e => (decNode e).map fun t => .node (mergeNode cur t)
  | .history, .history mc ms sec, .elem _ a _ =>                  -- the children are skipped
    (histAttrs (mc, ms, sec) a).map fun r => .history r.1 r.2.1 r.2.2
  | _, _, _ => none
/-- the first field (declaration order) that takes the child by name gets it -/
def decKidF : List Hdr → List Ty → List Val → El → Option (List Val)
  | h :: hs, t :: ts, v :: vs, .elem kn ka kk =>
    if hdrTakes h kn then (decInto t v (.elem kn ka kk)).map (· :: vs)
    else (decKidF hs ts vs (.elem kn ka kk)).map (v :: ·)
  | _, _, _, _ => none
/-- the first `,any` field gets a child no field takes by name -/
def decAnyF : List Hdr → List Ty → List Val → El → Option (List Val)
  | h :: hs, t :: ts, v :: vs, k =>
    if h.mode = .any then (decInto t v k).map (· :: vs)
    else (decAnyF hs ts vs k).map (v :: ·)
  | _, _, _, _ => none
end

/-- one iteration of the child loop of a struct (the lambda of `decInto`, named) -/
def decKid (hs : List Hdr) (ts : List Ty) (acc : List Val) (k : El) : Option (List Val) :=
  match k with
  | .elem kn _ _ =>
    if hs.any (hdrTakes · kn) then decKidF hs ts acc k
    else if hasMode .any hs then decAnyF hs ts acc k
    else some acc
  | _ => some acc

/-! ### the decoder's view of the printed element, with `xmlns=""` -/

/-- an `xmlns` attribute among the attributes handed to the printer (the reflection path adds `xmlns=""` for an empty
dynamic XMLName): it declares the default namespace of the element -/
def declNs (a : List Attr) : Option Str :=
  (a.find? fun x => x.name.space.isEmpty && x.name.loc == xmlnsL).map (·.value)

/-- the default namespace in force inside (and the namespace of) an element written with name `n` and attributes `a` -/
def nsOfS (ctx : Str) (n : Name) (a : List Attr) : Str :=
  if n.space = [] then (match declNs a with | some v => sanitize v | none => ctx) else sanitize n.space

mutual
/-- `view` of Model/C01Node.lean (print, then tokenize under the default namespace `ctx`), extended by the one thing
the reflection printer adds: an explicit `xmlns` attribute. Equal to `view` on elements without one. -/
def viewS (ctx : Str) : El → El
  | .elem n a ks =>
    .elem ⟨nsOfS ctx n a, n.loc⟩
      ((if n.space = [] then [] else [⟨⟨[], xmlnsL⟩, sanitize n.space⟩]) ++ viewAttrs a [])
      (viewSL (nsOfS ctx n a) ks)
  | .text nl s => .text nl (sanitize s)
  | .raw s => .raw s
def viewSL (ctx : Str) : List El → List El
  | [] => []
  | k :: ks => viewS ctx k :: viewSL ctx ks
end

/-- Decoder.DecodeElement(&v, &start) on a fresh value -/
def decS (s : Schema) (e : El) : Option Val := decInto s (zero s) e

/-- xml.Marshal, then print + tokenize under the default namespace `ctx` -/
def marshalS (ctx : Str) (s : Schema) (v : Val) : List Tok := toksL (viewSL ctx (encS s v))

/-- Decoder.DecodeElement into a fresh value of the schema's type -/
def unmarshalS (s : Schema) (ts : List Tok) : Option (Val × List Tok) := unmarshalWith (decS s) ts

/-- the bytes xml.Marshal writes -/
def bytesS (s : Schema) (v : Val) : Str := renderL (encS s v)

/-! ### well-formed schemas (decidable) and fitting values (decidable) -/

def Prim.isInt : Prim → Bool
  | .int b => b == 8 || b == 16 || b == 32 || b == 64
  | _ => true

/-- XMLName of the type of an element field whose fieldInfo name is `fn` (`pns`: the enclosing struct's element has a
namespace of its own). A tagged XMLName has a legal namespace; Go requires its local name to equal the field's ("name …
in tag … conflicts with name … in XMLName"); when the field's tag names a namespace the element written (the
XMLName's) must be in it, or the field would not take its own element back. A dynamic XMLName is accepted for a field
without namespace under a parent with one: the element is then written `<name xmlns="">` and read back as ⟨"", name⟩
(without a namespaced parent it would inherit the default namespace and re-serialize differently, the F-01d pattern). -/
def xnOk (fn : Name) (pns : Bool) : XN → Bool
  | .tag n => n.loc == fn.loc && legal n.space && (fn.space.isEmpty || fn.space == n.space)
  | .absent => legal fn.space
  | .dyn => pns && fn.space.isEmpty

/-- does the element of a struct with this XMLName, written for field `fn`, carry a namespace of its own -/
def ownNs (fn : Name) : XN → Bool
  | .tag n => !n.space.isEmpty
  | .absent => !fn.space.isEmpty
  | .dyn => false

def attrTyOk : Ty → Bool
  | .prim k => k.isInt
  | .ptr (.prim k) => k.isInt
  | _ => false

def attrNames : List Hdr → List Str
  | [] => []
  | h :: hs => (if h.mode = .attr then [h.name.loc] else []) ++ attrNames hs

/-- the names under which a child is taken by name: element fields and - under their Go field name - `,any` fields -/
def elemNames : List Hdr → List Str
  | [] => []
  | h :: hs => (if h.mode = .elem ∨ h.mode = .any then [h.name.loc] else []) ++ elemNames hs

def anyCount : List Hdr → Nat
  | [] => 0
  | h :: hs => (if h.mode = .any then 1 else 0) + anyCount hs

/-- per-field header conditions: attribute / element / any mode, attribute and any tags without namespace, names are
names -/
def hdrOk (h : Hdr) : Bool :=
  match h.mode with
  | .attr => h.name.space.isEmpty && keyOk h.name.loc
  | .elem => nameOk h.name.loc
  | .any => h.name.space.isEmpty && nameOk h.name.loc
  | _ => false

mutual
/-- a type that marshals to exactly one element (named after the field `fn` or its own XMLName) and is decoded from
one: a primitive or a struct -/
def Ty.wfE (fn : Name) (pns : Bool) : Ty → Bool
  | .prim k => k.isInt && legal fn.space
  | .struct _ xn hs ts =>
    xnOk fn pns xn && hs.length == ts.length && hs.all hdrOk && distinct (attrNames hs) && distinct (elemNames hs) &&
    decide (anyCount hs ≤ 1) && Ty.wfFields (ownNs fn xn) hs ts
  | _ => false
/-- per field: an attribute of primitive type (or pointer to one); a `,any` field of type *Node; an element field of
type E, *E, []E, []*E, an interface (always nil), or a pointer to a type with a hand-written codec (only nil is in the
class) -/
def Ty.wfFields (pns : Bool) : List Hdr → List Ty → Bool
  | h :: hs, t :: ts =>
    (if h.mode = .attr then attrTyOk t
     else if h.mode = .any then (match t with | .ptr .node => true | _ => false)
     else match t with
       | .iface => true
       | .history => h.name.loc == historyL && h.name.space.isEmpty
       | .ptr (.unsupported _) => true
       | .ptr t' => Ty.wfE h.name pns t'
       | .slice (.ptr t') => Ty.wfE h.name pns t'
       | .slice t' => Ty.wfE h.name pns t'
       | t' => Ty.wfE h.name pns t') && Ty.wfFields pns hs ts
  | _, _ => true
end

/-- the local name xml.Marshal gives a top-level value of this type (no field: XMLName tag or Go type name) -/
def topLoc : Ty → Str
  | .struct tn xn _ _ => (startName tn xn noName noName).loc
  | _ => []

/-- well-formed top-level schema: a struct whose element name is a name, and `Ty.wfE` throughout -/
def Ty.wf (s : Ty) : Bool :=
  (match s with | .struct _ _ _ _ => true | _ => false) && nameOk (topLoc s) && Ty.wfE ⟨[], topLoc s⟩ false s

def Schema.wf (s : Schema) : Bool := Ty.wf s

def primFits : Prim → Val → Bool
  | .str, .str s => legal s
  | .bool, .bool _ => true
  | .int bits, .int i => intFits bits i
  | .uint, .uint n => decide (n < 2 ^ 64)
  | _, _ => false

/-- the three NullableInt values are ints of the platform -/
def histFits (a b c : Option Int) : Bool :=
  decide (∀ i ∈ a, intFits 64 i = true) && decide (∀ i ∈ b, intFits 64 i = true) && decide (∀ i ∈ c, intFits 64 i = true)

mutual
/-- every element of the tree has a namespace of its own (so none inherits one: outside the region of F-01d) -/
def treeOwnNs : Tree → Bool
  | .mk n _ _ ns => !n.space.isEmpty && treeOwnNsL ns
def treeOwnNsL : List Tree → Bool
  | [] => true
  | t :: r => treeOwnNs t && treeOwnNsL r
end

/-- the value of a `,any` *Node field: nil, or a tree of the exact class of the Node theorems (names are names, strings
legal, every element with its own namespace, no namespaced attribute) whose root no field takes by name -/
def anyFits (takers : List Str) : Val → Bool
  | .nil => true
  | .ref (.node (.mk n a c ns)) =>
    (Tree.mk n a c ns).inQ && treeOwnNs (Tree.mk n a c ns) && !(Tree.mk n a c ns).hasNsAttr && !takers.contains n.loc
  | _ => false

mutual
/-- the normal form Unmarshal produces, per type: strings XML-legal, numbers in range; the value of a dynamic XMLName is
what the decoder stores: ⟨"", field name⟩ -/
def Val.fitsE (fn : Name) : Ty → Val → Bool
  | .prim k, v => primFits k v
  | .struct _ xn hs ts, .struct dn vs =>
    dn == (if xn = .dyn then ⟨[], fn.loc⟩ else noName) && Val.fitsFields (elemNames hs) hs ts vs
  | _, _ => false
/-- field values: nil or a fitting pointee; slices without nil elements and - under omitempty - without empty ones
(marshalValue drops both); interface fields and pointers to hand-coded types are nil; `takers` = the names under which
the struct's fields take children -/
def Val.fitsFields (takers : List Str) : List Hdr → List Ty → List Val → Bool
  | h :: hs, t :: ts, v :: vs =>
    (if h.mode = .any then anyFits takers v
     else match t, v with
     | .iface, .nil => true
     | .iface, _ => false
     | .history, .history a b c => histFits a b c
     | .history, _ => false
     | .ptr (.unsupported _), .nil => true
     | .ptr (.unsupported _), _ => false
     | .ptr _, .nil => true
     | .ptr t', .ref x => Val.fitsE h.name t' x
     | .ptr _, _ => false
     | .slice (.ptr t'), .slice l => l.all (fun x => match x with | .ref y => Val.fitsE h.name t' y | _ => false)
     | .slice t', .slice l => l.all (fun x => Val.fitsE h.name t' x && !(h.om && isEmptyVal x))
     | .slice _, _ => false
     | t', v' => Val.fitsE h.name t' v') && Val.fitsFields takers hs ts vs
  | [], [], [] => true
  | _, _, _ => false
end

def Val.fits (s : Schema) (v : Val) : Bool := Val.fitsE ⟨[], topLoc s⟩ s v

/-- the per-field condition of `Ty.wfFields` for an element field, named (Proofs: `wfFields_cons`) -/
def Ty.wfF (fn : Name) (pns : Bool) : Ty → Bool
  | .iface => true
  | .history => fn.loc == historyL && fn.space.isEmpty
  | .ptr (.unsupported _) => true
  | .ptr t' => Ty.wfE fn pns t'
  | .slice (.ptr t') => Ty.wfE fn pns t'
  | .slice t' => Ty.wfE fn pns t'
  | t' => Ty.wfE fn pns t'

def Ty.wfAny : Ty → Bool
  | .ptr .node => true
  | _ => false

/-- the per-field condition of `Val.fitsFields` for an attribute / element field, named (Proofs: `fitsFields_cons`) -/
def Val.fitsF (fn : Name) (om : Bool) : Ty → Val → Bool
  | .iface, .nil => true
  | .iface, _ => false
  | .history, .history a b c => histFits a b c
  | .history, _ => false
  | .ptr (.unsupported _), .nil => true
  | .ptr (.unsupported _), _ => false
  | .ptr _, .nil => true
  | .ptr t', .ref x => Val.fitsE fn t' x
  | .ptr _, _ => false
  | .slice (.ptr t'), .slice l => l.all (fun x => match x with | .ref y => Val.fitsE fn t' y | _ => false)
  | .slice t', .slice l => l.all (fun x => Val.fitsE fn t' x && !(om && isEmptyVal x))
  | .slice _, _ => false
  | t', v' => Val.fitsE fn t' v'

/-! ### the value with every text blanked: what the element skeleton may depend on -/
mutual
/-- every string replaced by "" (if empty) or "x": the structure of the value without its text -/
def Val.mask : Val → Val
  | .str s => .str (if s = [] then [] else ['x'])
  | .ref v => .ref (Val.mask v)
  | .slice l => .slice (Val.maskL l)
  | .struct dn fs => .struct dn (Val.maskL fs)
  | .bool b => .bool b
  | .int i => .int i
  | .uint n => .uint n
  | .nil => .nil
  | .node t => .node t
  | .history a b c => .history a b c
def Val.maskL : List Val → List Val
  | [] => []
  | v :: r => Val.mask v :: Val.maskL r
end

mutual
/-- the fields that are element NAMES by design hold names: a dynamic XMLName is empty or has a local name that is an
XML name; a Node tree has names for element and attribute names and no namespaced attribute. Nothing about text. -/
def Val.namesOk : Val → Bool
  | .struct dn fs => (dn.loc.isEmpty || nameOk dn.loc) && Val.namesOkL fs
  | .ref v => Val.namesOk v
  | .slice l => Val.namesOkL l
  | .node t => t.namesOk
  | .str _ => true
  | .bool _ => true
  | .int _ => true
  | .uint _ => true
  | .nil => true
  | .history _ _ _ => true
def Val.namesOkL : List Val → Bool
  | [] => true
  | v :: r => Val.namesOk v && Val.namesOkL r
end

end XmppVerif.Model.C01S
