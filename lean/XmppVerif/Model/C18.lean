/-
Model of `keepalive` (client.go): a `select` over the ticker channel (buffer 1) and the quit channel.
Environment events: the ticker fires, the session's receive loop closes `quit`. Process events: one iteration of
the `select`; when both channels are ready Go chooses either (`chooseTick`).
-/
namespace XmppVerif.Model.C18

inductive Ev where
  | fire                                            -- the ticker puts a tick into its channel (dropped if one is pending)
  | closeQuit                                       -- `close(keepaliveQuit)` (deferred by Client.recv)
  | iter (pingFails : Bool) (chooseTick : Bool)     -- one `select` iteration of the loop
  deriving DecidableEq, Repr

inductive Act where
  | ping      -- transport.Ping()
  | close     -- transport.Close()
  | stop      -- ticker.Stop(); return
  deriving DecidableEq, Repr

structure St where
  pending    : Bool      -- a tick is waiting in ticker.C
  quitClosed : Bool
  stopped    : Bool      -- the goroutine has returned
  deriving DecidableEq, Repr

def init : St := ⟨false, false, false⟩

def step (s : St) : Ev → St × List Act
  | .fire => (if s.stopped then s else { s with pending := true }, [])       -- ticker.Stop(): no tick after the return
  | .closeQuit => ({ s with quitClosed := true }, [])
  | .iter fails choose =>
    if s.stopped then (s, [])
    else if s.pending && (!s.quitClosed || choose) then
      -- case <-ticker.C
      if fails then ({ s with pending := false, stopped := true }, [.ping, .close, .stop])
      else ({ s with pending := false }, [.ping])
    else if s.quitClosed then ({ s with stopped := true }, [.stop])            -- case <-quit
    else (s, [])                                                               -- both channels empty: blocked

def run (s : St) : List Ev → St × List Act
  | [] => (s, [])
  | e :: es =>
    let (s', a) := step s e
    let (s'', as) := run s' es
    (s'', a ++ as)

end XmppVerif.Model.C18
