/-
Interleaving model of the IQ-result machinery (router.go, after fix F-07): `Router.sendIQ` (register, then write),
the IQ-result branch of `Router.route` (look up AND remove under one lock; send into the 1-slot channel; close),
and the context clean-up (remove the entry only if it is still this request's).
Every `Step` is one atomic action of one goroutine (the lock makes lookup+remove one action); an execution is ANY
list of steps, by any number of routing threads `j`, requests `k` - all interleavings, all N and M.
Go's rules are explicit: a send on a closed channel or a second `close` sets `panic`; a send into the full 1-slot
buffer that nobody reads would block: `blocked`.
-/
namespace XmppVerif.Model.C07

abbrev Id := Nat

/-- ghost: from where the route object of request k can be reached -/
inductive Loc where
  | unreg | inTable | held (j : Nat) | consumed | dropped
  deriving DecidableEq, Repr

inductive PC where
  | start | have (k : Nat) | sent (k : Nat) | ordinary | done
  deriving DecidableEq, Repr

/-- fixed data of an execution: the id each request uses (ids may clash), the id each routed packet carries, and
whether that packet is a result/error IQ -/
structure Params where
  reqId  : Nat → Id
  pktId  : Nat → Id
  isResp : Nat → Bool

structure St where
  table   : Id → Option Nat    -- Router.IQResultRoutes
  sent    : Nat → Nat          -- values sent into the channel of request k
  closed  : Nat → Bool
  pc      : Nat → PC
  loc     : Nat → Loc
  panic   : Bool
  blocked : Bool

def init : St := ⟨fun _ => none, fun _ => 0, fun _ => false, fun _ => .start, fun _ => .unreg, false, false⟩

def upd {α β} [DecidableEq α] (f : α → β) (a : α) (b : β) : α → β := fun x => if x = a then b else f x

inductive Step where
  | register (k : Nat)    -- sendIQ: IQResultRoutes[id] = route (before the request is written)
  | take (j : Nat)        -- route: lookup + delete under the lock (only for result / error IQs)
  | send (j : Nat)        -- route: route.result <- *iq
  | close (j : Nat)       -- route: close(route.result)
  | cancel (k : Nat)      -- context done: removeIQResultRoute(id, route)
  deriving Repr

def step (p : Params) (s : St) : Step → St
  | .register k =>
    if s.loc k ≠ .unreg then s else
    -- an older request registered under the same id loses its entry
    let loc' := match s.table (p.reqId k) with
      | some k' => upd s.loc k' .dropped
      | none => s.loc
    { s with table := upd s.table (p.reqId k) (some k), loc := upd loc' k .inTable }
  | .take j =>
    if s.pc j ≠ .start then s else
    if p.isResp j then
      match s.table (p.pktId j) with
      | some k => { s with table := upd s.table (p.pktId j) none, pc := upd s.pc j (.have k), loc := upd s.loc k (.held j) }
      | none => { s with pc := upd s.pc j .ordinary }
    else { s with pc := upd s.pc j .ordinary }
  | .send j =>
    match s.pc j with
    | .have k =>
      if s.closed k then { s with panic := true }
      else if s.sent k ≥ 1 then { s with blocked := true }
      else { s with sent := upd s.sent k (s.sent k + 1), pc := upd s.pc j (.sent k) }
    | _ => s
  | .close j =>
    match s.pc j with
    | .sent k =>
      if s.closed k then { s with panic := true }
      else { s with closed := upd s.closed k true, pc := upd s.pc j .done, loc := upd s.loc k .consumed }
    | _ => s
  | .cancel k =>
    if s.table (p.reqId k) = some k then { s with table := upd s.table (p.reqId k) none, loc := upd s.loc k .dropped }
    else s

def run (p : Params) (s : St) : List Step → St
  | [] => s
  | x :: xs => run p (step p s x) xs

end XmppVerif.Model.C07
