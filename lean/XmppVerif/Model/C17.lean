/-
Model of `stanza.UnAckQueue` (stanza/stream_management.go): Push / Pop / PopN / Peek / PeekN / Empty.
The queue is the slice `Uslice`, head first. `Id`s are Go `int`s; they are modelled as `Nat`
(overflow of the sequence number after 2^63 pushes is out of scope).
A nil receiver (`uaq == nil`) is the separate state `none` of `QState`.
-/
namespace XmppVerif.Model.C17

structure Entry where
  id  : Nat
  stz : String
  deriving DecidableEq, Repr

abbrev Q := List Entry

inductive Op where
  | push (s : String)
  | pop
  | popn (k : Int)
  | peek
  | peekn (k : Int)
  | empty
  deriving DecidableEq, Repr

inductive Out where
  | ents (es : List Entry)   -- Pop/Peek: zero or one entry; PopN/PeekN: the slice; Push: []
  | flag (b : Bool)          -- Empty
  deriving DecidableEq, Repr

/-- `Push`: id is 1 on an empty queue, else last id + 1. -/
def nextId (q : Q) : Nat :=
  match q.getLast? with
  | some e => e.id + 1
  | none   => 1

def push (q : Q) (s : String) : Q := q ++ [⟨nextId q, s⟩]

/-- `PeekN`: nil when `n ≤ 0` or the queue is empty, else the first `min n len` entries. -/
def peekN (q : Q) (n : Int) : List Entry :=
  if n ≤ 0 then [] else q.take n.toNat

/-- `PopN`: `r := PeekN(n); Uslice = Uslice[len(r):]`. -/
def popN (q : Q) (n : Int) : List Entry × Q :=
  let r := peekN q n
  (r, q.drop r.length)

def peek (q : Q) : List Entry := q.take 1

def pop (q : Q) : List Entry × Q :=
  match q with
  | []      => ([], [])
  | e :: r  => ([e], r)

def step (q : Q) : Op → Q × Out
  | .push s  => (push q s, .ents [])
  | .pop     => let (r, q') := pop q; (q', .ents r)
  | .popn k  => let (r, q') := popN q k; (q', .ents r)
  | .peek    => (q, .ents (peek q))
  | .peekn k => (q, .ents (peekN q k))
  | .empty   => (q, .flag q.isEmpty)

/-- Run from a given state, collecting outputs. -/
def run (q : Q) : List Op → Q × List Out
  | []        => (q, [])
  | op :: ops =>
    let (q', o) := step q op
    let (q'', os) := run q' ops
    (q'', o :: os)

/-- The queue object: the slice plus the persistent sequence counter `lastId` (the id given by the last Push),
so that numbering continues after the queue was drained. -/
structure QS where
  q      : Q
  lastId : Nat
  deriving DecidableEq, Repr

/-- `Push` on the object: id = last queued id + 1, or lastId + 1 when the queue is empty. -/
def nextIdS (s : QS) : Nat :=
  match s.q.getLast? with
  | some e => e.id + 1
  | none   => s.lastId + 1

def pushS (s : QS) (x : String) : QS := ⟨s.q ++ [⟨nextIdS s, x⟩], nextIdS s⟩

def stepS (s : QS) : Op → QS × Out
  | .push x => (pushS s x, .ents [])
  | op => let r := step s.q op; (⟨r.1, s.lastId⟩, r.2)

def runS (s : QS) : List Op → QS × List Out
  | []        => (s, [])
  | op :: ops =>
    let (s', o) := stepS s op
    let (s'', os) := runS s' ops
    (s'', o :: os)

/-- nil receiver: every method returns nil / true and leaves nil. -/
def stepNil : Op → Out
  | .empty => .flag true
  | _      => .ents []

end XmppVerif.Model.C17
