/-
What closing a transport does to its connection: `XMPPTransport.Close` (xmpp_transport.go) and
`WebsocketTransport.Close` + `cleanup` (websocket_transport.go), as they are after the fixes F-05c / F-05d.
The point the models make explicit: the result of writing the closing tag is IGNORED - on a dead connection that
write fails, and the connection still has to be closed, because closing it is what makes the receive loop's
pending read fail, i.e. what turns a failed keepalive into a reported loss (C12, C18).
-/
namespace XmppVerif.Model.Transport

inductive TAct where
  | writeClose (ok : Bool)   -- `</stream:stream>` resp. `<close/>` written; `ok` = the write succeeded (result ignored)
  | waitCloseTag             -- XMPP: wait for the server's closing tag or ConnectTimeout seconds
  | connClose                -- the connection is closed: a pending read fails
  | cancelReads              -- WebSocket: closeCtx is cancelled: pending and later Reads return an error
  deriving DecidableEq, Repr

/-- `XMPPTransport.Close()` on a connected transport -/
def xmppClose (writeOk : Bool) : List TAct := [.writeClose writeOk, .waitCloseTag, .connClose]

/-- `WebsocketTransport.Close()` on a connected transport (the queue channel is never closed) -/
def wsClose (writeOk : Bool) : List TAct := [.writeClose writeOk, .connClose, .cancelReads]

/-- after these actions a read that is blocked on the transport (or issued later) fails -/
def readsFail (as : List TAct) : Bool := as.any fun a => a == .connClose || a == .cancelReads

/-- one WebSocket message as the server frames it: the payloads of its frames, in order -/
abbrev WsMessage := List (List UInt8)

/-- the reader goroutine of `WebsocketTransport.startReader`: every message is read to its end (all frames) and
queued as ONE byte string; empty messages are dropped -/
def wsQueue (msgs : List WsMessage) : List (List UInt8) :=
  (msgs.map List.flatten).filter (fun m => !m.isEmpty)

/-- what the decoder behind `WebsocketTransport.Read` sees: the queued byte strings, concatenated -/
def wsBytes (msgs : List WsMessage) : List UInt8 := (wsQueue msgs).flatten

/-- what one call of `WebsocketTransport.Read` does (after fix F-05e): a queued message is delivered whatever the
state of the close context; only with an empty queue does a closed context make the call fail (an open one blocks) -/
inductive ReadOut where
  | data (m : List UInt8)
  | err
  | blocks
  deriving DecidableEq, Repr

def wsRead (q : List (List UInt8)) (closed : Bool) : ReadOut × List (List UInt8) :=
  match q with
  | m :: rest => (.data m, rest)
  | [] => (if closed then .err else .blocks, [])

/-- the receive loop reading until the first call that does not deliver data (at most `fuel` calls) -/
def wsDrain : Nat → List (List UInt8) → Bool → List ReadOut
  | 0, _, _ => []
  | fuel + 1, q, closed =>
    match wsRead q closed with
    | (.data m, rest) => .data m :: wsDrain fuel rest closed
    | (o, _) => [o]

end XmppVerif.Model.Transport
