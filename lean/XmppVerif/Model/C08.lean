/-
Model of the send paths: `Client.Send / SendRaw / sendAndStore / sendWithWriter`, `Component.Send / SendRaw`,
`streamLogger.Write`, `XMPPTransport.Write`, `WebsocketTransport.Write`.
One send = ONE `Write` call on the socket with the whole serialization (with stream management: push + write under
the queue lock). The socket's `Write` is atomic (net.Conn / tls.Conn / websocket.Conn serialise concurrent writers):
that is the assumption this model rests on. Concurrency = any scheduler choosing which goroutine performs its next
send; the wire is the list of whole writes in the order the scheduler produced them.
-/
namespace XmppVerif.Model.C08

structure Cfg where
  sm     : Bool     -- stream management active (stanzas are stored in the un-acked queue)
  logger : Bool     -- Config.StreamLogger set (streamLogger wraps the socket)
  deriving DecidableEq, Repr

/-- what the socket does with one Write call -/
inductive Sock where
  | ok                 -- writes everything
  | err                -- returns an error
  | short              -- writes fewer bytes without an error (only a broken Writer does that)
  deriving DecidableEq, Repr

structure SendOut where
  socketWrites : List String    -- Write calls that reached the socket, with their bytes
  logWrites    : List String    -- what went to the traffic log
  stored       : List String    -- what was pushed on the un-acked queue
  failed       : Bool           -- an error was returned to the caller
  deriving DecidableEq, Repr

/-- one `Send`/`SendRaw` of a stanza whose serialization is `b` -/
def send (c : Cfg) (b : String) (sock : Sock) : SendOut :=
  let stored := if c.sm then [b] else []
  if c.logger then
    -- streamLogger.Write: prefix to the log, then the socket, then the log copy and the separator
    match sock with
    | .ok => ⟨[b], ["SEND:\n", b, "\n\n"], stored, false⟩
    | .err => ⟨[b], ["SEND:\n"], stored, true⟩
    | .short => ⟨[b], ["SEND:\n"], stored, true⟩         -- io.ErrShortWrite
  else
    match sock with
    | .ok => ⟨[b], [], stored, false⟩
    | .err => ⟨[b], [], stored, true⟩
    | .short => ⟨[b], [], stored, false⟩                  -- sendWithWriter ignores the byte count

/-! ### concurrent senders -/

/-- a wire entry: which goroutine wrote it, and the bytes of that single Write -/
abbrev Wire := List (Nat × String)

structure CSt where
  todo  : Nat → List String     -- what goroutine g still has to send, in its program order
  wire  : Wire
  queue : List String           -- un-acked queue (with SM)

/-- the scheduler lets goroutine g perform its next send (push + write are one atomic step under the queue lock) -/
def cstep (c : Cfg) (s : CSt) (g : Nat) : CSt :=
  match s.todo g with
  | [] => s
  | b :: rest =>
    { todo := fun x => if x = g then rest else s.todo x
      wire := s.wire ++ [(g, b)]
      queue := if c.sm then s.queue ++ [b] else s.queue }

def crun (c : Cfg) (s : CSt) : List Nat → CSt
  | [] => s
  | g :: gs => crun c (cstep c s g) gs

def proj (g : Nat) (w : Wire) : List String := (w.filter (·.1 == g)).map (·.2)

end XmppVerif.Model.C08
