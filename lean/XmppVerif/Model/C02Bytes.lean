import XmppVerif.Model.C02
/-
C02, stage B: a CHARACTER-level model of the part of Go's `encoding/xml` tokenizer (Go 1.23.5, `Decoder.Token` in
Strict mode, no CharsetReader, no Entity map, DefaultSpace "" - exactly how xmpp_transport.go / websocket_transport.go
configure it) that XMPP streams exercise.

Input alphabet: `Char` (code points). The bytes -> code points step (UTF-8 decoding) is done by the driver and is
trusted; a byte that is not part of a valid UTF-8 sequence is handed to the model as one of the 256 reserved code points
U+10FF00 + b (`isBad`), which the model treats exactly as Go treats an undecodable byte: an error inside character
data, attribute values and names, passed through inside comments and processing instructions.

Two layers, as in the Go code:
  lexStep  = `Decoder.rawToken`  : one lexical step, written as small structurally recursive scanners; running off the
             end of the input is the explicit outcome `R.eof` ("Go would block in ReadByte / report unexpected EOF"),
             never a guess, so that every scanner is stable under appending more input (Proofs/C02BytesStable).
  applyEv  = `Decoder.Token`     : namespace translation (xmlns / xmlns:p declarations in scope, `xml:`, unknown
             prefix kept as the space, default namespace for element names only) and the Strict well-nestedness check
             of `popElement` (raw prefix and local name must both match).
Constructs that are NOT modelled yield `Stop.unsupported` (directives such as <!DOCTYPE …>, names with non-ASCII
characters - their validity depends on Go's Unicode tables).
-/
namespace XmppVerif.Model.C02Bytes
open XmppVerif.Model.C02 (Name Attr Tok)

/-! ### results of scanners -/

inductive R (α : Type) where
  | ok (a : α) (rest : List Char)
  | okEof (a : α)            -- `Decoder.text` outside CDATA ended by the end of the input: Go returns the data so far
  | eof                      -- the input ended inside a token (Go: blocks in ReadByte; at EOF "unexpected EOF")
  | err                      -- a *xml.SyntaxError other than unexpected EOF
  | unsup (why : String)     -- construct outside the model
  deriving Repr, DecidableEq

/-- prepend a character to the value a scanner returns -/
def R.cons : Char → R (List Char) → R (List Char)
  | c, .ok v r => .ok (c :: v) r
  | c, .okEof v => .okEof (c :: v)
  | _, .eof => .eof
  | _, .err => .err
  | _, .unsup w => .unsup w

def R.bind {α β : Type} : R α → (α → List Char → R β) → R β
  | .ok a r, f => f a r
  | .okEof _, _ => .eof
  | .eof, _ => .eof
  | .err, _ => .err
  | .unsup w, _ => .unsup w

/-! ### the generic scanner: one decision per character -/

/-- what a scanner does with the next character -/
inductive Act (σ : Type) where
  | go (st : σ)                  -- consume it, deliver nothing
  | put (x : Char) (st : σ)      -- consume it, deliver `x`
  | stop                         -- the run ends BEFORE this character (Go: ungetc)
  | stopEat                      -- the run ends WITH this character
  | fail                         -- SyntaxError
  | unsup (w : String)

/-- run `step` from state `st`; `fin st` = at the end of the input the characters so far are delivered (`okEof`),
otherwise running off the input is `eof`. Every scanner below is an instance, so that stability under extension of
the input is proved once (Proofs/C02BytesStable.good_scan). -/
def scan {σ : Type} (step : σ → Char → Act σ) (fin : σ → Bool) : σ → List Char → R (List Char)
  | st, [] => if fin st then .okEof [] else .eof
  | st, c :: r =>
    match step st c with
    | .go st' => scan step fin st' r
    | .put x st' => R.cons x (scan step fin st' r)
    | .stop => .ok [] (c :: r)
    | .stopEat => .ok [] r
    | .fail => .err
    | .unsup w => .unsup w

/-! ### character classes -/

def isSpace (c : Char) : Bool := c = ' ' || c = '\r' || c = '\n' || c = '\t'

/-- `isNameByte` -/
def isNameByte (c : Char) : Bool :=
  ('A' ≤ c && c ≤ 'Z') || ('a' ≤ c && c ≤ 'z') || ('0' ≤ c && c ≤ '9') || c = '_' || c = ':' || c = '.' || c = '-'

def isAscii (c : Char) : Bool := c.toNat < 0x80

/-- reserved code points standing for a byte that is not part of a valid UTF-8 sequence -/
def isBad (c : Char) : Bool := 0x10FF00 ≤ c.toNat

/-- what `readName` accepts: every name byte and every byte >= 0x80 -/
def isNameChar (c : Char) : Bool := isNameByte c || !isAscii c

/-- ASCII part of the Unicode table `first` of encoding/xml: letters, '_', ':' -/
def isNameStart (c : Char) : Bool :=
  ('A' ≤ c && c ≤ 'Z') || ('a' ≤ c && c ≤ 'z') || c = '_' || c = ':'

/-- `isInCharacterRange`, and not an undecodable byte -/
def isXmlChar (c : Char) : Bool :=
  let n := c.toNat
  (n = 0x09 || n = 0x0A || n = 0x0D || (0x20 ≤ n && n ≤ 0xD7FF) || (0xE000 ≤ n && n ≤ 0xFFFD) || (0x10000 ≤ n && n ≤ 0x10FFFF))
    && !isBad c

/-! ### names -/

/-- a qualified name as written: `pfx` empty = no prefix -/
structure QName where
  pfx : List Char
  loc : List Char
  deriving DecidableEq, Repr

/-- `readName`: the longest run of name characters; a terminating character must be there -/
def spanName : List Char → R (List Char) :=
  scan (fun (_ : Unit) c => if isNameChar c then .put c () else .stop) (fun _ => false) ()

inductive NameClass where
  | good | bad | exotic
  deriving DecidableEq, Repr

/-- `isName` on the bytes `readName` collected. ASCII only is decided here; a name with a non-ASCII character needs
Go's Unicode tables (`exotic` -> unsupported), unless an undecodable byte makes it invalid anyway. -/
def classifyName (s : List Char) : NameClass :=
  match s with
  | [] => .bad
  | c :: _ =>
    if s.any (fun x => !isAscii x && !isBad x) then .exotic
    else if s.any isBad then .bad
    else if isNameStart c then .good else .bad

/-- `Decoder.name` -/
def scanName (cs : List Char) : R (List Char) :=
  (spanName cs).bind fun s r =>
    match classifyName s with
    | .good => .ok s r
    | .bad => .err
    | .exotic => .unsup "non-ASCII name"

def cutColon : List Char → List Char × Option (List Char)
  | [] => ([], none)
  | c :: r => if c = ':' then ([], some r) else
      let (a, b) := cutColon r
      (c :: a, b)

/-- the split `nsname` does: more than one colon is an error; `a:` and `:a` stay unsplit -/
def splitName (s : List Char) : Option QName :=
  if s.count ':' > 1 then none
  else match cutColon s with
    | (p, some l) => if p = [] || l = [] then some ⟨[], s⟩ else some ⟨p, l⟩
    | (_, none) => some ⟨[], s⟩

/-- `Decoder.nsname` -/
def scanQName (cs : List Char) : R QName :=
  (scanName cs).bind fun s r =>
    match splitName s with
    | some q => .ok q r
    | none => .err

/-- `Decoder.space` followed by the `mustgetc` that every caller does next: at least one more character must follow -/
def skipSpace : List Char → R (List Char) :=
  scan (fun (_ : Unit) c => if isSpace c then .go () else .stop) (fun _ => false) ()

/-! ### character data, attribute values, CDATA (`Decoder.text`) -/

inductive TSt where
  | plain (p0 p1 : Char)                 -- the two previous raw characters (for `]]>` and `\r\n`)
  | amp                                  -- after `&`
  | hash                                 -- after `&#`
  | num (hex : Bool) (any : Bool) (n : Nat)  -- digits of a character reference; `any` = at least one digit
  | ename (acc : List Char)              -- an entity name, reversed
  deriving DecidableEq, Repr

def nul : Char := Char.ofNat 0

def entityOf (s : List Char) : Option Char :=
  if s = ['l', 't'] then some '<'
  else if s = ['g', 't'] then some '>'
  else if s = ['a', 'm', 'p'] then some '&'
  else if s = ['a', 'p', 'o', 's'] then some '\''
  else if s = ['q', 'u', 'o', 't'] then some '"'
  else none

def digitVal (hex : Bool) (c : Char) : Option Nat :=
  if '0' ≤ c && c ≤ '9' then some (c.toNat - 48)
  else if hex && 'a' ≤ c && c ≤ 'f' then some (c.toNat - 87)
  else if hex && 'A' ≤ c && c ≤ 'F' then some (c.toNat - 55)
  else none

/-- `string(rune(n))` for n <= unicode.MaxRune: surrogates become U+FFFD -/
def runeOf (n : Nat) : Char :=
  if 0xD800 ≤ n && n ≤ 0xDFFF then Char.ofNat 0xFFFD else Char.ofNat n

/-- one character of `Decoder.text(quote, cdata)`; `q` = the closing quote of an attribute value -/
def tstep (q : Option Char) (cdata : Bool) : TSt → Char → Act TSt
  | .plain p0 p1, c =>
      if p0 = ']' && p1 = ']' && c = '>' then (if cdata then .stopEat else .fail)
      else if c = '<' && !cdata then (if q.isSome then .fail else .stop)
      else if q = some c then .stopEat
      else if c = '&' && !cdata then .go .amp
      else if c = '\r' then .put '\n' (.plain p1 c)
      else if p1 = '\r' && c = '\n' then .go (.plain p1 c)
      else .put c (.plain p1 c)
  | .amp, c =>
      if c = '#' then .go .hash
      else if isNameChar c then .go (.ename [c])
      else .fail
  | .hash, c =>
      if c = 'x' then .go (.num true false 0)
      else match digitVal false c with
        | some d => .go (.num false true d)
        | none => .fail
  | .num hex any n, c =>
      if c = ';' then
        (if any && n ≤ 0x10FFFF then
           (if 0x10FF00 ≤ n then .unsup "reference to a reserved code point" else .put (runeOf n) (.plain nul nul))
         else .fail)
      else match digitVal hex c with
        | some d => .go (.num hex true (n * (if hex then 16 else 10) + d))
        | none => .fail
  | .ename acc, c =>
      if c = ';' then
        (match entityOf acc.reverse with
         | some ch => .put ch (.plain nul nul)
         | none => .fail)
      else if isNameChar c then .go (.ename (c :: acc))
      else .fail

def TSt.isPlain : TSt → Bool
  | .plain _ _ => true
  | _ => false

/-- `Decoder.text(quote, cdata)`. Outside CDATA the end of the input ends the data (`okEof`: Go returns what it has);
inside an entity or a CDATA section it is an unexpected EOF. The value still carries the `]]` of a CDATA terminator
(the caller chops it, as Go does with `trunc`). -/
def scanText (q : Option Char) (cdata : Bool) : TSt → List Char → R (List Char) :=
  scan (tstep q cdata) (fun st => st.isPlain && !cdata)

/-- the check at the end of `Decoder.text`: valid UTF-8 and every rune in the XML character range -/
def textOk (v : List Char) : Bool := v.all isXmlChar

/-! ### comments, processing instructions, CDATA opener -/

/-- after `<!--`; the state = number of `-` immediately before (0, 1, 2). The value still carries the closing `--`. -/
def scanComment : Nat → List Char → R (List Char) :=
  scan (fun k c => if k = 2 then (if c = '>' then .stopEat else .fail)
                   else if c = '-' then .put c (k + 1) else .put c 0) (fun _ => false)

/-- the data of `<?target data?>`; the state = the previous character was `?`. The value still carries the closing `?`. -/
def scanPI : Bool → List Char → R (List Char) :=
  scan (fun qm c => if qm && c = '>' then .stopEat else .put c (c = '?')) (fun _ => false)

/-- the six bytes after `<![` -/
def expectLit : List Char → List Char → R Unit
  | [], r => .ok () r
  | _ :: _, [] => .eof
  | l :: ls, c :: r => if c = l then expectLit ls r else .err

/-! ### `procInst` (the version / encoding pseudo-attributes of `<?xml …?>`) -/

def isPrefixOf' : List Char → List Char → Bool
  | [], _ => true
  | _ :: _, [] => false
  | a :: as, b :: bs => a = b && isPrefixOf' as bs

def takeUntil (sep : Char) : List Char → Option (List Char)
  | [] => none
  | c :: r => if c = sep then some [] else (takeUntil sep r).map (c :: ·)

/-- `procInst(param, s)` with `pe` = param ++ "=": first occurrence of `pe` followed by a quote; the value up to the
same quote; "" when absent. (Go searches again after an occurrence that is not followed by a quote.) -/
def procInstAux (pe : List Char) : Nat → List Char → List Char
  | _, [] => []
  | skip + 1, _ :: r => procInstAux pe skip r
  | 0, c :: r =>
      if isPrefixOf' pe (c :: r) then
        match (c :: r).drop pe.length with
        | [] => []                                  -- `lenp+k >= len(sub)`
        | d :: r' =>
          if d = '\'' || d = '"' then (takeUntil d r').getD []
          else procInstAux pe pe.length r           -- `i += lenp + k + 1`: search again after that character
      else procInstAux pe 0 r

def procInst (pe : List Char) (s : List Char) : List Char := procInstAux pe 0 s

def lower (c : Char) : Char := if 'A' ≤ c && c ≤ 'Z' then Char.ofNat (c.toNat + 32) else c

/-- the checks `rawToken` does on `<?xml …?>`: version must be 1.0 or absent, encoding must be UTF-8 (any case) or
absent, since no CharsetReader is configured -/
def xmlDeclOk (data : List Char) : Bool :=
  let ver := procInst ['v', 'e', 'r', 's', 'i', 'o', 'n', '='] data
  let enc := procInst ['e', 'n', 'c', 'o', 'd', 'i', 'n', 'g', '='] data
  (ver = [] || ver = ['1', '.', '0']) && (enc = [] || enc.map lower = ['u', 't', 'f', '-', '8'])

/-! ### one lexical step (`rawToken`) -/

structure RawAttr where
  name : QName
  val : List Char
  deriving DecidableEq, Repr

inductive Mode where
  | content
  | tag (name : QName) (attrs : List RawAttr)     -- inside a start tag, after its name and `attrs`
  deriving DecidableEq, Repr

/-- what a lexical step delivers -/
inductive Ev where
  | none                                           -- progress inside a start tag
  | text (s : List Char)
  | comment (s : List Char)
  | pi (target data : List Char)
  | startTag (q : QName) (as : List RawAttr) (selfClose : Bool)
  | endTag (q : QName)
  deriving DecidableEq, Repr

/-- `mustgetc` followed by a test: the next character must satisfy `p` -/
def nextIf (p : Char → Bool) : List Char → R Char
  | [] => .eof
  | c :: r => if p c then .ok c r else .err

/-- `Decoder.text` followed by the validity check of its result; `okEof` (the input ended inside the data) is kept
for plain character data (`plain = true`: Go returns the CharData) and is an unexpected EOF for an attribute value
(Go accepts the partial value, then fails to read on) - unless the partial data is invalid, which is an error first. -/
def checkedText (plain : Bool) : R (List Char) → R (List Char)
  | .ok v rest => if textOk v then .ok v rest else .err
  | .okEof v => if textOk v then (if plain then .okEof v else .eof) else .err
  | .eof => .eof
  | .err => .err
  | .unsup w => .unsup w

/-- after `<!--` -/
def lexComment (cs : List Char) : R (Mode × Ev) :=
  (scanComment 0 cs).bind fun v rest => .ok (.content, .comment (v.dropLast.dropLast)) rest

/-- after `<![` -/
def lexCData (cs : List Char) : R (Mode × Ev) :=
  (expectLit ['C', 'D', 'A', 'T', 'A', '['] cs).bind fun _ r' =>
    (checkedText false (match scanText none true (.plain nul nul) r' with
                        | .ok v rest => .ok (v.dropLast.dropLast) rest
                        | x => x)).bind fun v rest => .ok (.content, .text v) rest

/-- after `<!` -/
def lexBang : List Char → R (Mode × Ev)
  | [] => .eof
  | '-' :: r => (nextIf (· = '-') r).bind fun _ r' => lexComment r'
  | '[' :: r => lexCData r
  | _ :: _ => .unsup "directive"

/-- after `<?` -/
def lexPI (cs : List Char) : R (Mode × Ev) :=
  (scanName cs).bind fun target r =>
    (skipSpace r).bind fun _ r' =>
      (scanPI false r').bind fun v rest =>
        if target = ['x', 'm', 'l'] && !xmlDeclOk v.dropLast then .err
        else .ok (.content, .pi target v.dropLast) rest

/-- after `</` -/
def lexEndTag (cs : List Char) : R (Mode × Ev) :=
  (scanQName cs).bind fun q r =>
    (skipSpace r).bind fun _ r' =>
      (nextIf (· = '>') r').bind fun _ rest => .ok (.content, .endTag q) rest

/-- character data up to the next `<` (or the end of the input) -/
def lexText (cs : List Char) : R (Mode × Ev) :=
  match checkedText true (scanText none false (.plain nul nul) cs) with
  | .ok v rest => .ok (.content, .text v) rest
  | .okEof v => .okEof (.content, .text v)
  | .eof => .eof
  | .err => .err
  | .unsup w => .unsup w

/-- after `<` -/
def lexMarkup : List Char → R (Mode × Ev)
  | [] => .eof
  | '/' :: r => lexEndTag r
  | '?' :: r => lexPI r
  | '!' :: r => lexBang r
  | c :: r => (scanQName (c :: r)).bind fun q rest => .ok (.tag q [], .none) rest

def lexContent : List Char → R (Mode × Ev)
  | [] => .eof
  | c :: r => if c = '<' then lexMarkup r else lexText (c :: r)

/-- one attribute: name, `=`, quoted value (white space allowed around `=`) -/
def lexAttr (q : QName) (as : List RawAttr) (cs : List Char) : R (Mode × Ev) :=
  (scanQName cs).bind fun an r1 =>
    (skipSpace r1).bind fun _ r2 =>
      (nextIf (· = '=') r2).bind fun _ r3 =>
        (skipSpace r3).bind fun _ r4 =>
          (nextIf (fun c => c = '"' || c = '\'') r4).bind fun qc r5 =>
            (checkedText false (scanText (some qc) false (.plain nul nul) r5)).bind fun v rest =>
              .ok (.tag q (as ++ [⟨an, v⟩]), .none) rest

/-- inside a start tag after white space: `/>`, `>` or one attribute -/
def lexTagBody (q : QName) (as : List RawAttr) : List Char → R (Mode × Ev)
  | [] => .eof
  | '/' :: r => (nextIf (· = '>') r).bind fun _ rest => .ok (.content, .startTag q as true) rest
  | '>' :: rest => .ok (.content, .startTag q as false) rest
  | c :: r => lexAttr q as (c :: r)

def lexTag (q : QName) (as : List RawAttr) (cs : List Char) : R (Mode × Ev) :=
  (skipSpace cs).bind fun _ r => lexTagBody q as r

def lexStep : Mode → List Char → R (Mode × Ev)
  | .content, cs => lexContent cs
  | .tag q as, cs => lexTag q as cs

/-! ### `Decoder.Token`: namespaces and nesting -/

abbrev Env := List (List Char × List Char)       -- prefix ↦ URI, innermost first; [] = the default namespace

structure Frame where
  name : QName      -- as written (popElement compares the raw prefix and local name)
  env : Env         -- the bindings in force inside the element
  deriving DecidableEq, Repr

abbrev Stack := List Frame

def curEnv : Stack → Env
  | [] => []
  | f :: _ => f.env

def xmlnsL : List Char := ['x', 'm', 'l', 'n', 's']
def xmlL : List Char := ['x', 'm', 'l']
def xmlURL : List Char := ['h', 't', 't', 'p', ':', '/', '/', 'w', 'w', 'w', '.', 'w', '3', '.', 'o', 'r', 'g', '/', 'X', 'M', 'L', '/', '1', '9', '9', '8', '/', 'n', 'a', 'm', 'e', 's', 'p', 'a', 'c', 'e']

/-- the declarations of a start tag, processed in attribute order (a later one overrides an earlier one) -/
def addDecls (env : Env) : List RawAttr → Env
  | [] => env
  | a :: as =>
      if a.name.pfx = xmlnsL then addDecls ((a.name.loc, a.val) :: env) as
      else if a.name.pfx = [] && a.name.loc = xmlnsL then addDecls (([], a.val) :: env) as
      else addDecls env as

/-- `Decoder.translate` (DefaultSpace = ""): the resolved (space, local) -/
def translate (env : Env) (isElem : Bool) (q : QName) : List Char × List Char :=
  if q.pfx = xmlnsL then (q.pfx, q.loc)
  else if q.pfx = [] && !isElem then (q.pfx, q.loc)
  else if q.pfx = [] && q.loc = xmlnsL then (q.pfx, q.loc)
  else
    let sp := if q.pfx = xmlL then xmlURL else q.pfx
    match env.lookup sp with
    | some v => (v, q.loc)
    | none => (sp, q.loc)

def mkName (p : List Char × List Char) : Name := ⟨String.ofList p.1, String.ofList p.2⟩

/-- tokens as `Decoder.Token` returns them (comments and processing instructions with their content) -/
inductive BTok where
  | start (n : Name) (as : List Attr)
  | stop (n : Name)
  | text (s : String)
  | comment (s : String)
  | pi (target data : String)
  deriving DecidableEq, Repr

/-- the token alphabet of the packet model (Model.C02) -/
def BTok.erase : BTok → Tok
  | .start n as => .start n as
  | .stop n => .stop n
  | .text s => .text s
  | .comment _ => .misc
  | .pi _ _ => .misc

def mkAttr (env : Env) (a : RawAttr) : Attr := ⟨mkName (translate env false a.name), String.ofList a.val⟩

/-- `Decoder.Token` on one raw token: none = SyntaxError (unexpected / mismatched end element) -/
def applyEv (st : Stack) : Ev → Option (Stack × List BTok)
  | .none => some (st, [])
  | .text s => some (st, [.text (String.ofList s)])
  | .comment s => some (st, [.comment (String.ofList s)])
  | .pi t d => some (st, [.pi (String.ofList t) (String.ofList d)])
  | .startTag q as sc =>
      let env := addDecls (curEnv st) as
      let n := mkName (translate env true q)
      let s := BTok.start n (as.map (mkAttr env))
      if sc then some (st, [s, .stop n]) else some (⟨q, env⟩ :: st, [s])
  | .endTag q =>
      match st with
      | [] => none
      | f :: st' =>
        if f.name.loc ≠ q.loc then none
        else if f.name.pfx ≠ q.pfx then none
        else some (st', [.stop (mkName (translate f.env true q))])

/-! ### the token loop -/

inductive Stop where
  | eof                 -- io.EOF at a token boundary with no open element
  | unexpectedEof       -- the input ended inside a token or inside an element
  | syntax              -- any other *xml.SyntaxError (or the version / encoding error of `<?xml …?>`)
  | unsupported (why : String)
  | fuel                -- never returned by `tokenize` (theorem `tokenize_no_fuel`)
  deriving DecidableEq, Repr

structure Result where
  toks : List BTok
  stop : Stop
  cut : Bool := false      -- the last token is character data that was ended by the END OF THE INPUT, not by `<`
  deriving DecidableEq, Repr

def Result.pre (ts : List BTok) (r : Result) : Result := ⟨ts ++ r.toks, r.stop, r.cut⟩

/-- the tokens that more input cannot change: all but character data ended by the end of the input -/
def Result.complete (r : Result) : List BTok := if r.cut then r.toks.dropLast else r.toks

def endStop (st : Stack) : Stop := if st.isEmpty then .eof else .unexpectedEof

def tokF : Nat → Mode → Stack → List Char → Result
  | 0, _, _, _ => ⟨[], .fuel, false⟩
  | f + 1, m, st, cs =>
    if cs.isEmpty && m = .content then ⟨[], endStop st, false⟩
    else match lexStep m cs with
      | .ok (m', ev) rest =>
          (match applyEv st ev with
           | some (st', ts) => (tokF f m' st' rest).pre ts
           | none => ⟨[], .syntax, false⟩)
      | .okEof (_, ev) =>
          (match applyEv st ev with
           | some (st', ts) => ⟨ts, endStop st', true⟩
           | none => ⟨[], .syntax, false⟩)
      | .eof => ⟨[], .unexpectedEof, false⟩
      | .err => ⟨[], .syntax, false⟩
      | .unsup w => ⟨[], .unsupported w, false⟩

/-- the decoder in state (mode, stack) reading `cs` up to the end of the input -/
def tokenizeFrom (m : Mode) (st : Stack) (cs : List Char) : Result := tokF (cs.length + 1) m st cs

/-- a fresh decoder reading the whole input: the tokens `Token()` returns until its first error, and that error -/
def tokenize (cs : List Char) : Result := tokenizeFrom .content [] cs

/-! ### the incremental reader: input arrives in chunks -/

/-- a decoder between two reads: mode and open elements, the characters received but not yet consumed (Go: blocked in
ReadByte in the middle of a token), and the tokens delivered so far -/
structure Dec where
  mode : Mode
  stack : Stack
  buf : List Char
  out : List BTok
  deriving Repr

def Dec.init : Dec := ⟨.content, [], [], []⟩

/-- deliver every token that is complete in the buffer -/
def drain : Nat → Dec → Dec
  | 0, d => d
  | f + 1, d =>
    match lexStep d.mode d.buf with
    | .ok (m', ev) rest =>
        (match applyEv d.stack ev with
         | some (st', ts) => drain f ⟨m', st', rest, d.out ++ ts⟩
         | none => d)
    | _ => d

/-- one Read delivering `chunk` -/
def feed (d : Dec) (chunk : List Char) : Dec :=
  drain (d.buf.length + chunk.length) { d with buf := d.buf ++ chunk }

/-- the end of the input: what is still buffered is read with end-of-input semantics -/
def finish (d : Dec) : Result := (tokenizeFrom d.mode d.stack d.buf).pre d.out

end XmppVerif.Model.C02Bytes
