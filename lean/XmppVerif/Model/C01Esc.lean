/-
C01, character level. Model of Go's `encoding/xml` text escaper (xml.go `escapeText(w, s, escapeNewline)`),
over code points, and of the decoder's handling of exactly the references the escaper produces.

  escapeText:  "  '  &  <  >  \t  \n  \r   ->  &#34; &#39; &amp; &lt; &gt; &#x9; &#xA; &#xD;
               (`\n` only when escapeNewline = true: attribute values and the reflection path `EscapeText`;
                `Encoder.EncodeToken(CharData)` - used by Node.MarshalXML and Err.MarshalXML - passes false)
               any rune outside the XML `Char` production (`isInCharacterRange`) -> U+FFFD
  decoder:     `&#34;` … are character references / predefined entities and yield the character itself;
               a character reference is NOT subject to end-of-line normalisation, so `&#xD;` yields CR,
               whereas a literal CR in the input would be turned into LF (this is why the escaper's CR rule matters).

Strings that are not valid UTF-8 are outside the model (Go replaces each offending byte by U+FFFD).
-/
namespace XmppVerif.Model.C01

/-- `isInCharacterRange` of encoding/xml (the XML 1.0 `Char` production). `Char` excludes surrogates already. -/
def isXmlChar (c : Char) : Bool :=
  let n := c.toNat
  n == 0x9 || n == 0xA || n == 0xD || (0x20 ≤ n && n ≤ 0xD7FF) || (0xE000 ≤ n && n ≤ 0xFFFD) ||
  (0x10000 ≤ n && n ≤ 0x10FFFF)

def repl : Char := Char.ofNat 0xFFFD

/-- What one code point becomes in the output. `nl` = the `escapeNewline` argument. -/
def escChar (nl : Bool) (c : Char) : List Char :=
  if c = '"' then ['&', '#', '3', '4', ';']
  else if c = '\'' then ['&', '#', '3', '9', ';']
  else if c = '&' then ['&', 'a', 'm', 'p', ';']
  else if c = '<' then ['&', 'l', 't', ';']
  else if c = '>' then ['&', 'g', 't', ';']
  else if c = '\t' then ['&', '#', 'x', '9', ';']
  else if c = '\n' then (if nl then ['&', '#', 'x', 'A', ';'] else ['\n'])
  else if c = '\r' then ['&', '#', 'x', 'D', ';']
  else if isXmlChar c then [c]
  else [repl]

def escapeText (nl : Bool) (s : List Char) : List Char := s.flatMap (escChar nl)

/-- The character a decoder yields for a code point that went through the escaper. -/
def sanitizeChar (c : Char) : Char := if isXmlChar c then c else repl
def sanitize (s : List Char) : List Char := s.map sanitizeChar

/-- Decoding of exactly the eight references the escaper can produce; anything else is copied. -/
def unescape : List Char → List Char
  | '&' :: '#' :: '3' :: '4' :: ';' :: r => '"' :: unescape r
  | '&' :: '#' :: '3' :: '9' :: ';' :: r => '\'' :: unescape r
  | '&' :: 'a' :: 'm' :: 'p' :: ';' :: r => '&' :: unescape r
  | '&' :: 'l' :: 't' :: ';' :: r => '<' :: unescape r
  | '&' :: 'g' :: 't' :: ';' :: r => '>' :: unescape r
  | '&' :: '#' :: 'x' :: '9' :: ';' :: r => '\t' :: unescape r
  | '&' :: '#' :: 'x' :: 'A' :: ';' :: r => '\n' :: unescape r
  | '&' :: '#' :: 'x' :: 'D' :: ';' :: r => '\r' :: unescape r
  | c :: r => c :: unescape r
  | [] => []

/-- The bodies (after `&`) of the eight references. -/
def entityBodies : List (List Char) :=
  [['#', '3', '4', ';'], ['#', '3', '9', ';'], ['a', 'm', 'p', ';'], ['l', 't', ';'], ['g', 't', ';'],
   ['#', 'x', '9', ';'], ['#', 'x', 'A', ';'], ['#', 'x', 'D', ';']]

def startsEntity (r : List Char) : Bool := entityBodies.any fun e => e.isPrefixOf r

/-- every `&` of the list starts one of the eight references -/
def ampsOk : List Char → Bool
  | [] => true
  | c :: r => (c != '&' || startsEntity r) && ampsOk r

def isMeta (c : Char) : Bool := c == '<' || c == '>' || c == '"' || c == '\''

/-- all characters XML-legal (hypothesis of the round-trip statements) -/
def legal (s : List Char) : Bool := s.all isXmlChar

end XmppVerif.Model.C01
