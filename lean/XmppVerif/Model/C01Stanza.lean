import XmppVerif.Model.C01Node
/-
C01, stanza envelopes and nonzas over the element level of C01Node.
For each type T:  encT : T → El (or List El when the element can be omitted)  =  what the type's marshalling hands to
the encoder (reflection rules of encoding/xml for the tags used, or the hand-written MarshalXML);
decT : El → Option T  =  what the hand-written UnmarshalXML loop (or the reflection decoder) makes of the decoder's
view of one element. `none` = the decoder returns an error, or the input leaves the modelled part (a registered
extension / payload element: those are sampled, not modelled).

The code modelled is the code AFTER the repairs F-01a (IQ reads `lang`), F-01b (Err is omitted only when all of
code/type/reason/text are empty; `code` written only when non-zero), F-01h (SMFailed reads `h`) and
F-01i (SMFailed knows `reset`).
-/
namespace XmppVerif.Model.C01

def nsStanzas : Str := ['u', 'r', 'n', ':', 'i', 'e', 't', 'f', ':', 'p', 'a', 'r', 'a', 'm', 's', ':', 'x', 'm', 'l', ':', 'n', 's', ':', 'x', 'm', 'p', 'p', '-', 's', 't', 'a', 'n', 'z', 'a', 's']
def nsPubsubErrors : Str := ['h', 't', 't', 'p', ':', '/', '/', 'j', 'a', 'b', 'b', 'e', 'r', '.', 'o', 'r', 'g', '/', 'p', 'r', 'o', 't', 'o', 'c', 'o', 'l', '/', 'p', 'u', 'b', 's', 'u', 'b', '#', 'e', 'r', 'r', 'o', 'r', 's']
def nsSM : Str := ['u', 'r', 'n', ':', 'x', 'm', 'p', 'p', ':', 's', 'm', ':', '3']
def nsSASL : Str := ['u', 'r', 'n', ':', 'i', 'e', 't', 'f', ':', 'p', 'a', 'r', 'a', 'm', 's', ':', 'x', 'm', 'l', ':', 'n', 's', ':', 'x', 'm', 'p', 'p', '-', 's', 'a', 's', 'l']
def nsComponent : Str := ['j', 'a', 'b', 'b', 'e', 'r', ':', 'c', 'o', 'm', 'p', 'o', 'n', 'e', 'n', 't', ':', 'a', 'c', 'c', 'e', 'p', 't']

/-! ### attributes: "last match on the local name wins" (the `for _, attr := range start.Attr` loops) -/
def lastAttr? (k : Str) : List Attr → Option Str
  | [] => none
  | a :: r =>
    match lastAttr? k r with
    | some v => some v
    | none => if a.name.loc = k then some a.value else none

def lastAttr (k : Str) (l : List Attr) : Str := (lastAttr? k l).getD []

/-- attributes written for (name, value-if-any) pairs, in order -/
def mkAttrs : List (Str × Option Str) → List Attr
  | [] => []
  | (k, some v) :: r => ⟨⟨[], k⟩, v⟩ :: mkAttrs r
  | (_, none) :: r => mkAttrs r

def omitEmpty (s : Str) : Option Str := if s = [] then none else some s

/-! ### numbers and booleans as text (strconv) -/
/-- unicode.IsSpace -/
def isSpaceU (c : Char) : Bool :=
  let n := c.toNat
  (9 ≤ n && n ≤ 13) || n == 0x20 || n == 0x85 || n == 0xA0 || n == 0x1680 ||
  (0x2000 ≤ n && n ≤ 0x200A) || n == 0x2028 || n == 0x2029 || n == 0x202F || n == 0x205F || n == 0x3000

def trimSpace (s : Str) : Str := ((s.dropWhile isSpaceU).reverse.dropWhile isSpaceU).reverse

def showNat (n : Nat) : Str := Nat.toDigits 10 n
def parseNat (s : Str) : Option Nat :=
  if s ≠ [] ∧ s.all Char.isDigit = true then some (Nat.ofDigitChars 10 s 0) else none

/-- strconv.ParseUint(s, 10, 64) -/
def parseUint64 (s : Str) : Option Nat :=
  match parseNat s with
  | some n => if n < 2 ^ 64 then some n else none
  | none => none

def showInt (i : Int) : Str := if i < 0 then '-' :: showNat i.natAbs else showNat i.toNat

/-- strconv.ParseInt(s, 10, bits): optional sign, digits, range check -/
def parseIntBits (bits : Nat) (s : Str) : Option Int :=
  match s with
  | [] => none
  | c :: r =>
    if c = '-' then
      match parseNat r with
      | some n => if n ≤ 2 ^ (bits - 1) then some (-(n : Int)) else none
      | none => none
    else
      match parseNat (if c = '+' then r else c :: r) with
      | some n => if n < 2 ^ (bits - 1) then some (n : Int) else none
      | none => none

def intFits (bits : Nat) (i : Int) : Bool := decide (-(2 ^ (bits - 1) : Int) ≤ i ∧ i < (2 ^ (bits - 1) : Int))

def showBool (b : Bool) : Str := if b then ['t', 'r', 'u', 'e'] else ['f', 'a', 'l', 's', 'e']
/-- strconv.ParseBool -/
def parseBool (s : Str) : Option Bool :=
  if s ∈ [['1'], ['t'], ['T'], ['T', 'R', 'U', 'E'], ['t', 'r', 'u', 'e'], ['T', 'r', 'u', 'e']] then some true
  else if s ∈ [['0'], ['f'], ['F'], ['F', 'A', 'L', 'S', 'E'], ['f', 'a', 'l', 's', 'e'], ['F', 'a', 'l', 's', 'e']] then some false
  else none

/-! ### reflection-coded flat elements: attributes only, optionally one `,innerxml` string -/
inductive FKind where
  | str (om : Bool)      -- string            `xml:"n,attr[,omitempty]"`
  | uint (om : Bool)     -- uint
  | uintPtr                -- *uint … ,omitempty
  | boolPtr                -- *bool … ,omitempty
  deriving DecidableEq, Repr

structure Field where
  name : Str
  kind : FKind
  deriving DecidableEq, Repr

structure Schema where
  name   : Name            -- the tagged XMLName
  fields : List Field      -- attribute fields in declaration order
  inner  : Bool            -- has a `,innerxml` string field
  deriving DecidableEq, Repr

inductive FVal where
  | str (s : Str)
  | uint (n : Nat)
  | uintPtr (o : Option Nat)
  | boolPtr (o : Option Bool)
  deriving DecidableEq, Repr

structure FlatVal where
  vals  : List FVal
  inner : Str
  deriving DecidableEq, Repr

/-- text of the attribute, `none` when it is omitted -/
def encField : FKind → FVal → Option Str
  | .str om, .str s => if om && s.isEmpty then none else some s
  | .uint om, .uint n => if om && n == 0 then none else some (showNat n)
  | .uintPtr, .uintPtr o => o.map showNat
  | .boolPtr, .boolPtr o => o.map showBool
  | _, _ => none

def pairsOf : List Field → List FVal → List (Str × Option Str)
  | f :: fs, v :: vs => (f.name, encField f.kind v) :: pairsOf fs vs
  | _, _ => []

def encFlat (s : Schema) (v : FlatVal) : El :=
  .elem s.name (mkAttrs (pairsOf s.fields v.vals)) (if s.inner && !v.inner.isEmpty then [.raw v.inner] else [])

/-- copyValue of encoding/xml: absent attribute = zero value; empty text = zero; numbers are TrimSpace'd -/
def decField (k : FKind) (o : Option Str) : Option FVal :=
  match k, o with
  | .str _, o => some (.str (o.getD []))
  | .uint _, none => some (.uint 0)
  | .uint _, some t => if t = [] then some (.uint 0) else (parseUint64 (trimSpace t)).map .uint
  | .uintPtr, none => some (.uintPtr none)
  | .uintPtr, some t => if t = [] then some (.uintPtr (some 0)) else (parseUint64 (trimSpace t)).map (fun n => .uintPtr (some n))
  | .boolPtr, none => some (.boolPtr none)
  | .boolPtr, some t => if t = [] then some (.boolPtr (some false)) else (parseBool (trimSpace t)).map (fun b => .boolPtr (some b))

def decFields (attrs : List Attr) : List Field → Option (List FVal)
  | [] => some []
  | f :: fs =>
    match decField f.kind (lastAttr? f.name attrs), decFields attrs fs with
    | some v, some vs => some (v :: vs)
    | _, _ => none

/-- `,innerxml`: the verbatim bytes between the tags. Only "nothing" and "one run of raw bytes" are modelled. -/
def innerOf : List El → Option Str
  | [] => some []
  | [.raw s] => some s
  | _ => none

def decFlat (s : Schema) : El → Option FlatVal
  | .elem n attrs kids =>
    -- a tagged XMLName: the start element must have that local name and, if the tag names one, that namespace
    if n.loc = s.name.loc ∧ (s.name.space = [] ∨ n.space = s.name.space) then
      match decFields attrs s.fields, (if s.inner then innerOf kids else some []) with
      | some vs, some i => some ⟨vs, i⟩
      | _, _ => none
    else none
  | _ => none

def fvalOk : FKind → FVal → Bool
  | .str _, .str s => legal s
  | .uint _, .uint n => decide (n < 2 ^ 64)
  | .uintPtr, .uintPtr o => decide (∀ n ∈ o, n < 2 ^ 64)
  | .boolPtr, .boolPtr _ => true
  | _, _ => false

def conforms : List Field → List FVal → Bool
  | [], [] => true
  | f :: fs, v :: vs => fvalOk f.kind v && conforms fs vs
  | _, _ => false

/-- raw inner XML that is plain character data: XML-legal, none of `<`, `&`, `>` (anything else is markup by design) -/
def innerOk (s : Str) : Bool := s.all fun c => isXmlChar c && c != '<' && c != '&' && c != '>'

def keyOk (k : Str) : Bool := nameOk k && k != xmlnsL

def distinct : List Str → Bool
  | [] => true
  | k :: r => !r.contains k && distinct r

def Schema.wf (s : Schema) : Bool :=
  nameOk s.name.loc && !s.name.space.isEmpty && legal s.name.space &&
  (s.fields.map (·.name)).all keyOk && distinct (s.fields.map (·.name))

def FlatVal.wf (s : Schema) (v : FlatVal) : Bool :=
  conforms s.fields v.vals && (if s.inner then innerOk v.inner else v.inner.isEmpty)

def fld (n : String) (k : FKind) : Field := ⟨n.toList, k⟩

def schemaSMEnable : Schema := ⟨⟨nsSM, ['e', 'n', 'a', 'b', 'l', 'e']⟩, [fld "max" FKind.uintPtr, fld "resume" FKind.boolPtr], false⟩
def schemaSMEnabled : Schema :=
  ⟨⟨nsSM, ['e', 'n', 'a', 'b', 'l', 'e', 'd']⟩, [fld "id" (FKind.str true), fld "location" (FKind.str true), fld "resume" (FKind.str true), fld "max" (FKind.uint true)], false⟩
def schemaSMRequest : Schema := ⟨⟨nsSM, ['r']⟩, [], false⟩
def schemaSMAnswer : Schema := ⟨⟨nsSM, ['a']⟩, [fld "h" (FKind.uint false)], false⟩
def schemaSMResumed : Schema := ⟨⟨nsSM, ['r', 'e', 's', 'u', 'm', 'e', 'd']⟩, [fld "previd" (FKind.str true), fld "h" FKind.uintPtr], false⟩
def schemaSMResume : Schema := ⟨⟨nsSM, ['r', 'e', 's', 'u', 'm', 'e']⟩, [fld "previd" (FKind.str true), fld "h" FKind.uintPtr], false⟩
def schemaSASLAuth : Schema := ⟨⟨nsSASL, ['a', 'u', 't', 'h']⟩, [fld "mechanism" (FKind.str false)], true⟩
def schemaHandshake : Schema := ⟨⟨nsComponent, ['h', 'a', 'n', 'd', 's', 'h', 'a', 'k', 'e']⟩, [], true⟩

def schemas : List (String × Schema) :=
  [("SMEnable", schemaSMEnable), ("SMEnabled", schemaSMEnabled), ("SMRequest", schemaSMRequest),
   ("SMAnswer", schemaSMAnswer), ("SMResumed", schemaSMResumed), ("SMResume", schemaSMResume),
   ("SASLAuth", schemaSASLAuth), ("Handshake", schemaHandshake)]

/-! ### SMFailed: hand-written UnmarshalXML, one optional condition child -/
structure SMFailed where
  h    : Option Nat
  cond : Option Str       -- local name of the StanzaErrorGroup value's type (its tagged XMLName)
  deriving DecidableEq, Repr

/-- the `case` labels of SMFailed.UnmarshalXML (each decodes into the struct whose XMLName tag is that name in nsStanzas) -/
def smFailedConds : List Str := [
  "bad-format", "bad-namespace-prefix", "conflict", "connection-timeout", "host-gone", "host-unknown",
  "improper-addressing", "internal-server-error", "invalid-from", "invalid-id", "invalid-namespace", "invalid-xml",
  "not-authorized", "not-well-formed", "policy-violation", "remote-connection-failed", "reset", "resource-constraint",
  "restricted-xml", "see-other-host", "system-shutdown", "undefined-condition", "unexpected-request",
  "unsupported-encoding", "unsupported-stanza-type", "unsupported-version", "xml-not-well-formed"].map String.toList

def encSMFailed (v : SMFailed) : El :=
  .elem ⟨nsSM, ['f', 'a', 'i', 'l', 'e', 'd']⟩ (mkAttrs [(['h'], v.h.map showNat)])
    (match v.cond with
     | some c => [.elem ⟨nsStanzas, c⟩ [] []]
     | none => [])

/-- children in order; a start element with an unknown local name, or a known one in another namespace, is an error -/
def smFailedKids : List El → Option Str → Option (Option Str)
  | [], acc => some acc
  | .elem n _ _ :: r, _ =>
    if smFailedConds.contains n.loc && n.space == nsStanzas then smFailedKids r (some n.loc) else none
  | _ :: r, acc => smFailedKids r acc

def decSMFailed : El → Option SMFailed
  | .elem _ attrs kids =>
    -- hand-written attribute loop: strconv.ParseUint(attr.Value, 10, 0); an unparsable value is ignored
    let h := (lastAttr? ['h'] attrs).bind parseUint64
    match smFailedKids kids none with
    | some c => some ⟨h, c⟩
    | none => none
  | _ => none

def SMFailed.wf (v : SMFailed) : Bool :=
  decide (∀ n ∈ v.h, n < 2 ^ 64) && decide (∀ c ∈ v.cond, smFailedConds.contains c = true)

/-! ### Err (error.go) -/
structure Err where
  code   : Int
  typ    : Str
  reason : Str
  text   : Str
  deriving DecidableEq, Repr

def Err.isEmpty (e : Err) : Bool := e.code == 0 && e.typ.isEmpty && e.reason.isEmpty && e.text.isEmpty
def Err.zero : Err := ⟨0, [], [], []⟩

def textL : Str := ['t', 'e', 'x', 't']
def goneL : Str := ['g', 'o', 'n', 'e']

/-- Err.MarshalXML: nothing for the empty value; `code` only when non-zero, `type` only when non-empty; the reason
as an element NAME, the text as character data through EncodeToken (escapeNewline = false). -/
def errElem (e : Err) : El :=
  .elem ⟨[], ['e', 'r', 'r', 'o', 'r']⟩
    (mkAttrs [(['c', 'o', 'd', 'e'], if e.code = 0 then none else some (showInt e.code)), (['t', 'y', 'p', 'e'], omitEmpty e.typ)])
    ((if e.reason = [] then [] else [.elem ⟨nsStanzas, e.reason⟩ [] []]) ++
     (if e.text = [] then [] else [.elem ⟨nsStanzas, textL⟩ [] [.text false e.text]]))

def encErr (e : Err) : List El := if e.isEmpty then [] else [errElem e]

/-- one child of <error/>, decoded as a generic Node first -/
def errKid (x : Err) (k : El) : Err :=
  match decNode k with
  | none => x
  | some (.mk n _ c _) =>
    if n = ⟨nsStanzas, textL⟩ ∨ n = ⟨nsStanzas, goneL⟩ then { x with text := c }
    else if n.space = nsStanzas ∨ n.space = nsPubsubErrors then { x with reason := n.loc }
    else x

def Err.setType (x : Err) : Option Str → Err
  | some t => { x with typ := t }
  | none => x

/-- strconv.Atoi failure leaves the code untouched -/
def Err.setCode (x : Err) : Option Str → Err
  | some t =>
    match parseIntBits 64 t with
    | some c => { x with code := c }
    | none => x
  | none => x

/-- Err.UnmarshalXML onto the value `x` (the zero value for a fresh stanza): attribute loop, then the children -/
def decErrOnto (x : Err) : El → Err
  | .elem _ attrs kids =>
    kids.foldl errKid ((x.setType (lastAttr? (['t', 'y', 'p', 'e']) attrs)).setCode (lastAttr? (['c', 'o', 'd', 'e']) attrs))
  | _ => x

def Err.wf (e : Err) : Bool :=
  intFits 64 e.code && legal e.typ && legal e.text &&
  (e.reason.isEmpty || (nameOk e.reason && e.reason != textL && e.reason != goneL))

/-- F-01c: the reason is not an XML name (it is written as an element name, unescaped) -/
def Err.reasonNotName (e : Err) : Bool := !e.reason.isEmpty && !nameOk e.reason
/-- F-01g: a reason literally called "text" or "gone" is read back as the error text -/
def Err.reasonShadowed (e : Err) : Bool := e.reason == textL || e.reason == goneL

/-! ### the common attributes -/
structure Attrs where
  typ  : Str
  id   : Str
  frm  : Str
  to   : Str
  lang : Str
  deriving DecidableEq, Repr

def encAttrs (a : Attrs) : List Attr :=
  mkAttrs [(['t', 'y', 'p', 'e'], omitEmpty a.typ), (['i', 'd'], omitEmpty a.id), (['f', 'r', 'o', 'm'], omitEmpty a.frm),
           (['t', 'o'], omitEmpty a.to), (['l', 'a', 'n', 'g'], omitEmpty a.lang)]

def decAttrs (l : List Attr) : Attrs :=
  ⟨lastAttr (['t', 'y', 'p', 'e']) l, lastAttr (['i', 'd']) l, lastAttr (['f', 'r', 'o', 'm']) l, lastAttr (['t', 'o']) l, lastAttr (['l', 'a', 'n', 'g']) l⟩

def Attrs.wf (a : Attrs) : Bool := legal a.typ && legal a.id && legal a.frm && legal a.to && legal a.lang

/-- `<name>text</name>` for a non-empty string field with `omitempty` (reflection path: escapeNewline = true) -/
def optText (name : Str) (s : Str) : List El :=
  if s = [] then [] else [.elem ⟨[], name⟩ [] [.text true s]]

/-! ### registry facts (the MapExtension calls of stanza/*.go, in file order; tied by Tie/C01.lean) -/
def registry : List (String × String × String) := [
  ("PKTIQ", "http://jabber.org/protocol/commands", "command"),
  ("PKTMessage", "urn:xmpp:delegation:1", "delegation"),
  ("PKTIQ", "urn:xmpp:delegation:1", "delegation"),
  ("PKTIQ", "urn:xmpp:iot:control", "set"),
  ("PKTIQ", "http://jabber.org/protocol/disco#info", "query"),
  ("PKTIQ", "http://jabber.org/protocol/disco#items", "query"),
  ("PKTIQ", "jabber:iq:roster", "query"),
  ("PKTIQ", "jabber:iq:roster", "query"),
  ("PKTIQ", "jabber:iq:version", "query"),
  ("PKTMessage", "urn:xmpp:chat-markers:0", "markable"),
  ("PKTMessage", "urn:xmpp:chat-markers:0", "received"),
  ("PKTMessage", "urn:xmpp:chat-markers:0", "displayed"),
  ("PKTMessage", "urn:xmpp:chat-markers:0", "acknowledged"),
  ("PKTMessage", "http://jabber.org/protocol/chatstates", "active"),
  ("PKTMessage", "http://jabber.org/protocol/chatstates", "composing"),
  ("PKTMessage", "http://jabber.org/protocol/chatstates", "gone"),
  ("PKTMessage", "http://jabber.org/protocol/chatstates", "inactive"),
  ("PKTMessage", "http://jabber.org/protocol/chatstates", "paused"),
  ("PKTMessage", "urn:xmpp:hints", "no-permanent-store"),
  ("PKTMessage", "urn:xmpp:hints", "no-store"),
  ("PKTMessage", "urn:xmpp:hints", "no-copy"),
  ("PKTMessage", "urn:xmpp:hints", "store"),
  ("PKTMessage", "http://jabber.org/protocol/xhtml-im", "html"),
  ("PKTMessage", "jabber:x:oob", "x"),
  ("PKTMessage", "http://jabber.org/protocol/pubsub#event", "event"),
  ("PKTMessage", "urn:xmpp:receipts", "request"),
  ("PKTMessage", "urn:xmpp:receipts", "received"),
  ("PKTPresence", "http://jabber.org/protocol/muc", "x"),
  ("PKTIQ", "http://jabber.org/protocol/pubsub", "pubsub"),
  ("PKTIQ", "http://jabber.org/protocol/pubsub#owner", "pubsub"),
  ("PKTIQ", "urn:ietf:params:xml:ns:xmpp-bind", "bind"),
  ("PKTIQ", "urn:ietf:params:xml:ns:xmpp-session", "session")]

def registered (pkt : String) : List (String × String) :=
  (registry.filter fun e => e.1 == pkt).map fun e => e.2
def registeredMsg : List (String × String) := registered "PKTMessage"
def registeredPres : List (String × String) := registered "PKTPresence"
def registeredIQ : List (String × String) := registered "PKTIQ"

/-- the namespaces under which message / presence extensions are registered: a child in one of them may be taken for
an extension (by name or by a "*" entry), so the envelope model requires the stanza's own namespace not to be one -/
def extSpaces : List Str := (registeredMsg ++ registeredPres).map fun p => p.1.toList
def ctxOk (ctx : Str) : Bool := !extSpaces.contains ctx

/-! ### Message (message.go) -/
structure Message where
  attrs   : Attrs
  subject : Str
  body    : Str
  thread  : Str
  error   : Err
  deriving DecidableEq, Repr

def encMessage (m : Message) : El :=
  .elem ⟨[], ['m', 'e', 's', 's', 'a', 'g', 'e']⟩ (encAttrs m.attrs)
    (optText ['s', 'u', 'b', 'j', 'e', 'c', 't'] m.subject ++ optText ['b', 'o', 'd', 'y'] m.body ++ optText ['t', 'h', 'r', 'e', 'a', 'd'] m.thread ++ encErr m.error)

/-- one iteration of the child loop for a start element: registered extension names leave the model -/
def msgKid (m : Message) : El → Option Message
  | .elem n a ks =>
    if extSpaces.contains n.space then none
    else if n.loc = ['b', 'o', 'd', 'y'] then some { m with body := contentOf ks }
    else if n.loc = ['t', 'h', 'r', 'e', 'a', 'd'] then some { m with thread := contentOf ks }
    else if n.loc = ['s', 'u', 'b', 'j', 'e', 'c', 't'] then some { m with subject := contentOf ks }
    else if n.loc = ['e', 'r', 'r', 'o', 'r'] then some { m with error := decErrOnto m.error (.elem n a ks) }
    else none   -- unknown child: not consumed by the loop (F-02, property C02), outside this model
  | _ => some m

def foldKids {α : Type} (f : α → El → Option α) : α → List El → Option α
  | a, [] => some a
  | a, k :: ks => match f a k with
    | some a' => foldKids f a' ks
    | none => none

def decMessage : El → Option Message
  | .elem _ attrs kids => foldKids msgKid ⟨decAttrs attrs, [], [], [], Err.zero⟩ kids
  | _ => none

def Message.wf (m : Message) : Bool :=
  m.attrs.wf && legal m.subject && legal m.body && legal m.thread && m.error.wf

/-! ### Presence (presence.go) -/
structure Presence where
  attrs    : Attrs
  show_    : Str
  status   : Str
  priority : Int
  error    : Err
  deriving DecidableEq, Repr

def encPresence (p : Presence) : El :=
  .elem ⟨[], ['p', 'r', 'e', 's', 'e', 'n', 'c', 'e']⟩ (encAttrs p.attrs)
    (optText ['s', 'h', 'o', 'w'] p.show_ ++ optText ['s', 't', 'a', 't', 'u', 's'] p.status ++
     (if p.priority = 0 then [] else [.elem ⟨[], ['p', 'r', 'i', 'o', 'r', 'i', 't', 'y']⟩ [] [.text true (showInt p.priority)]]) ++
     encErr p.error)

def presKid (p : Presence) : El → Option Presence
  | .elem n a ks =>
    if extSpaces.contains n.space then none
    else if n.loc = ['s', 'h', 'o', 'w'] then some { p with show_ := contentOf ks }
    else if n.loc = ['s', 't', 'a', 't', 'u', 's'] then some { p with status := contentOf ks }
    else if n.loc = ['p', 'r', 'i', 'o', 'r', 'i', 't', 'y'] then
      -- copyValue into int8: empty = 0, else ParseInt(TrimSpace, 10, 8); an error aborts the whole stanza
      (if contentOf ks = [] then some { p with priority := 0 }
       else (parseIntBits 8 (trimSpace (contentOf ks))).map fun i => { p with priority := i })
    else if n.loc = ['e', 'r', 'r', 'o', 'r'] then some { p with error := decErrOnto p.error (.elem n a ks) }
    else none
  | _ => some p

def decPresence : El → Option Presence
  | .elem _ attrs kids => foldKids presKid ⟨decAttrs attrs, [], [], 0, Err.zero⟩ kids
  | _ => none

def Presence.wf (p : Presence) : Bool :=
  p.attrs.wf && legal p.show_ && legal p.status && intFits 8 p.priority && p.error.wf

/-! ### IQ (iq.go): attributes, error, generic payload (`Any *Node`); registered payload types are sampled only -/
structure IQ where
  attrs : Attrs
  error : Option Err
  any   : Option Tree

def isIQPayload (n : Name) : Bool := registeredIQ.any fun p => p.1.toList == n.space && p.2.toList == n.loc

def encIQ (q : IQ) : El :=
  .elem ⟨[], ['i', 'q']⟩ (encAttrs q.attrs)
    ((match q.error with | some e => encErr e | none => []) ++
     (match q.any with | some t => [encNode t] | none => []))

def iqKid (q : IQ) : El → Option IQ
  | .elem n a ks =>
    if n.loc = ['e', 'r', 'r', 'o', 'r'] then some { q with error := some (decErrOnto Err.zero (.elem n a ks)) }
    else if isIQPayload n then none
    else match decNode (.elem n a ks) with
      | some t => some { q with any := some t }
      | none => none
  | _ => some q

def decIQ : El → Option IQ
  | .elem _ attrs kids => foldKids iqKid ⟨decAttrs attrs, none, none⟩ kids
  | _ => none

/-- the payload must not be an element the IQ loop gives to something else (`error`, a registered payload name) -/
def anyOk (ctx : Str) : Option Tree → Bool
  | none => true
  | some (.mk n a c ns) =>
    (Tree.mk n a c ns).wf ctx && n.loc != ['e', 'r', 'r', 'o', 'r'] && !isIQPayload ⟨nsOf ctx n, n.loc⟩

def IQ.wf (ctx : Str) (q : IQ) : Bool :=
  q.attrs.wf && (match q.error with | some e => e.wf && !e.isEmpty | none => true) && anyOk ctx q.any

end XmppVerif.Model.C01
