import XmppVerif.Model.C01SchemaTypes
/-
C01: a stanza TOGETHER with its registered extensions / payload. The hand-written loops of Message / Presence / IQ
(message.go, presence.go, iq.go, as after the repairs F-01a and F-02) ask TypeRegistry for the child's name first and
hand a registered child to Decoder.DecodeElement on a fresh value of the registered type - the generic codec of
Model/C01Schema.lean - before looking at the local name.

  Ext            an extension / payload value: the Go type (by name, as in Model/C01SchemaTypes.lean) and its value
  regLookup      TypeRegistry.GetExtensionType: the store of (packet kind, namespace); the entry for the local name,
                 else the entry "*"; a later MapExtension call for the same key replaces the earlier one
  encMessageX …  marshal: the envelope's own children in field order, then `Extensions` (Message, Presence: last field)
                 / `Payload` before `Error` and `Any` (IQ); an extension is written under its tagged XMLName
  msgKidX …      one iteration of the child loop
-/
namespace XmppVerif.Model.C01S
open XmppVerif.Model.C01 hiding Schema Field FKind FVal FlatVal schemas fld conforms fvalOk encField decField decFields

/-- TypeRegistry.GetExtensionType(pkt, name) -/
def regLookup (pkt : String) (n : Name) : Option String :=
  match regWinner pkt (String.ofList n.space) (String.ofList n.loc) with
  | some t => some t
  | none => if n.loc = ['*'] then none else regWinner pkt (String.ofList n.space) "*"

structure Ext where
  ty : String
  v  : Val

def schemaOf (ty : String) : Ty := (allTypes.lookup ty).getD (.unsupported "unknown type")

def Ext.schema (x : Ext) : Ty := schemaOf x.ty

/-- marshalValue of one element of `Extensions` / of `Payload`: the interface and the pointer are drilled; the field's
fieldInfo is (⟨"", Go field name⟩, omitempty); the parent element (message / presence / iq) has no namespace -/
def encExt (field : String) (x : Ext) : List El := encD [] ⟨[], field.toList⟩ true x.schema x.v

/-- reflect.New(registered type), DecodeElement -/
def decExt (ty : String) (e : El) : Option Ext := (decS (schemaOf ty) e).map fun v => ⟨ty, v⟩

def bodyL : Str := ['b', 'o', 'd', 'y']
def threadL : Str := ['t', 'h', 'r', 'e', 'a', 'd']
def subjectL : Str := ['s', 'u', 'b', 'j', 'e', 'c', 't']
def errorL : Str := ['e', 'r', 'r', 'o', 'r']
def showL : Str := ['s', 'h', 'o', 'w']
def statusL : Str := ['s', 't', 'a', 't', 'u', 's']
def priorityL : Str := ['p', 'r', 'i', 'o', 'r', 'i', 't', 'y']

/-! ### Message -/
structure MessageX where
  base : Message
  exts : List Ext

def encMessageX (m : MessageX) : El :=
  .elem ⟨[], ['m', 'e', 's', 's', 'a', 'g', 'e']⟩ (encAttrs m.base.attrs)
    (optText subjectL m.base.subject ++ optText bodyL m.base.body ++ optText threadL m.base.thread ++
     encErr m.base.error ++ m.exts.flatMap (encExt "Extensions"))

/-- the `else` branch of the loop: the switch on the local name; an unknown element is skipped -/
def msgKidB (m : Message) : El → Message
  | .elem n a ks =>
    if n.loc = bodyL then { m with body := contentOf ks }
    else if n.loc = threadL then { m with thread := contentOf ks }
    else if n.loc = subjectL then { m with subject := contentOf ks }
    else if n.loc = errorL then { m with error := decErrOnto m.error (.elem n a ks) }
    else m
  | _ => m

def msgKidX (m : MessageX) : El → Option MessageX
  | .elem n a ks =>
    match regLookup "PKTMessage" n with
    | some ty => (decExt ty (.elem n a ks)).map fun x => { m with exts := m.exts ++ [x] }
    | none => some { m with base := msgKidB m.base (.elem n a ks) }
  | _ => some m

def decMessageX : El → Option MessageX
  | .elem _ attrs kids => foldKids msgKidX ⟨⟨decAttrs attrs, [], [], [], Err.zero⟩, []⟩ kids
  | _ => none

/-! ### Presence -/
structure PresenceX where
  base : Presence
  exts : List Ext

def encPresenceX (p : PresenceX) : El :=
  .elem ⟨[], ['p', 'r', 'e', 's', 'e', 'n', 'c', 'e']⟩ (encAttrs p.base.attrs)
    (optText showL p.base.show_ ++ optText statusL p.base.status ++
     (if p.base.priority = 0 then [] else [.elem ⟨[], priorityL⟩ [] [.text true (showInt p.base.priority)]]) ++
     encErr p.base.error ++ p.exts.flatMap (encExt "Extensions"))

/-- `none`: a <priority/> whose text is not an int8 aborts the whole stanza -/
def presKidB (p : Presence) : El → Option Presence
  | .elem n a ks =>
    if n.loc = showL then some { p with show_ := contentOf ks }
    else if n.loc = statusL then some { p with status := contentOf ks }
    else if n.loc = priorityL then
      (if contentOf ks = [] then some { p with priority := 0 }
       else (parseIntBits 8 (trimSpace (contentOf ks))).map fun i => { p with priority := i })
    else if n.loc = errorL then some { p with error := decErrOnto p.error (.elem n a ks) }
    else some p
  | _ => some p

def presKidX (p : PresenceX) : El → Option PresenceX
  | .elem n a ks =>
    match regLookup "PKTPresence" n with
    | some ty => (decExt ty (.elem n a ks)).map fun x => { p with exts := p.exts ++ [x] }
    | none => (presKidB p.base (.elem n a ks)).map fun b => { p with base := b }
  | _ => some p

def decPresenceX : El → Option PresenceX
  | .elem _ attrs kids => foldKids presKidX ⟨⟨decAttrs attrs, [], [], 0, Err.zero⟩, []⟩ kids
  | _ => none

/-! ### IQ -/
structure IQX where
  attrs   : Attrs
  payload : Option Ext
  error   : Option Err
  any     : Option Tree

def encIQX (q : IQX) : El :=
  .elem ⟨[], ['i', 'q']⟩ (encAttrs q.attrs)
    ((match q.payload with | some x => encExt "Payload" x | none => []) ++
     (match q.error with | some e => encErr e | none => []) ++
     (match q.any with | some t => [encNode t] | none => []))

def iqKidX (q : IQX) : El → Option IQX
  | .elem n a ks =>
    if n.loc = errorL then some { q with error := some (decErrOnto Err.zero (.elem n a ks)) }
    else match regLookup "PKTIQ" n with
      | some ty => (decExt ty (.elem n a ks)).map fun x => { q with payload := some x }
      | none => (decNode (.elem n a ks)).map fun t => { q with any := some t }
  | _ => some q

def decIQX : El → Option IQX
  | .elem _ attrs kids => foldKids iqKidX ⟨decAttrs attrs, none, none, none⟩ kids
  | _ => none

/-! ### classes -/

/-- no namespace is registered that equals the stanza's own (the stream's default namespace): its own children are then
never taken for extensions (true of jabber:client, jabber:component:accept and none) -/
def ctxOkX (ctx : Str) : Bool := regEntries.all fun e => e.2.1 != String.ofList ctx

/-- an extension / payload the theorems cover: its Go type has a well-formed schema with a tagged, namespaced XMLName,
the registry maps that name (for this packet kind) to this very type, and the value fits -/
def extOk (pkt : String) (x : Ext) : Bool :=
  match x.schema with
  | .struct _ (.tag n) _ _ =>
    Ty.wf x.schema && x.v.fits x.schema && !n.space.isEmpty && legal n.space &&
      regLookup pkt n == some x.ty
  | _ => false

def MessageX.wf (m : MessageX) : Bool := m.base.wf && m.exts.all (extOk "PKTMessage")
def PresenceX.wf (p : PresenceX) : Bool := p.base.wf && p.exts.all (extOk "PKTPresence")

/-- payload, error and generic payload of an IQ: the error non-empty (the all-empty Err has no wire form), the generic
node not an element the loop gives to something else -/
def IQX.wf (ctx : Str) (q : IQX) : Bool :=
  q.attrs.wf &&
  (match q.payload with
   | some x => extOk "PKTIQ" x && (match x.schema with | .struct _ (.tag n) _ _ => n.loc != errorL | _ => false)
   | none => true) &&
  (match q.error with | some e => e.wf && !e.isEmpty | none => true) &&
  (match q.any with
   | some (.mk n a c ns) => (Tree.mk n a c ns).wf ctx && n.loc != errorL && (regLookup "PKTIQ" ⟨nsOf ctx n, n.loc⟩).isNone
   | none => true)

/-- marshal a stanza, print + tokenize under the default namespace `ctx` (with `viewS`: an extension may write `xmlns=""`) -/
def marshalX {α : Type} (ctx : Str) (enc : α → El) (v : α) : List Tok := toks (viewS ctx (enc v))

end XmppVerif.Model.C01S
