import XmppVerif.Model.C01Esc
/-
C01, token level. Three layers, all total functions:

  value  --enc-->  El (what the marshalling code hands to xml.Encoder: names with `Space`, attributes, children,
                       character data / raw inner XML)
         --render-->  bytes            (printer.writeStart / writeEnd / escapeText of encoding/xml)
         --view ctx-->  El             (what xml.Decoder reports for those bytes when the innermost default namespace
                                        around them is `ctx`: `xmlns="…"` shows up as an attribute, an element without
                                        its own namespace inherits `ctx`, attribute values and text are un-escaped)
         --toks-->  List Tok           (the decoder's token stream: start / text / end)
  List Tok --parseElem--> El           (Decoder.DecodeElement: consume exactly one element, generic)
           --dec-->  value             (the library's UnmarshalXML methods / the reflection decoder, per type)

`view` stands for "print, then tokenize". The tokenizer itself (bytes to tokens) is trusted here; `view` is compared
with the real decoder's token stream by the correspondence run. Adjacent character-data children are not merged
by `view` (the encoders below never produce two in a row, nor an empty one).

`stanza.Node` (node.go):
  MarshalXML  : start{Name: XMLName, Attr: Attrs}; EncodeElement(Nodes…); CharData(Content) if non-empty; end
  UnmarshalXML: Attrs = start.Attr without attributes whose local name is "xmlns"; then the reflection decoder on
                {XMLName xml.Name; Content ",cdata"; Nodes ",any"}: XMLName = start.Name, Content = concatenation of
                the direct character data, Nodes = every child element (recursively through UnmarshalXML).
-/
namespace XmppVerif.Model.C01

abbrev Str := List Char

structure Name where
  space : Str
  loc   : Str
  deriving DecidableEq, Repr

structure Attr where
  name  : Name
  value : Str
  deriving DecidableEq, Repr

/-- Generic element tree (both the encoder's and the decoder's view use it). -/
inductive El where
  | elem (name : Name) (attrs : List Attr) (kids : List El)
  | text (nl : Bool) (s : Str)   -- character data; `nl` = escapeNewline flag the printer uses (ghost for the decoder)
  | raw (s : Str)                -- `,innerxml`: written verbatim
  deriving Repr

inductive Tok where
  | start (n : Name) (a : List Attr)
  | text (nl : Bool) (s : Str)
  | raw (s : Str)
  | stop (n : Name)
  deriving DecidableEq, Repr

/-- `stanza.Node` as a value. -/
inductive Tree where
  | mk (name : Name) (attrs : List Attr) (content : Str) (nodes : List Tree)
  deriving Repr

def xmlnsL : Str := ['x', 'm', 'l', 'n', 's']

/-! ### boolean equality for the nested types (no derive handler for nested inductives) -/
mutual
def El.beq : El → El → Bool
  | .elem n a ks, .elem n' a' ks' => decide (n = n') && decide (a = a') && El.beqL ks ks'
  | .text b s, .text b' s' => decide (b = b') && decide (s = s')
  | .raw s, .raw s' => decide (s = s')
  | _, _ => false
def El.beqL : List El → List El → Bool
  | [], [] => true
  | k :: ks, k' :: ks' => El.beq k k' && El.beqL ks ks'
  | _, _ => false
end

mutual
def Tree.beq : Tree → Tree → Bool
  | .mk n a c ns, .mk n' a' c' ns' => decide (n = n') && decide (a = a') && decide (c = c') && Tree.beqL ns ns'
def Tree.beqL : List Tree → List Tree → Bool
  | [], [] => true
  | k :: ks, k' :: ks' => Tree.beq k k' && Tree.beqL ks ks'
  | _, _ => false
end

/-! ### token stream and the generic element parser (`Decoder.DecodeElement`) -/
mutual
def toks : El → List Tok
  | .elem n a ks => .start n a :: (toksL ks ++ [.stop n])
  | .text nl s => [.text nl s]
  | .raw s => [.raw s]
def toksL : List El → List Tok
  | [] => []
  | k :: ks => toks k ++ toksL ks
end

structure Frame where
  name    : Name
  attrs   : List Attr
  kidsRev : List El

def Frame.push (f : Frame) (e : El) : Frame := { f with kidsRev := e :: f.kidsRev }
def Frame.close (f : Frame) : El := .elem f.name f.attrs f.kidsRev.reverse

/-- One pass over the tokens with the stack of open elements; stops after the end tag of the first element.
A mismatching end tag is a syntax error of the real decoder (`none`). -/
def parseGo : List Tok → List Frame → Option (El × List Tok)
  | [], _ => none
  | .start n a :: r, st => parseGo r (⟨n, a, []⟩ :: st)
  | .text nl s :: r, f :: st => parseGo r (f.push (.text nl s) :: st)
  | .raw s :: r, f :: st => parseGo r (f.push (.raw s) :: st)
  | .text _ _ :: _, [] => none
  | .raw _ :: _, [] => none
  | .stop _ :: _, [] => none
  | .stop n :: r, f :: st =>
    if n = f.name then
      match st with
      | [] => some (f.close, r)
      | g :: st' => parseGo r (g.push f.close :: st')
    else none

def parseElem (ts : List Tok) : Option (El × List Tok) := parseGo ts []

/-! ### printer -/
def lit (s : String) : Str := s.toList

/-- ASCII subset of the XML `Name` production without ':' (what `Decoder` reads back as one unprefixed name). -/
def isNameStart (c : Char) : Bool := ('a' ≤ c && c ≤ 'z') || ('A' ≤ c && c ≤ 'Z') || c == '_'
def isNameChar (c : Char) : Bool := isNameStart c || ('0' ≤ c && c ≤ '9') || c == '-' || c == '.'
def nameOk : Str → Bool
  | [] => false
  | c :: r => isNameStart c && r.all isNameChar

/-- `printer.createAttrPrefix` for a namespace URL not yet declared, ASCII URLs only: last path segment, `_` when
that is not a usable name, `_` prepended when it starts with "xml" (any case). The "name already taken" renumbering
and the re-use of a prefix declared on an ancestor are NOT modelled (see `nsAttrModelled`). -/
def lastSeg (s : Str) : Str :=
  let t := (s.reverse.dropWhile (· == '/')).reverse
  (t.reverse.takeWhile (· != '/')).reverse

def lower (c : Char) : Char := if 'A' ≤ c && c ≤ 'Z' then Char.ofNat (c.toNat + 32) else c

def attrPrefix (url : Str) : Str :=
  -- ASCII: `isName(p) && !Contains(p, ":")` is `nameOk p` (Go's isName accepts ':', which is then rejected explicitly)
  let p := if nameOk (lastSeg url) then lastSeg url else ['_']
  if (p.take 3).map lower == ['x', 'm', 'l'] then '_' :: p else p

/-- attributes of one start tag, left to right; `decl` = namespace URLs already given a prefix in this tag -/
def renderAttrs : List Attr → List Str → Str
  | [], _ => []
  | a :: r, decl =>
    if a.name.loc = [] then renderAttrs r decl
    else if a.name.space = [] then
      ' ' :: (a.name.loc ++ lit "=\"" ++ escapeText true a.value ++ '"' :: renderAttrs r decl)
    else
      let p := attrPrefix a.name.space
      let d := if decl.contains a.name.space then [] else lit "xmlns:" ++ p ++ lit "=\"" ++ escapeText true a.name.space ++ lit "\" "
      ' ' :: (d ++ p ++ ':' :: a.name.loc ++ lit "=\"" ++ escapeText true a.value ++ '"' :: renderAttrs r (a.name.space :: decl))

mutual
def render : El → Str
  | .elem n a ks =>
    '<' :: (n.loc ++ (if n.space = [] then [] else lit " xmlns=\"" ++ escapeText true n.space ++ ['"']) ++
      renderAttrs a [] ++ '>' :: (renderL ks ++ '<' :: '/' :: (n.loc ++ ['>'])))
  | .text nl s => escapeText nl s
  | .raw s => s
def renderL : List El → Str
  | [] => []
  | k :: ks => render k ++ renderL ks
end

/-! ### the decoder's view of the printed element -/
def viewAttrs : List Attr → List Str → List Attr
  | [], _ => []
  | a :: r, decl =>
    if a.name.loc = [] then viewAttrs r decl
    else if a.name.space = [] then ⟨a.name, sanitize a.value⟩ :: viewAttrs r decl
    else
      let s := sanitize a.name.space
      let d := if decl.contains a.name.space then [] else [⟨⟨xmlnsL, attrPrefix a.name.space⟩, s⟩]
      d ++ ⟨⟨s, a.name.loc⟩, sanitize a.value⟩ :: viewAttrs r (a.name.space :: decl)

def nsOf (ctx : Str) (n : Name) : Str := if n.space = [] then ctx else sanitize n.space

mutual
def view (ctx : Str) : El → El
  | .elem n a ks =>
    .elem ⟨nsOf ctx n, n.loc⟩
      ((if n.space = [] then [] else [⟨⟨[], xmlnsL⟩, sanitize n.space⟩]) ++ viewAttrs a [])
      (viewL (nsOf ctx n) ks)
  | .text nl s => .text nl (sanitize s)
  | .raw s => .raw s
def viewL (ctx : Str) : List El → List El
  | [] => []
  | k :: ks => view ctx k :: viewL ctx ks
end

/-! ### stanza.Node -/
def txt (nl : Bool) (s : Str) : List El := if s = [] then [] else [.text nl s]

mutual
def encNode : Tree → El
  | .mk n a c ns => .elem n a (encNodes ns ++ txt false c)
def encNodes : List Tree → List El
  | [] => []
  | t :: r => encNode t :: encNodes r
end

/-- concatenation of the direct character data (`,chardata` / `,cdata` accumulation of the reflection decoder) -/
def contentOf : List El → Str
  | [] => []
  | .text _ s :: r => s ++ contentOf r
  | _ :: r => contentOf r

def dropXmlns (a : List Attr) : List Attr := a.filter fun x => x.name.loc != xmlnsL

mutual
def decNode : El → Option Tree
  | .elem n a ks => some (.mk n (dropXmlns a) (contentOf ks) (decNodes ks))
  | _ => none
def decNodes : List El → List Tree
  | [] => []
  | k :: ks =>
    match decNode k with
    | some t => t :: decNodes ks
    | none => decNodes ks
end

/-- Node.MarshalXML followed by print + tokenize under the default namespace `ctx`. -/
def marshalNode (ctx : Str) (t : Tree) : List Tok := toks (view ctx (encNode t))

/-- Decoder.DecodeElement(&node): consume one element, then Node.UnmarshalXML. -/
def unmarshalNode (ts : List Tok) : Option (Tree × List Tok) :=
  match parseElem ts with
  | some (e, rest) => (decNode e).map fun t => (t, rest)
  | none => none

def nodeBytes (t : Tree) : Str := render (encNode t)

/-- marshal a value of any modelled type, print + tokenize under the default namespace `ctx` -/
def marshalWith {α : Type} (ctx : Str) (enc : α → El) (v : α) : List Tok := toks (view ctx (enc v))

/-- Decoder.DecodeElement(&v): consume one element, then the type's decoder -/
def unmarshalWith {α : Type} (dec : El → Option α) (ts : List Tok) : Option (α × List Tok) :=
  match parseElem ts with
  | some (e, rest) => (dec e).map fun v => (v, rest)
  | none => none

/-! ### the property's quantifier, the regions of the recorded findings, and the exact class -/
def attrInQ (a : Attr) : Bool :=
  nameOk a.name.loc && a.name.loc != xmlnsL && legal a.name.space && legal a.value

mutual
/-- What the property quantifies over: element and attribute names are XML names (they are written raw, by design;
"xmlns" is reserved), every string is made of XML-legal characters. -/
def Tree.inQ : Tree → Bool
  | .mk n a c ns => nameOk n.loc && legal n.space && a.all attrInQ && legal c && Tree.inQL ns
def Tree.inQL : List Tree → Bool
  | [] => true
  | t :: r => Tree.inQ t && Tree.inQL r
end

mutual
/-- F-01d: some element has no namespace of its own while a non-empty default namespace is in force around it. -/
def Tree.inheritsNs (ctx : Str) : Tree → Bool
  | .mk n _ _ ns => (n.space.isEmpty && !ctx.isEmpty) || Tree.inheritsNsL (nsOf ctx n) ns
def Tree.inheritsNsL (ctx : Str) : List Tree → Bool
  | [] => false
  | t :: r => Tree.inheritsNs ctx t || Tree.inheritsNsL ctx r
end

mutual
/-- F-01e: some attribute carries a namespace. -/
def Tree.hasNsAttr : Tree → Bool
  | .mk _ a _ ns => a.any (fun x => !x.name.space.isEmpty) || Tree.hasNsAttrL ns
def Tree.hasNsAttrL : List Tree → Bool
  | [] => false
  | t :: r => Tree.hasNsAttr t || Tree.hasNsAttrL r
end

mutual
/-- number of elements with at least one namespaced attribute -/
def Tree.nsAttrElems : Tree → Nat
  | .mk _ a _ ns => (if a.any (fun x => !x.name.space.isEmpty) then 1 else 0) + Tree.nsAttrElemsL ns
def Tree.nsAttrElemsL : List Tree → Nat
  | [] => 0
  | t :: r => Tree.nsAttrElems t + Tree.nsAttrElemsL r
end

def prefixesDistinct (a : List Attr) : Bool :=
  let urls := (a.filter (fun x => !x.name.space.isEmpty)).map (·.name.space) |>.eraseDups
  (urls.map attrPrefix).eraseDups.length == urls.length && urls.all (fun u => u.all (fun c => c.toNat < 128))

mutual
def Tree.prefixesOk : Tree → Bool
  | .mk _ a _ ns => prefixesDistinct a && Tree.prefixesOkL ns
def Tree.prefixesOkL : List Tree → Bool
  | [] => true
  | t :: r => Tree.prefixesOk t && Tree.prefixesOkL r
end

/-- where `render` / `view` are claimed faithful for namespaced attributes: one element at most carries them, the
URLs are ASCII and get pairwise distinct generated prefixes (no renumbering, no inherited prefix). -/
def Tree.nsAttrModelled (t : Tree) : Bool := t.nsAttrElems ≤ 1 && t.prefixesOk

/-- The largest class with an exact round trip: inside the quantifier, no element inherits a namespace (F-01d),
no attribute carries one (F-01e). `ctx` = the default namespace in force around the element. -/
def Tree.wf (ctx : Str) (t : Tree) : Bool := t.inQ && !t.inheritsNs ctx && !t.hasNsAttr

/-! ### element skeleton (names only), for "text never injects XML" -/
mutual
def shape : El → List Str
  | .elem n _ ks => ('<' :: n.loc) :: (shapeL ks ++ [['>']])
  | _ => []
def shapeL : List El → List Str
  | [] => []
  | k :: ks => shape k ++ shapeL ks
end

def count (c : Char) (s : Str) : Nat := (s.filter (· == c)).length

mutual
def elemCount : El → Nat
  | .elem _ _ ks => 1 + elemCountL ks
  | _ => 0
def elemCountL : List El → Nat
  | [] => 0
  | k :: ks => elemCount k + elemCountL ks
end

def plainAttr (x : Attr) : Bool := x.name.space.isEmpty && nameOk x.name.loc

mutual
/-- element and attribute names are names, attributes carry no namespace, no raw inner XML -/
def El.namesOk : El → Bool
  | .elem n a ks => nameOk n.loc && a.all plainAttr && El.namesOkL ks
  | .text _ _ => true
  | .raw _ => false
def El.namesOkL : List El → Bool
  | [] => true
  | k :: ks => El.namesOk k && El.namesOkL ks
end

mutual
/-- names only: element and attribute names are names, attributes carry no namespace (nothing about the text) -/
def Tree.namesOk : Tree → Bool
  | .mk n a _ ns => nameOk n.loc && a.all plainAttr && Tree.namesOkL ns
def Tree.namesOkL : List Tree → Bool
  | [] => true
  | t :: r => Tree.namesOk t && Tree.namesOkL r
end

def Frame.pushAll (f : Frame) (ks : List El) : Frame := { f with kidsRev := ks.reverse ++ f.kidsRev }

end XmppVerif.Model.C01
