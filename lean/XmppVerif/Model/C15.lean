/-
Model of `stanza.NewJid`, `Jid.Full`, `Jid.Bare` (stanza/jid.go) over code points.
`strings.SplitN(s, sep, 2)` for the one-byte ASCII separators '@' and '/' is `splitFirst`;
`strings.IndexFunc(s, isInvalid(runes)) < 0` is `List.all (not ∘ invalid)`.
Strings that are not valid UTF-8 are outside the model (the harness feeds them to the Go code only).
-/
namespace XmppVerif.Model.C15

structure Jid where
  node     : List Char
  domain   : List Char
  resource : List Char
  deriving DecidableEq, Repr

/-- `strings.SplitN(s, c, 2)`: `(s, none)` when `c` is absent, else (before, some after). -/
def splitFirst (c : Char) : List Char → List Char × Option (List Char)
  | [] => ([], none)
  | x :: xs =>
    if x = c then ([], some xs)
    else
      let r := splitFirst c xs
      (x :: r.1, r.2)

/-- `unicode.IsSpace` (Go 1.23: Latin-1 fast path plus the White_Space table). -/
def isSpace (c : Char) : Bool :=
  let n := c.toNat
  (9 ≤ n && n ≤ 13) || n == 0x20 || n == 0x85 || n == 0xA0 || n == 0x1680 ||
  (0x2000 ≤ n && n ≤ 0x200A) || n == 0x2028 || n == 0x2029 || n == 0x202F || n == 0x205F || n == 0x3000

def userForbidden : List Char := ['@', '/', '\'', '"', ':', '<', '>']
def domainForbidden : List Char := ['@', '/']

def invalidIn (bad : List Char) (c : Char) : Bool := isSpace c || bad.contains c

def isUsernameValid (u : List Char) : Bool := u.all fun c => !invalidIn userForbidden c
def isDomainValid (d : List Char) : Bool := !d.isEmpty && d.all fun c => !invalidIn domainForbidden c

/-- Second half of `NewJid`: cut the resource off the domain field, then validate node and domain. -/
def finish (node dom0 : List Char) : Option Jid :=
  if !isUsernameValid node then none
  else if !isDomainValid (splitFirst '/' dom0).1 then none
  else some ⟨node, (splitFirst '/' dom0).1, (splitFirst '/' dom0).2.getD []⟩

/-- First half: the result of `SplitN(sjid, "@", 2)`. -/
def afterAt (a : List Char) : Option (List Char) → Option Jid
  | none => finish [] a                       -- server or component JID
  | some rest =>
    if a = [] then none                        -- "invalid jid"
    else if rest = [] then none                -- "domain cannot be empty"
    else finish a rest

/-- `NewJid`; `none` = an error was returned. -/
def newJid (s : List Char) : Option Jid :=
  if s = [] then none else afterAt (splitFirst '@' s).1 (splitFirst '@' s).2

def bare (j : Jid) : List Char :=
  if j.node = [] then j.domain else j.node ++ '@' :: j.domain

/-- `Full()` (after fix F-15: a domain JID with a resource renders as domain/resource). -/
def full (j : Jid) : List Char :=
  if j.resource = [] then bare j
  else if j.node = [] then j.domain ++ '/' :: j.resource
  else j.node ++ '@' :: (j.domain ++ '/' :: j.resource)

end XmppVerif.Model.C15
