/-
Model of `backoff` (backoff.go): `durationForAttempt`, `duration`, `reset`, `setDefault`.
Go computes `int(math.Trunc(math.Min(float64(Cap), float64(Base)*math.Pow(float64(Factor), float64(attempt)))))`
milliseconds and multiplies by `time.Millisecond` (10^6 ns) in int64. The model works in `Nat`:
exact whenever Cap < 2^52 (every product below 2^53 is an exact float64; larger ones already exceed Cap);
float rounding outside that range is not modelled (DESIGN.md section 10) and the harness only uses larger caps
that are powers of two. Jitter (`rand.Intn(d)`) is not drawn by the model: the model reports the bound `d`.
-/
namespace XmppVerif.Model.C19

structure Cfg where
  base   : Nat
  factor : Nat
  cap    : Nat
  noJitter : Bool
  deriving DecidableEq, Repr

def defaultBase : Nat := 20
def defaultFactor : Nat := 2
def defaultCap : Nat := 180000

/-- `setDefault`: zero fields take the package defaults. -/
def setDefault (c : Cfg) : Cfg :=
  { c with base := if c.base = 0 then defaultBase else c.base,
           cap := if c.cap = 0 then defaultCap else c.cap,
           factor := if c.factor = 0 then defaultFactor else c.factor }

/-- Milliseconds for attempt `n`. The exponent is cut at 64: with factor ≥ 2 the power already exceeds every
Go `int` cap there (proved equal to the uncut spec in Props/C19), which keeps the driver cheap for n = 10^18. -/
def durMs (c : Cfg) (n : Nat) : Nat :=
  let c := setDefault c
  min c.cap (c.base * c.factor ^ (min n 64))

/-- int64 wrap-around of `time.Duration(d) * time.Millisecond`. -/
def toInt64 (x : Nat) : Int :=
  let m : Nat := x % 2^64
  if m < 2^63 then (m : Int) else (m : Int) - (2^64 : Nat)

def durNs (c : Cfg) (n : Nat) : Int := toInt64 (durMs c n * 1000000)

structure St where
  cfg     : Cfg
  attempt : Nat
  deriving Repr

inductive Op where
  | dur               -- b.duration()
  | durFor (n : Nat)  -- b.durationForAttempt(n)
  | reset
  deriving DecidableEq, Repr

/-- Output: the no-jitter duration in ns (with jitter: the exclusive upper bound of the draw); `reset` returns 0. -/
def step (s : St) : Op → St × Int
  | .dur      => ({ s with attempt := s.attempt + 1 }, durNs s.cfg s.attempt)
  | .durFor n => (s, durNs s.cfg n)
  | .reset    => ({ s with attempt := 0 }, 0)

def run (s : St) : List Op → St × List Int
  | [] => (s, [])
  | op :: ops =>
    let (s', o) := step s op
    let (s'', os) := run s' ops
    (s'', o :: os)

/-- `StreamManager.resume` (stream_manager.go) keeps ONE zero-valued `backoff` - package defaults, jitter on - for
the whole retry loop of one connection loss and calls `wait()` = `time.Sleep(duration())` after every failed
attempt (tied by `Tie.C19.tie_supervisor_backoff`). -/
def supervisorCfg : Cfg := ⟨0, 0, 0, false⟩

/-- the exclusive upper bounds (ns) of the waits after the first `k` consecutive failed attempts of one loss -/
def supervisorBounds (k : Nat) : List Int := (run ⟨supervisorCfg, 0⟩ (List.replicate k .dur)).2

end XmppVerif.Model.C19
