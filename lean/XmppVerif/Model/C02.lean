/-
C02 model: `stanza.NextPacket` and the decoders behind it as TOKEN CONSUMERS (stage A: the tokenizer of
encoding/xml is trusted; its output is the input alphabet `Tok`).

  Tok   = start name attrs | end name | text | misc        (misc = comment / processing instruction / directive)
  run   = one decoder invocation (`DecodeElement` on a start element that was just read): consumes tokens up to and
          including the end of that element and reports what the Go code keeps of it (its direct character data and,
          per child it dispatched on, the child's name and direct character data)
  Dec   = which Go code decodes an element: `skip` stands for `d.Skip()` and for reflection-based `DecodeElement`
          into a type whose fields have no hand-written `UnmarshalXML` (both consume the whole subtree by depth
          counting, never comparing names); every other constructor is one hand-written `for { d.Token() … }` loop
          (or, for `features`/`delegation`/`mucx`, the reflection walk over a struct that CONTAINS a field with a
          hand-written loop), which stops at the first end element EQUAL to `start.End()`.
  arm   = what the loop does with a child start element: `call c` = `d.DecodeElement(…, &tt)` / `d.Skip()` (the child
          is consumed by decoder `c`), `descend` = the Go code does nothing, so the loop goes on with the child's
          inner tokens (the pre-fix F-02 behaviour; kept so that the defect can be stated and witnessed).
  `armFix` transcribes the loops of /repo AFTER the F-02 fix; `armOld` is the table before it.

encoding/xml reports "did not consume entire <x> element" when an `UnmarshalXML` returns before the real end of
its element (`unmarshalInterface`): `early` below. A loop that reads an end element at its own depth whose name is
not its own cannot happen on tokenizer output (Strict mode rejects mismatched tags): `syntax`.
-/
namespace XmppVerif.Model.C02

structure Name where
  space : String
  loc : String
  deriving DecidableEq, Repr, Inhabited

structure Attr where
  name : Name
  value : String
  deriving DecidableEq, Repr

inductive Tok where
  | start (n : Name) (as : List Attr)
  | stop (n : Name)
  | text (s : String)
  | misc
  deriving DecidableEq, Repr

/-- which Go code consumes an element -/
inductive Dec where
  | skip        -- d.Skip(), reflection DecodeElement without hand-written loops below, Node
  | message | presence | iq     -- Message/Presence/IQ.UnmarshalXML
  | err         -- Err.UnmarshalXML
  | features    -- reflection over StreamFeatures (field StartTLS has a hand-written loop)
  | tls         -- TlsStartTLS.UnmarshalXML
  | smFailed    -- SMFailed.UnmarshalXML
  | command     -- Command.UnmarshalXML
  | psOwner     -- PubSubOwner.UnmarshalXML
  | psEvent     -- PubSubEvent.UnmarshalXML
  | delegation  -- reflection over Delegation (field Forwarded has a hand-written loop)
  | forwarded   -- Forwarded.UnmarshalXML
  | mucx        -- reflection over MucPresence (field History has a hand-written loop)
  | history     -- History.UnmarshalXML
  deriving DecidableEq, Repr

/-- hand-written loops compare the end element with `start.End()`; Skip and reflection count depth -/
def Dec.byName : Dec → Bool
  | .skip | .features | .delegation | .mucx => false
  | _ => true

inductive Arm where
  | descend
  | call (c : Dec)
  | reject      -- DecodeElement into a type whose XMLName demands another namespace: fails at once

  deriving DecidableEq, Repr

inductive ErrClass where
  | eof        -- the token stream ended inside an element (Token() returned an error)
  | early      -- "did not consume entire <x> element"
  | syntax     -- not tokenizer output (mismatched end element)
  | fuel       -- never happens with the fuel `nextPacket` supplies (theorem `run_no_fuel`)
  | unknown    -- unknown namespace / unexpected XMPP packet
  | value      -- a value the Go field type rejects (number syntax, namespace demanded by the field's XMLName)
  deriving DecidableEq, Repr

/-- what a decoder keeps of the element it consumed -/
structure Info where
  text : String                     -- direct character data, concatenated
  kids : List (Name × String)       -- children the decoder dispatched on: name, the child's direct character data
  deriving DecidableEq, Repr

def Info.empty : Info := ⟨"", []⟩

inductive Res where
  | ok (rest : List Tok) (info : Info)
  | err (e : ErrClass)
  deriving DecidableEq, Repr

/-! ### values that Go field types reject (only the positions at stanza / nonza level; see `valueOk`) -/

def isSpaceChar (c : Char) : Bool :=
  c = ' ' || c = '\t' || c = '\n' || c = '\r' || c.toNat = 11 || c.toNat = 12 || c.toNat = 0x85 || c.toNat = 0xA0

def trimChars (cs : List Char) : List Char :=
  ((cs.dropWhile isSpaceChar).reverse.dropWhile isSpaceChar).reverse

def isDigit (c : Char) : Bool := '0' ≤ c && c ≤ '9'

def digitsVal (cs : List Char) : Nat := cs.foldl (fun acc c => acc * 10 + (c.toNat - 48)) 0

/-- `strconv.ParseUint(strings.TrimSpace(s), 10, 64)` succeeds, or the value is empty (copyValue: zero) -/
def uintOk (s : String) : Bool :=
  s.isEmpty ||
    (let t := trimChars s.toList
     !t.isEmpty && t.all isDigit && digitsVal t < 2 ^ 64)

/-- `strconv.ParseInt(strings.TrimSpace(s), 10, 8)` succeeds, or the character data is empty -/
def int8Ok (s : String) : Bool :=
  s.isEmpty ||
    (match trimChars s.toList with
     | '-' :: ds => !ds.isEmpty && ds.all isDigit && digitsVal ds ≤ 128
     | '+' :: ds => !ds.isEmpty && ds.all isDigit && digitsVal ds ≤ 127
     | ds => !ds.isEmpty && ds.all isDigit && digitsVal ds ≤ 127)

def presExtKeys : List (String × String) := [("http://jabber.org/protocol/muc", "x")]

/-- value conversion after a child was consumed: parent decoder, child name, what was kept of the child.
`<priority/>` of a presence is an int8 (`d.DecodeElement(&pres.Priority, &tt)`). -/
def valueOk (dec : Dec) (n : Name) (ci : Info) : Bool :=
  match dec with
  | .presence => if n.loc = "priority" ∧ ¬ presExtKeys.contains (n.space, n.loc) then int8Ok ci.text else true
  | _ => true

/-- One decoder invocation. `A` = arm table, fuel, decoder, name of the element being decoded (`start.End()`),
`d` = number of children the loop has entered without consuming them (always 0 for `armFix`). -/
def run (A : Dec → Name → Arm) : Nat → Dec → Name → Nat → List Tok → Res
  | 0, _, _, _, _ => .err .fuel
  | _ + 1, _, _, _, [] => .err .eof
  | f + 1, dec, self, d, .text s :: r =>
      match run A f dec self d r with
      | .ok r' i => .ok r' (if d = 0 then { i with text := s ++ i.text } else i)
      | .err e => .err e
  | f + 1, dec, self, d, .misc :: r => run A f dec self d r
  | f + 1, dec, self, d, .stop n :: r =>
      if d = 0 then
        (if dec.byName && n != self then .err .syntax else .ok r Info.empty)
      else if dec.byName && n == self then .err .early
      else run A f dec self (d - 1) r
  | f + 1, dec, self, d, .start n _ :: r =>
      match A dec n with
      | .descend => run A f dec self (d + 1) r
      | .reject => .err .value
      | .call c =>
        match run A f c n 0 r with
        | .ok r' ci =>
          if valueOk dec n ci then
            (match run A f dec self d r' with
             | .ok r'' i => .ok r'' { i with kids := (n, ci.text) :: i.kids }
             | .err e => .err e)
          else .err .value
        | .err e => .err e

/-! ### the tables -/

def nsStream := "http://etherx.jabber.org/streams"
def nsClient := "jabber:client"
def nsComponent := "jabber:component:accept"
def nsSASL := "urn:ietf:params:xml:ns:xmpp-sasl"
def nsSM := "urn:xmpp:sm:3"
def nsTLS := "urn:ietf:params:xml:ns:xmpp-tls"
def nsPSOwner := "http://jabber.org/protocol/pubsub#owner"
def nsPSEvent := "http://jabber.org/protocol/pubsub#event"
def nsCommands := "http://jabber.org/protocol/commands"
def nsDelegation := "urn:xmpp:delegation:1"
def nsForward := "urn:xmpp:forward:0"
def nsMuc := "http://jabber.org/protocol/muc"

/-- `TypeRegistry` after package initialisation: (space, local) of the registered extensions per stanza kind -/
def msgExt : List (String × String) := [
  ("http://jabber.org/protocol/chatstates", "active"), ("http://jabber.org/protocol/chatstates", "composing"),
  ("http://jabber.org/protocol/chatstates", "gone"), ("http://jabber.org/protocol/chatstates", "inactive"),
  ("http://jabber.org/protocol/chatstates", "paused"), ("http://jabber.org/protocol/pubsub#event", "event"),
  ("http://jabber.org/protocol/xhtml-im", "html"), ("jabber:x:oob", "x"),
  ("urn:xmpp:chat-markers:0", "acknowledged"), ("urn:xmpp:chat-markers:0", "displayed"),
  ("urn:xmpp:chat-markers:0", "markable"), ("urn:xmpp:chat-markers:0", "received"),
  ("urn:xmpp:delegation:1", "delegation"), ("urn:xmpp:hints", "no-copy"), ("urn:xmpp:hints", "no-permanent-store"),
  ("urn:xmpp:hints", "no-store"), ("urn:xmpp:hints", "store"), ("urn:xmpp:receipts", "received"),
  ("urn:xmpp:receipts", "request")]

def presExt : List (String × String) := presExtKeys

def iqExt : List (String × String) := [
  ("http://jabber.org/protocol/commands", "command"), ("http://jabber.org/protocol/disco#info", "query"),
  ("http://jabber.org/protocol/disco#items", "query"), ("http://jabber.org/protocol/pubsub", "pubsub"),
  ("http://jabber.org/protocol/pubsub#owner", "pubsub"), ("jabber:iq:roster", "query"), ("jabber:iq:version", "query"),
  ("urn:ietf:params:xml:ns:xmpp-bind", "bind"), ("urn:ietf:params:xml:ns:xmpp-session", "session"),
  ("urn:xmpp:delegation:1", "delegation"), ("urn:xmpp:iot:control", "set")]

def Name.key (n : Name) : String × String := (n.space, n.loc)

def nsStanzas := "urn:ietf:params:xml:ns:xmpp-stanzas"
def nsData := "jabber:x:data"
def nsRSM := "http://jabber.org/protocol/rsm"

/-- the `case "…":` labels of SMFailed.UnmarshalXML: each decodes into a type whose XMLName is in `nsStanzas` -/
def smFailedConds : List String := [
  "bad-format", "bad-namespace-prefix", "conflict", "connection-timeout", "host-gone", "host-unknown",
  "improper-addressing", "internal-server-error", "invalid-from", "invalid-id", "invalid-namespace", "invalid-xml",
  "not-authorized", "not-well-formed", "policy-violation", "remote-connection-failed", "reset", "resource-constraint",
  "restricted-xml", "see-other-host", "system-shutdown", "undefined-condition", "unexpected-request",
  "unsupported-encoding", "unsupported-stanza-type", "unsupported-version", "xml-not-well-formed"]

/-- decoder of a registered extension type: the three with a hand-written `UnmarshalXML` of their own, the one
whose struct contains such a field, and reflection for the rest -/
def extDec (n : Name) : Dec :=
  if n.key = (nsPSEvent, "event") then .psEvent
  else if n.key = (nsPSOwner, "pubsub") then .psOwner
  else if n.key = (nsCommands, "command") then .command
  else if n.key = (nsDelegation, "delegation") then .delegation
  else if n.key = (nsMuc, "x") then .mucx
  else .skip

/-- `unknown` = what the loop does with a child it does not recognise (the only thing F-02 changed) -/
def armWith (unknown : Arm) : Dec → Name → Arm
  | .skip, _ => .call .skip
  | .message, n =>
      if msgExt.contains n.key then .call (extDec n)
      else if n.loc = "body" ∨ n.loc = "thread" ∨ n.loc = "subject" then .call .skip
      else if n.loc = "error" then .call .err
      else unknown
  | .presence, n =>
      if presExt.contains n.key then .call (extDec n)
      else if n.loc = "show" ∨ n.loc = "status" ∨ n.loc = "priority" then .call .skip
      else if n.loc = "error" then .call .err
      else unknown
  | .iq, n =>
      if n.loc = "error" then .call .err
      else if iqExt.contains n.key then .call (extDec n)
      else .call .skip                                   -- decoded as a generic Node
  | .err, _ => .call .skip                               -- every child is decoded as a Node
  | .features, n => if n.key = (nsTLS, "starttls") then .call .tls else .call .skip
  | .tls, _ => .call .skip
  | .smFailed, n =>                                      -- known conditions: DecodeElement; others: Skip
      if smFailedConds.contains n.loc ∧ n.space ≠ nsStanzas then .reject else .call .skip
  | .command, n =>                                       -- actions / note / x (a jabber:x:data Form) / default: Node
      if n.loc = "x" ∧ n.space ≠ nsData then .reject else .call .skip
  | .psOwner, n =>
      if n.loc = "affiliations" ∨ n.loc = "configure" ∨ n.loc = "default" ∨ n.loc = "delete" ∨ n.loc = "purge"
         ∨ n.loc = "subscriptions" then .call .skip
      else unknown
  | .psEvent, n =>
      if n.loc = "collection" ∨ n.loc = "configuration" ∨ n.loc = "delete" ∨ n.loc = "items" ∨ n.loc = "purge"
         ∨ n.loc = "subscription" then .call .skip
      else unknown
  | .delegation, n =>
      if n.key = (nsForward, "forwarded") then .call .forwarded
      else if n.loc = "set" ∧ n.space ≠ nsRSM then .reject        -- field `ResultSet *ResultSet xml:"set"`
      else .call .skip
  | .forwarded, n =>
      if n.loc = "message" then .call .message
      else if n.loc = "presence" then .call .presence
      else if n.loc = "iq" then .call .iq
      else unknown
  | .mucx, n => if n.loc = "history" then .call .history else .call .skip
  | .history, _ => unknown

/-- the loops of /repo after the F-02 fix: an unrecognised child is consumed with `d.Skip()` -/
def armFix : Dec → Name → Arm := armWith (.call .skip)
/-- the loops before the fix: an unrecognised child is ignored, the loop goes on inside it -/
def armOld : Dec → Name → Arm := armWith .descend

/-! ### NextPacket -/

inductive Kind where
  | message | presence | iq | streamFeatures | streamError | saslSuccess | saslFailure
  | smEnabled | smResumed | smResume | smRequest | smAnswer | smFailed | handshake | streamClose
  deriving DecidableEq, Repr

/-- the namespace switch of NextPacket composed with the local-name switches of decodeStream / decodeSASL /
decodeClient / decodeComponent / smDecoder.decode; names not listed take a `default:` arm (an error) -/
def dispatchTable : List ((String × String) × Kind) := [
  (("http://etherx.jabber.org/streams", "error"), .streamError),
  (("http://etherx.jabber.org/streams", "features"), .streamFeatures),
  (("urn:ietf:params:xml:ns:xmpp-sasl", "success"), .saslSuccess),
  (("urn:ietf:params:xml:ns:xmpp-sasl", "failure"), .saslFailure),
  (("jabber:client", "message"), .message),
  (("jabber:client", "presence"), .presence),
  (("jabber:client", "iq"), .iq),
  (("jabber:component:accept", "handshake"), .handshake),
  (("jabber:component:accept", "message"), .message),
  (("jabber:component:accept", "presence"), .presence),
  (("jabber:component:accept", "iq"), .iq),
  (("urn:xmpp:sm:3", "enabled"), .smEnabled),
  (("urn:xmpp:sm:3", "resumed"), .smResumed),
  (("urn:xmpp:sm:3", "resume"), .smResume),
  (("urn:xmpp:sm:3", "r"), .smRequest),
  (("urn:xmpp:sm:3", "a"), .smAnswer),
  (("urn:xmpp:sm:3", "failed"), .smFailed)]

def dispatch (n : Name) : Option Kind := dispatchTable.lookup n.key

/-- the decoder each `xxx.decode(p, se)` hands the element to -/
def kindDec : Kind → Dec
  | .message => .message
  | .presence => .presence
  | .iq => .iq
  | .streamFeatures => .features
  | .smFailed => .smFailed
  | _ => .skip

structure Packet where
  kind : Kind
  type : String
  id : String
  frm : String
  to : String
  summary : String      -- message: Body; presence: Status; otherwise ""
  deriving DecidableEq, Repr

inductive PRes where
  | pkt (p : Packet)
  | err (e : ErrClass)
  deriving DecidableEq, Repr

/-- the attribute loops: `if attr.Name.Local == k { field = attr.Value }` over all attributes in order, so the LAST
one with that local name wins, whatever its namespace prefix -/
def attrLast (k : String) (as : List Attr) : String :=
  as.foldl (fun acc a => if a.name.loc = k then a.value else acc) ""

def isStanza : Kind → Bool
  | .message | .presence | .iq => true
  | _ => false

/-- `case "body": d.DecodeElement(&msg.Body, &tt)` in the arm for children that are not registered extensions,
executed for every such child in order: the last one wins -/
def lastKid (ext : List (String × String)) (k : String) (kids : List (Name × String)) : String :=
  kids.foldl (fun acc p => if !ext.contains p.1.key && p.1.loc = k then p.2 else acc) ""

def summaryOf (k : Kind) (i : Info) : String :=
  match k with
  | .message => lastKid msgExt "body" i.kids
  | .presence => lastKid presExt "status" i.kids
  | _ => ""

def mkPacket (k : Kind) (as : List Attr) (i : Info) : Packet :=
  if isStanza k then
    ⟨k, attrLast "type" as, attrLast "id" as, attrLast "from" as, attrLast "to" as, summaryOf k i⟩
  else ⟨k, "", "", "", "", ""⟩

/-- attributes that reflection converts for the stream-management nonzas: `h` (uint / *uint) of <a/>, <resumed/>,
<resume/> and `max` (uint) of <enabled/>; every attribute with that local name is converted -/
def topAttrsOk (k : Kind) (as : List Attr) : Bool :=
  match k with
  | .smAnswer | .smResumed | .smResume => as.all fun a => a.name.loc != "h" || uintOk a.value
  | .smEnabled => as.all fun a => a.name.loc != "max" || uintOk a.value
  | _ => true

def streamEnd : Name := ⟨nsStream, "stream"⟩
def closePacket : Packet := ⟨.streamClose, "", "", "", "", ""⟩

/-- NextPacket on the remaining tokens: the result and the tokens left for the next call -/
def nextPacketWith (A : Dec → Name → Arm) : List Tok → PRes × List Tok
  | [] => (.err .eof, [])
  | .text _ :: r => nextPacketWith A r
  | .misc :: r => nextPacketWith A r
  | .stop n :: r => if n = streamEnd then (.pkt closePacket, r) else nextPacketWith A r
  | .start n as :: r =>
      match dispatch n with
      | none => (.err .unknown, r)
      | some k =>
        match run A (r.length + 1) (kindDec k) n 0 r with
        | .ok r' i => if topAttrsOk k as then (.pkt (mkPacket k as i), r') else (.err .value, [])
        | .err e => (.err e, [])

def nextPacket : List Tok → PRes × List Tok := nextPacketWith armFix

/-- repeated NextPacket until the first error (what a receive loop sees); the error is the last entry -/
def packetsWith (A : Dec → Name → Arm) : Nat → List Tok → List PRes
  | 0, _ => [.err .fuel]
  | f + 1, ts =>
      match nextPacketWith A ts with
      | (.pkt p, r) => .pkt p :: packetsWith A f r
      | (.err e, _) => [.err e]

def packets (ts : List Tok) : List PRes := packetsWith armFix (ts.length + 1) ts

/-! ### trees (the well-formed inputs) -/

inductive Tree where
  | elem (n : Name) (as : List Attr) (kids : List Tree)
  | text (s : String)
  | misc
  deriving Repr

mutual
def toks : Tree → List Tok
  | .elem n as ks => .start n as :: (toksL ks ++ [.stop n])
  | .text s => [.text s]
  | .misc => [.misc]
def toksL : List Tree → List Tok
  | [] => []
  | t :: ts => toks t ++ toksL ts
end

/-- a top-level item of a stream: an element / inter-stanza text / comment, or the stream's closing tag -/
inductive Item where
  | tree (t : Tree)
  | close
  deriving Repr

def Item.toks : Item → List Tok
  | .tree t => XmppVerif.Model.C02.toks t
  | .close => [.stop streamEnd]

def itemsToks : List Item → List Tok
  | [] => []
  | i :: is => i.toks ++ itemsToks is

end XmppVerif.Model.C02
