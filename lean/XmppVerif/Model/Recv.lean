/-
Model of the receive loops `Client.recv` (client.go) and `Component.recv` (component.go), as they are after the
fixes F-09 (only stanzas are counted), F-05 (nil queue guard), F-12 (a failed answer write is reported as a
disconnection) and F-13c (a stream closed by the server is reported as a disconnection, without an error callback). One inbound item = one value returned by `stanza.NextPacket`, or a decoder error.
-/
namespace XmppVerif.Model.Recv

inductive Pkt where
  | msg (id : String)
  | pres (id : String)
  | iq (id : String)
  | r                       -- <r xmlns='urn:xmpp:sm:3'/>
  | a (h : Nat)             -- <a xmlns='urn:xmpp:sm:3' h='h'/>
  | nonza (name : String)   -- any other decodable non-stanza packet (features, SASL, enabled, resumed, failed, …)
  | serr                    -- <stream:error>
  | close                   -- </stream:stream>
  deriving DecidableEq, Repr

inductive In where
  | pkt (p : Pkt) (writeFails : Bool)   -- writeFails: the write of the <a/> answer this packet triggers fails
  | cut                                  -- NextPacket returned an error (connection lost / undecodable)
  deriving DecidableEq, Repr

def Pkt.isStanza : Pkt → Bool
  | .msg _ | .pres _ | .iq _ => true
  | _ => false

inductive Act where
  | route (p : Pkt)                       -- handed to Router.route (client: in its own goroutine)
  | answer (h : Nat)                      -- <a h='h'/> written
  | errh                                  -- ErrorHandler called
  | disconnected (smId : String) (inbound : Nat)   -- Disconnected event with the SM state
  | streamErrorEv                         -- StreamError event
  | disconnect                            -- transport.Close()
  | streamClose                           -- transport.ReceivedStreamClose()
  | quitClosed                            -- close(keepaliveQuit)
  deriving DecidableEq, Repr

structure St where
  smId    : String
  inbound : Nat
  deriving DecidableEq, Repr

/-- one iteration of `Client.recv`: new state, actions in order, and whether the loop continues. A pass that ends the
loop first tells the keepalive of the session to stop (`quitClosed`) and only then reports the loss: the handler of the
Disconnected event reconnects at once under a StreamManager, and the keepalive of the lost session must not be around
then (F-18b). -/
def clientStep (s : St) : In → St × List Act × Bool
  | .cut => (s, [.quitClosed, .errh, .disconnected s.smId s.inbound], false)
  | .pkt .serr _ => (s, [.route .serr, .streamErrorEv, .errh, .disconnect, .route .serr], true)
  | .pkt .r fails =>
    if fails then (s, [.quitClosed, .errh, .disconnected s.smId s.inbound], false)
    else (s, [.answer s.inbound, .route .r], true)
  | .pkt .close _ => (s, [.quitClosed, .streamClose, .disconnected s.smId s.inbound], false)
  | .pkt p _ =>
    let s' := if p.isStanza then { s with inbound := s.inbound + 1 } else s
    (s', [.route p], true)

/-- `Client.recv`: iterate until a step stops; the input ends like a cut (EOF). (The close of the quit channel is also
deferred, under a `sync.Once`: a panic in the loop would still stop the keepalive.) -/
def clientRecv (s : St) : List In → St × List Act
  | [] => (s, (clientStep s .cut).2.1)
  | i :: rest =>
    let (s', acts, cont) := clientStep s i
    if cont then
      let (s'', more) := clientRecv s' rest
      (s'', acts ++ more)
    else (s', acts)

/-- `Component.recv` (no stream management, synchronous routing, state change before the error callback). -/
def componentStep : In → List Act × Bool
  | .cut => ([.disconnected "" 0, .errh], false)
  | .pkt .serr _ => ([.route .serr, .streamErrorEv, .errh, .disconnect, .route .serr], true)
  | .pkt .close _ => ([.streamClose], false)
  | .pkt p _ => ([.route p], true)

def componentRecv : List In → List Act
  | [] => (componentStep .cut).1
  | i :: rest =>
    let (acts, cont) := componentStep i
    if cont then acts ++ componentRecv rest else acts

end XmppVerif.Model.Recv
