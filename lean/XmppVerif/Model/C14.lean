/-
Model of SASL authentication in auth.go: `authSASL` (mechanism choice), `authPlain` (payload, the element
written, interpretation of the server's reply) and of `encoding/base64`'s StdEncoding (written from RFC 4648 in
Nat div/mod over 3-byte groups; tied to the standard library by a correspondence op of its own).
User name and secret are BYTE strings (`List UInt8`): a Go string may hold any bytes.
-/
namespace XmppVerif.Model.C14

-- ---------------------------------------------------------------------------------------------
-- base64 (RFC 4648 section 4, with padding)

def alphabet : List Char :=
  "ABCDEFGHIJKLMNOPQRSTUVWXYZabcdefghijklmnopqrstuvwxyz0123456789+/".toList

/-- the character of a sextet (only values < 64 occur) -/
def encChar (n : Nat) : Char := alphabet.getD n '/'

/-- the sextet of a character; `none` outside the alphabet (in particular for '='). Written as the inverse ranges
A-Z, a-z, 0-9, '+', '/' (that it inverts the table is proved over all 64 entries in Props/C14). -/
def decChar (c : Char) : Option Nat :=
  let n := c.toNat
  if 65 ≤ n ∧ n ≤ 90 then some (n - 65)
  else if 97 ≤ n ∧ n ≤ 122 then some (n - 71)
  else if 48 ≤ n ∧ n ≤ 57 then some (n + 4)
  else if n = 43 then some 62
  else if n = 47 then some 63
  else none

/-- three bytes -> four sextets -/
def enc3 (a b c : Nat) : Nat × Nat × Nat × Nat :=
  (a / 4, (a % 4) * 16 + b / 16, (b % 16) * 4 + c / 64, c % 64)

def b64enc : List UInt8 → List Char
  | [] => []
  | [a] =>
    let s := enc3 a.toNat 0 0
    [encChar s.1, encChar s.2.1, '=', '=']
  | [a, b] =>
    let s := enc3 a.toNat b.toNat 0
    [encChar s.1, encChar s.2.1, encChar s.2.2.1, '=']
  | a :: b :: c :: rest =>
    let s := enc3 a.toNat b.toNat c.toNat
    encChar s.1 :: encChar s.2.1 :: encChar s.2.2.1 :: encChar s.2.2.2 :: b64enc rest

/-- sextets -> bytes -/
def dec2 (w x : Nat) : Nat := w * 4 + x / 16
def dec3 (x y : Nat) : Nat := (x % 16) * 16 + y / 4
def dec4 (y z : Nat) : Nat := (y % 4) * 64 + z

/-- Reference decoder: groups of four; '=' only in the last group. -/
def b64dec : List Char → Option (List UInt8)
  | [] => some []
  | w :: x :: y :: z :: rest =>
    if z = '=' then
      if rest.isEmpty then
        if y = '=' then do
          let w ← decChar w; let x ← decChar x
          pure [UInt8.ofNat (dec2 w x)]
        else do
          let w ← decChar w; let x ← decChar x; let y ← decChar y
          pure [UInt8.ofNat (dec2 w x), UInt8.ofNat (dec3 x y)]
      else none
    else do
      let w ← decChar w; let x ← decChar x; let y ← decChar y; let z ← decChar z
      let r ← b64dec rest
      pure (UInt8.ofNat (dec2 w x) :: UInt8.ofNat (dec3 x y) :: UInt8.ofNat (dec4 y z) :: r)
  | _ => none

-- ---------------------------------------------------------------------------------------------
-- authSASL / authPlain

/-- `raw := "\x00" + user + "\x00" + secret` -/
def rawPlain (user secret : List UInt8) : List UInt8 := 0 :: user ++ 0 :: secret

/-- the text of the `<auth/>` element -/
def plainPayload (user secret : List UInt8) : List Char := b64enc (rawPlain user secret)

inductive Kind where
  | password | token
  deriving DecidableEq, Repr

/-- `Password(...)` / `OAuthToken(...)`: the mechanism list stored in the credential -/
def Kind.mechs : Kind → List String
  | .password => ["PLAIN"]
  | .token => ["X-OAUTH2"]

/-- the loop of `authSASL`: the first mechanism of the credential that the server offers -/
def selectMech (credMechs offered : List String) : Option String :=
  credMechs.find? fun m => offered.contains m

/-- the arms `case "PLAIN", "X-OAUTH2"` of the switch in `authSASL` -/
def implemented (m : String) : Bool := m == "PLAIN" || m == "X-OAUTH2"

/-- What `stanza.NextPacket` returns after the `<auth/>` was written. -/
inductive Reply where
  | success                 -- stanza.SASLSuccess
  | failure                 -- stanza.SASLFailure (any condition)
  | other                   -- any other packet (stream features, stream error, stanza, SM nonza, ...)
  | decodeError             -- NextPacket failed: EOF, malformed XML, unknown namespace or element
  deriving DecidableEq, Repr

/-- result of `socket.Write` -/
inductive WriteMode where
  | ok | fail | zero        -- zero: (0, nil)
  deriving DecidableEq, Repr

inductive Outcome where
  | ok                      -- nil: authenticated
  | err (permanent : Bool)  -- an error; `permanent` = it is a ConnError with Permanent = true
  deriving DecidableEq, Repr

/-- the type switch at the end of `authPlain` -/
def authOutcome : Reply → Outcome
  | .success => .ok
  | .failure => .err true
  | .other => .err false
  | .decodeError => .err false

structure Obs where
  /-- what reached the socket: mechanism attribute and element text -/
  sent : Option (String × List Char)
  outcome : Outcome
  deriving DecidableEq, Repr

def authPlain (mech : String) (user secret : List UInt8) (w : WriteMode) (r : Reply) : Obs :=
  match w with
  | .ok => ⟨some (mech, plainPayload user secret), authOutcome r⟩
  | .fail => ⟨none, .err false⟩
  | .zero => ⟨none, .err false⟩

/-- `authSASL(socket, decoder, features, user, credential)` for a credential with mechanism list `credMechs`. -/
def authSASL (credMechs : List String) (user secret : List UInt8) (offered : List String)
    (w : WriteMode) (r : Reply) : Obs :=
  match selectMech credMechs offered with
  | some m => if implemented m then authPlain m user secret w r else ⟨none, .err true⟩
  | none => ⟨none, .err true⟩

/-- the bytes `xml.Marshal(stanza.SASLAuth{Mechanism, Value})` produces for a mechanism name without XML
metacharacters (attribute verbatim) and the `,innerxml` value (verbatim) -/
def authElement (mech : String) (payload : List Char) : List Char :=
  "<auth xmlns=\"urn:ietf:params:xml:ns:xmpp-sasl\" mechanism=\"".toList ++ mech.toList ++ "\">".toList
    ++ payload ++ "</auth>".toList

end XmppVerif.Model.C14
