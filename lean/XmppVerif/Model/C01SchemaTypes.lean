import XmppVerif.Model.C01Schema
/-
C01: the schemas the generic codec of Model/C01Schema.lean is instantiated with - one `Ty` per struct type of stanza/
reachable from a TypeRegistry entry, TRANSCRIBED from the struct tags (and the embedded structs, XMLName fields, Go
field types) of stanza/*.go. Tie/C01Schema.lean proves that what go/extract regenerates from the current source on
every run (Gen/C01Schema.lean) equals these terms, and that the modelled ones satisfy `Schema.wf`.
A type with a hand-written MarshalXML / UnmarshalXML is `.unsupported` here (the reflection rules do not describe it).
-/
namespace XmppVerif.Model.C01S

/-- stanza.Command as encoding/xml's getTypeInfo sees it -/
def tyCommand : Ty := (.unsupported "custom codec Command: UnmarshalXML")

/-- stanza.Delegated as encoding/xml's getTypeInfo sees it -/
def tyDelegated : Ty := (.struct ("Delegated").toList (.tag ⟨[], ("delegated").toList⟩)
    [⟨.attr, ⟨[], ("namespace").toList⟩, true⟩]
    [(.prim .str)])

/-- stanza.First as encoding/xml's getTypeInfo sees it -/
def tyFirst : Ty := (.struct ("First").toList (.tag ⟨[], ("first").toList⟩)
    [⟨.elem, ⟨[], ("Content").toList⟩, false⟩, ⟨.attr, ⟨[], ("index").toList⟩, true⟩]
    [(.prim .str), (.ptr (.prim (.int 64)))])

/-- stanza.ResultSet as encoding/xml's getTypeInfo sees it -/
def tyResultSet : Ty := (.struct ("ResultSet").toList (.tag ⟨("http://jabber.org/protocol/rsm").toList, ("set").toList⟩)
    [⟨.elem, ⟨[], ("after").toList⟩, true⟩, ⟨.elem, ⟨[], ("before").toList⟩, true⟩, ⟨.elem, ⟨[], ("count").toList⟩, true⟩, ⟨.elem, ⟨[], ("first").toList⟩, true⟩, ⟨.elem, ⟨[], ("index").toList⟩, true⟩, ⟨.elem, ⟨[], ("last").toList⟩, true⟩, ⟨.elem, ⟨[], ("max").toList⟩, true⟩]
    [(.ptr (.prim .str)), (.ptr (.prim .str)), (.ptr (.prim (.int 64))), (.ptr tyFirst), (.ptr (.prim (.int 64))), (.ptr (.prim .str)), (.ptr (.prim (.int 64)))])

/-- stanza.Delegation as encoding/xml's getTypeInfo sees it -/
def tyDelegation : Ty := (.struct ("Delegation").toList (.tag ⟨("urn:xmpp:delegation:1").toList, ("delegation").toList⟩)
    [⟨.elem, ⟨[], ("MsgExtension").toList⟩, false⟩, ⟨.elem, ⟨("urn:xmpp:forward:0").toList, ("forwarded").toList⟩, false⟩, ⟨.elem, ⟨[], ("delegated").toList⟩, false⟩, ⟨.elem, ⟨[], ("set").toList⟩, true⟩]
    [.iface, (.ptr (.unsupported "custom codec Forwarded: UnmarshalXML")), (.ptr tyDelegated), (.ptr tyResultSet)])

/-- stanza.ControlField as encoding/xml's getTypeInfo sees it -/
def tyControlField : Ty := (.struct ("ControlField").toList .dyn
    [⟨.attr, ⟨[], ("name").toList⟩, true⟩, ⟨.attr, ⟨[], ("value").toList⟩, true⟩]
    [(.prim .str), (.prim .str)])

/-- stanza.ControlSet as encoding/xml's getTypeInfo sees it -/
def tyControlSet : Ty := (.struct ("ControlSet").toList (.tag ⟨("urn:xmpp:iot:control").toList, ("set").toList⟩)
    [⟨.any, ⟨[], ("Fields").toList⟩, false⟩, ⟨.elem, ⟨[], ("set").toList⟩, true⟩]
    [(.slice tyControlField), (.ptr tyResultSet)])

/-- stanza.Identity as encoding/xml's getTypeInfo sees it -/
def tyIdentity : Ty := (.struct ("Identity").toList (.tag ⟨[], ("identity").toList⟩)
    [⟨.attr, ⟨[], ("name").toList⟩, true⟩, ⟨.attr, ⟨[], ("category").toList⟩, true⟩, ⟨.attr, ⟨[], ("type").toList⟩, true⟩]
    [(.prim .str), (.prim .str), (.prim .str)])

/-- stanza.Feature as encoding/xml's getTypeInfo sees it -/
def tyFeature : Ty := (.struct ("Feature").toList (.tag ⟨[], ("feature").toList⟩)
    [⟨.attr, ⟨[], ("var").toList⟩, false⟩]
    [(.prim .str)])

/-- stanza.DiscoInfo as encoding/xml's getTypeInfo sees it -/
def tyDiscoInfo : Ty := (.struct ("DiscoInfo").toList (.tag ⟨("http://jabber.org/protocol/disco#info").toList, ("query").toList⟩)
    [⟨.attr, ⟨[], ("node").toList⟩, true⟩, ⟨.elem, ⟨[], ("identity").toList⟩, false⟩, ⟨.elem, ⟨[], ("feature").toList⟩, false⟩, ⟨.elem, ⟨[], ("set").toList⟩, true⟩]
    [(.prim .str), (.slice tyIdentity), (.slice tyFeature), (.ptr tyResultSet)])

/-- stanza.DiscoItem as encoding/xml's getTypeInfo sees it -/
def tyDiscoItem : Ty := (.struct ("DiscoItem").toList (.tag ⟨[], ("item").toList⟩)
    [⟨.attr, ⟨[], ("jid").toList⟩, true⟩, ⟨.attr, ⟨[], ("node").toList⟩, true⟩, ⟨.attr, ⟨[], ("name").toList⟩, true⟩]
    [(.prim .str), (.prim .str), (.prim .str)])

/-- stanza.DiscoItems as encoding/xml's getTypeInfo sees it -/
def tyDiscoItems : Ty := (.struct ("DiscoItems").toList (.tag ⟨("http://jabber.org/protocol/disco#items").toList, ("query").toList⟩)
    [⟨.attr, ⟨[], ("node").toList⟩, true⟩, ⟨.elem, ⟨[], ("item").toList⟩, false⟩, ⟨.elem, ⟨[], ("set").toList⟩, true⟩]
    [(.prim .str), (.slice tyDiscoItem), (.ptr tyResultSet)])

/-- stanza.Roster as encoding/xml's getTypeInfo sees it -/
def tyRoster : Ty := (.struct ("Roster").toList (.tag ⟨("jabber:iq:roster").toList, ("query").toList⟩)
    [⟨.elem, ⟨[], ("set").toList⟩, true⟩]
    [(.ptr tyResultSet)])

/-- stanza.RosterItem as encoding/xml's getTypeInfo sees it -/
def tyRosterItem : Ty := (.struct ("RosterItem").toList (.tag ⟨("jabber:iq:roster").toList, ("item").toList⟩)
    [⟨.attr, ⟨[], ("jid").toList⟩, false⟩, ⟨.attr, ⟨[], ("ask").toList⟩, true⟩, ⟨.attr, ⟨[], ("name").toList⟩, true⟩, ⟨.attr, ⟨[], ("subscription").toList⟩, true⟩, ⟨.elem, ⟨[], ("group").toList⟩, false⟩]
    [(.prim .str), (.prim .str), (.prim .str), (.prim .str), (.slice (.prim .str))])

/-- stanza.RosterItems as encoding/xml's getTypeInfo sees it -/
def tyRosterItems : Ty := (.struct ("RosterItems").toList (.tag ⟨("jabber:iq:roster").toList, ("query").toList⟩)
    [⟨.elem, ⟨[], ("item").toList⟩, false⟩, ⟨.elem, ⟨[], ("set").toList⟩, true⟩]
    [(.slice tyRosterItem), (.ptr tyResultSet)])

/-- stanza.Version as encoding/xml's getTypeInfo sees it -/
def tyVersion : Ty := (.struct ("Version").toList (.tag ⟨("jabber:iq:version").toList, ("query").toList⟩)
    [⟨.elem, ⟨[], ("name").toList⟩, true⟩, ⟨.elem, ⟨[], ("version").toList⟩, true⟩, ⟨.elem, ⟨[], ("os").toList⟩, true⟩, ⟨.elem, ⟨[], ("set").toList⟩, true⟩]
    [(.prim .str), (.prim .str), (.prim .str), (.ptr tyResultSet)])

/-- stanza.Markable as encoding/xml's getTypeInfo sees it -/
def tyMarkable : Ty := (.struct ("Markable").toList (.tag ⟨("urn:xmpp:chat-markers:0").toList, ("markable").toList⟩)
    [⟨.elem, ⟨[], ("MsgExtension").toList⟩, false⟩]
    [.iface])

/-- stanza.MarkReceived as encoding/xml's getTypeInfo sees it -/
def tyMarkReceived : Ty := (.struct ("MarkReceived").toList (.tag ⟨("urn:xmpp:chat-markers:0").toList, ("received").toList⟩)
    [⟨.elem, ⟨[], ("MsgExtension").toList⟩, false⟩, ⟨.attr, ⟨[], ("id").toList⟩, false⟩]
    [.iface, (.prim .str)])

/-- stanza.MarkDisplayed as encoding/xml's getTypeInfo sees it -/
def tyMarkDisplayed : Ty := (.struct ("MarkDisplayed").toList (.tag ⟨("urn:xmpp:chat-markers:0").toList, ("displayed").toList⟩)
    [⟨.elem, ⟨[], ("MsgExtension").toList⟩, false⟩, ⟨.attr, ⟨[], ("id").toList⟩, false⟩]
    [.iface, (.prim .str)])

/-- stanza.MarkAcknowledged as encoding/xml's getTypeInfo sees it -/
def tyMarkAcknowledged : Ty := (.struct ("MarkAcknowledged").toList (.tag ⟨("urn:xmpp:chat-markers:0").toList, ("acknowledged").toList⟩)
    [⟨.elem, ⟨[], ("MsgExtension").toList⟩, false⟩, ⟨.attr, ⟨[], ("id").toList⟩, false⟩]
    [.iface, (.prim .str)])

/-- stanza.StateActive as encoding/xml's getTypeInfo sees it -/
def tyStateActive : Ty := (.struct ("StateActive").toList (.tag ⟨("http://jabber.org/protocol/chatstates").toList, ("active").toList⟩)
    [⟨.elem, ⟨[], ("MsgExtension").toList⟩, false⟩]
    [.iface])

/-- stanza.StateComposing as encoding/xml's getTypeInfo sees it -/
def tyStateComposing : Ty := (.struct ("StateComposing").toList (.tag ⟨("http://jabber.org/protocol/chatstates").toList, ("composing").toList⟩)
    [⟨.elem, ⟨[], ("MsgExtension").toList⟩, false⟩]
    [.iface])

/-- stanza.StateGone as encoding/xml's getTypeInfo sees it -/
def tyStateGone : Ty := (.struct ("StateGone").toList (.tag ⟨("http://jabber.org/protocol/chatstates").toList, ("gone").toList⟩)
    [⟨.elem, ⟨[], ("MsgExtension").toList⟩, false⟩]
    [.iface])

/-- stanza.StateInactive as encoding/xml's getTypeInfo sees it -/
def tyStateInactive : Ty := (.struct ("StateInactive").toList (.tag ⟨("http://jabber.org/protocol/chatstates").toList, ("inactive").toList⟩)
    [⟨.elem, ⟨[], ("MsgExtension").toList⟩, false⟩]
    [.iface])

/-- stanza.StatePaused as encoding/xml's getTypeInfo sees it -/
def tyStatePaused : Ty := (.struct ("StatePaused").toList (.tag ⟨("http://jabber.org/protocol/chatstates").toList, ("paused").toList⟩)
    [⟨.elem, ⟨[], ("MsgExtension").toList⟩, false⟩]
    [.iface])

/-- stanza.HintNoPermanentStore as encoding/xml's getTypeInfo sees it -/
def tyHintNoPermanentStore : Ty := (.struct ("HintNoPermanentStore").toList (.tag ⟨("urn:xmpp:hints").toList, ("no-permanent-store").toList⟩)
    [⟨.elem, ⟨[], ("MsgExtension").toList⟩, false⟩]
    [.iface])

/-- stanza.HintNoStore as encoding/xml's getTypeInfo sees it -/
def tyHintNoStore : Ty := (.struct ("HintNoStore").toList (.tag ⟨("urn:xmpp:hints").toList, ("no-store").toList⟩)
    [⟨.elem, ⟨[], ("MsgExtension").toList⟩, false⟩]
    [.iface])

/-- stanza.HintNoCopy as encoding/xml's getTypeInfo sees it -/
def tyHintNoCopy : Ty := (.struct ("HintNoCopy").toList (.tag ⟨("urn:xmpp:hints").toList, ("no-copy").toList⟩)
    [⟨.elem, ⟨[], ("MsgExtension").toList⟩, false⟩]
    [.iface])

/-- stanza.HintStore as encoding/xml's getTypeInfo sees it -/
def tyHintStore : Ty := (.struct ("HintStore").toList (.tag ⟨("urn:xmpp:hints").toList, ("store").toList⟩)
    [⟨.elem, ⟨[], ("MsgExtension").toList⟩, false⟩]
    [.iface])

/-- stanza.HTMLBody as encoding/xml's getTypeInfo sees it -/
def tyHTMLBody : Ty := (.struct ("HTMLBody").toList (.tag ⟨("http://www.w3.org/1999/xhtml").toList, ("body").toList⟩)
    [⟨.innerxml, ⟨[], ("InnerXML").toList⟩, false⟩]
    [(.prim .str)])

/-- stanza.HTML as encoding/xml's getTypeInfo sees it -/
def tyHTML : Ty := (.struct ("HTML").toList (.tag ⟨("http://jabber.org/protocol/xhtml-im").toList, ("html").toList⟩)
    [⟨.elem, ⟨[], ("MsgExtension").toList⟩, false⟩, ⟨.elem, ⟨("http://www.w3.org/1999/xhtml").toList, ("body").toList⟩, false⟩, ⟨.attr, ⟨("http://www.w3.org/XML/1998/namespace").toList, ("lang").toList⟩, true⟩]
    [.iface, tyHTMLBody, (.prim .str)])

/-- stanza.OOB as encoding/xml's getTypeInfo sees it -/
def tyOOB : Ty := (.struct ("OOB").toList (.tag ⟨("jabber:x:oob").toList, ("x").toList⟩)
    [⟨.elem, ⟨[], ("MsgExtension").toList⟩, false⟩, ⟨.elem, ⟨[], ("url").toList⟩, false⟩, ⟨.elem, ⟨[], ("desc").toList⟩, true⟩]
    [.iface, (.prim .str), (.prim .str)])

/-- stanza.PubSubEvent as encoding/xml's getTypeInfo sees it -/
def tyPubSubEvent : Ty := (.unsupported "custom codec PubSubEvent: UnmarshalXML")

/-- stanza.ReceiptRequest as encoding/xml's getTypeInfo sees it -/
def tyReceiptRequest : Ty := (.struct ("ReceiptRequest").toList (.tag ⟨("urn:xmpp:receipts").toList, ("request").toList⟩)
    [⟨.elem, ⟨[], ("MsgExtension").toList⟩, false⟩]
    [.iface])

/-- stanza.ReceiptReceived as encoding/xml's getTypeInfo sees it -/
def tyReceiptReceived : Ty := (.struct ("ReceiptReceived").toList (.tag ⟨("urn:xmpp:receipts").toList, ("received").toList⟩)
    [⟨.elem, ⟨[], ("MsgExtension").toList⟩, false⟩, ⟨.attr, ⟨[], ("id").toList⟩, false⟩]
    [.iface, (.prim .str)])

/-- stanza.MucPresence as encoding/xml's getTypeInfo sees it -/
def tyMucPresence : Ty := (.struct ("MucPresence").toList (.tag ⟨("http://jabber.org/protocol/muc").toList, ("x").toList⟩)
    [⟨.elem, ⟨[], ("PresExtension").toList⟩, false⟩, ⟨.elem, ⟨[], ("password").toList⟩, true⟩, ⟨.elem, ⟨[], ("history").toList⟩, true⟩]
    [.iface, (.prim .str), .history])

/-- stanza.Create as encoding/xml's getTypeInfo sees it -/
def tyCreate : Ty := (.struct ("Create").toList .absent
    [⟨.attr, ⟨[], ("node").toList⟩, true⟩]
    [(.prim .str)])

/-- stanza.Option as encoding/xml's getTypeInfo sees it -/
def tyOption : Ty := (.struct ("Option").toList (.tag ⟨[], ("option").toList⟩)
    [⟨.attr, ⟨[], ("label").toList⟩, true⟩, ⟨.elem, ⟨[], ("value").toList⟩, false⟩]
    [(.prim .str), (.slice (.prim .str))])

/-- stanza.Field as encoding/xml's getTypeInfo sees it -/
def tyField : Ty := (.struct ("Field").toList (.tag ⟨[], ("field").toList⟩)
    [⟨.elem, ⟨[], ("desc").toList⟩, true⟩, ⟨.elem, ⟨[], ("required").toList⟩, false⟩, ⟨.elem, ⟨[], ("value").toList⟩, false⟩, ⟨.elem, ⟨[], ("option").toList⟩, true⟩, ⟨.attr, ⟨[], ("var").toList⟩, true⟩, ⟨.attr, ⟨[], ("type").toList⟩, true⟩, ⟨.attr, ⟨[], ("label").toList⟩, true⟩]
    [(.prim .str), (.ptr (.prim .str)), (.slice (.prim .str)), (.slice tyOption), (.prim .str), (.prim .str), (.prim .str)])

/-- stanza.FormItem as encoding/xml's getTypeInfo sees it -/
def tyFormItem : Ty := (.struct ("FormItem").toList .dyn
    [⟨.elem, ⟨[], ("field").toList⟩, true⟩]
    [(.slice tyField)])

/-- stanza.Form as encoding/xml's getTypeInfo sees it -/
def tyForm : Ty := (.struct ("Form").toList (.tag ⟨("jabber:x:data").toList, ("x").toList⟩)
    [⟨.elem, ⟨[], ("instructions").toList⟩, false⟩, ⟨.elem, ⟨[], ("title").toList⟩, true⟩, ⟨.elem, ⟨[], ("field").toList⟩, true⟩, ⟨.elem, ⟨[], ("reported").toList⟩, false⟩, ⟨.elem, ⟨[], ("item").toList⟩, true⟩, ⟨.attr, ⟨[], ("type").toList⟩, false⟩]
    [(.slice (.prim .str)), (.prim .str), (.slice (.ptr tyField)), (.ptr tyFormItem), (.slice tyFormItem), (.prim .str)])

/-- stanza.Configure as encoding/xml's getTypeInfo sees it -/
def tyConfigure : Ty := (.struct ("Configure").toList .absent
    [⟨.elem, ⟨[], ("x").toList⟩, false⟩]
    [(.ptr tyForm)])

/-- stanza.SubInfo as encoding/xml's getTypeInfo sees it -/
def tySubInfo : Ty := (.struct ("SubInfo").toList .absent
    [⟨.attr, ⟨[], ("node").toList⟩, true⟩, ⟨.attr, ⟨[], ("jid").toList⟩, true⟩, ⟨.attr, ⟨[], ("subid").toList⟩, true⟩]
    [(.prim .str), (.prim .str), (.ptr (.prim .str))])

/-- stanza.SubOptions as encoding/xml's getTypeInfo sees it -/
def tySubOptions : Ty := (.struct ("SubOptions").toList .absent
    [⟨.attr, ⟨[], ("node").toList⟩, true⟩, ⟨.attr, ⟨[], ("jid").toList⟩, true⟩, ⟨.attr, ⟨[], ("subid").toList⟩, true⟩, ⟨.elem, ⟨[], ("x").toList⟩, false⟩]
    [(.prim .str), (.prim .str), (.ptr (.prim .str)), (.ptr tyForm)])

/-- stanza.Item as encoding/xml's getTypeInfo sees it -/
def tyItem : Ty := (.struct ("Item").toList (.tag ⟨[], ("item").toList⟩)
    [⟨.attr, ⟨[], ("id").toList⟩, true⟩, ⟨.attr, ⟨[], ("publisher").toList⟩, true⟩, ⟨.any, ⟨[], ("Any").toList⟩, false⟩]
    [(.prim .str), (.prim .str), (.ptr .node)])

/-- stanza.Publish as encoding/xml's getTypeInfo sees it -/
def tyPublish : Ty := (.struct ("Publish").toList (.tag ⟨[], ("publish").toList⟩)
    [⟨.attr, ⟨[], ("node").toList⟩, false⟩, ⟨.elem, ⟨[], ("item").toList⟩, true⟩]
    [(.prim .str), (.slice tyItem)])

/-- stanza.PublishOptions as encoding/xml's getTypeInfo sees it -/
def tyPublishOptions : Ty := (.struct ("PublishOptions").toList (.tag ⟨[], ("publish-options").toList⟩)
    [⟨.elem, ⟨("jabber:x:data").toList, ("x").toList⟩, false⟩]
    [(.ptr tyForm)])

/-- stanza.Affiliation as encoding/xml's getTypeInfo sees it -/
def tyAffiliation : Ty := (.struct ("Affiliation").toList .absent
    [⟨.elem, ⟨[], ("affiliation").toList⟩, false⟩, ⟨.attr, ⟨[], ("node").toList⟩, false⟩]
    [(.prim .str), (.prim .str)])

/-- stanza.Affiliations as encoding/xml's getTypeInfo sees it -/
def tyAffiliations : Ty := (.struct ("Affiliations").toList .absent
    [⟨.elem, ⟨[], ("affiliation").toList⟩, false⟩, ⟨.attr, ⟨[], ("node").toList⟩, true⟩]
    [(.slice tyAffiliation), (.prim .str)])

/-- stanza.Default as encoding/xml's getTypeInfo sees it -/
def tyDefault : Ty := (.struct ("Default").toList .absent
    [⟨.attr, ⟨[], ("node").toList⟩, true⟩, ⟨.attr, ⟨[], ("type").toList⟩, true⟩, ⟨.elem, ⟨[], ("x").toList⟩, false⟩]
    [(.prim .str), (.prim .str), (.ptr tyForm)])

/-- stanza.Items as encoding/xml's getTypeInfo sees it -/
def tyItems : Ty := (.struct ("Items").toList .absent
    [⟨.elem, ⟨[], ("item").toList⟩, true⟩, ⟨.attr, ⟨[], ("max_items").toList⟩, true⟩, ⟨.attr, ⟨[], ("node").toList⟩, false⟩, ⟨.attr, ⟨[], ("subid").toList⟩, true⟩]
    [(.slice tyItem), (.prim (.int 64)), (.prim .str), (.prim .str)])

/-- stanza.Retract as encoding/xml's getTypeInfo sees it -/
def tyRetract : Ty := (.struct ("Retract").toList (.tag ⟨[], ("retract").toList⟩)
    [⟨.attr, ⟨[], ("node").toList⟩, false⟩, ⟨.attr, ⟨[], ("notify").toList⟩, true⟩, ⟨.elem, ⟨[], ("item").toList⟩, false⟩]
    [(.prim .str), (.ptr (.prim .bool)), (.slice tyItem)])

/-- stanza.Subscription as encoding/xml's getTypeInfo sees it -/
def tySubscription : Ty := (.struct ("Subscription").toList .absent
    [⟨.attr, ⟨[], ("subscription").toList⟩, true⟩, ⟨.attr, ⟨[], ("node").toList⟩, true⟩, ⟨.attr, ⟨[], ("jid").toList⟩, true⟩, ⟨.attr, ⟨[], ("subid").toList⟩, true⟩, ⟨.elem, ⟨[], ("Required").toList⟩, false⟩]
    [(.prim .str), (.prim .str), (.prim .str), (.ptr (.prim .str)), (.ptr (.struct [] .absent
    []
    []))])

/-- stanza.Subscriptions as encoding/xml's getTypeInfo sees it -/
def tySubscriptions : Ty := (.struct ("Subscriptions").toList (.tag ⟨[], ("subscriptions").toList⟩)
    [⟨.elem, ⟨[], ("subscription").toList⟩, true⟩]
    [(.slice tySubscription)])

/-- stanza.PubSubGeneric as encoding/xml's getTypeInfo sees it -/
def tyPubSubGeneric : Ty := (.struct ("PubSubGeneric").toList (.tag ⟨("http://jabber.org/protocol/pubsub").toList, ("pubsub").toList⟩)
    [⟨.elem, ⟨[], ("create").toList⟩, true⟩, ⟨.elem, ⟨[], ("configure").toList⟩, true⟩, ⟨.elem, ⟨[], ("subscribe").toList⟩, true⟩, ⟨.elem, ⟨[], ("options").toList⟩, true⟩, ⟨.elem, ⟨[], ("publish").toList⟩, true⟩, ⟨.elem, ⟨[], ("publish-options").toList⟩, false⟩, ⟨.elem, ⟨[], ("affiliations").toList⟩, true⟩, ⟨.elem, ⟨[], ("default").toList⟩, true⟩, ⟨.elem, ⟨[], ("items").toList⟩, true⟩, ⟨.elem, ⟨[], ("retract").toList⟩, true⟩, ⟨.elem, ⟨[], ("subscription").toList⟩, true⟩, ⟨.elem, ⟨[], ("subscriptions").toList⟩, true⟩, ⟨.elem, ⟨[], ("unsubscribe").toList⟩, true⟩, ⟨.elem, ⟨[], ("set").toList⟩, true⟩]
    [(.ptr tyCreate), (.ptr tyConfigure), (.ptr tySubInfo), (.ptr tySubOptions), (.ptr tyPublish), (.ptr tyPublishOptions), (.ptr tyAffiliations), (.ptr tyDefault), (.ptr tyItems), (.ptr tyRetract), (.ptr tySubscription), (.ptr tySubscriptions), (.ptr tySubInfo), (.ptr tyResultSet)])

/-- stanza.PubSubOwner as encoding/xml's getTypeInfo sees it -/
def tyPubSubOwner : Ty := (.unsupported "custom codec PubSubOwner: UnmarshalXML")

/-- stanza.Bind as encoding/xml's getTypeInfo sees it -/
def tyBind : Ty := (.struct ("Bind").toList (.tag ⟨("urn:ietf:params:xml:ns:xmpp-bind").toList, ("bind").toList⟩)
    [⟨.elem, ⟨[], ("resource").toList⟩, true⟩, ⟨.elem, ⟨[], ("jid").toList⟩, true⟩, ⟨.elem, ⟨[], ("set").toList⟩, true⟩]
    [(.prim .str), (.prim .str), (.ptr tyResultSet)])

/-- stanza.StreamSession as encoding/xml's getTypeInfo sees it -/
def tyStreamSession : Ty := (.struct ("StreamSession").toList (.tag ⟨("urn:ietf:params:xml:ns:xmpp-session").toList, ("session").toList⟩)
    [⟨.elem, ⟨[], ("optional").toList⟩, false⟩, ⟨.elem, ⟨[], ("set").toList⟩, true⟩]
    [(.ptr (.struct [] .absent
    []
    [])), (.ptr tyResultSet)])

/-- stanza.AffiliationOwner as encoding/xml's getTypeInfo sees it -/
def tyAffiliationOwner : Ty := (.struct ("AffiliationOwner").toList (.tag ⟨[], ("affiliation").toList⟩)
    [⟨.attr, ⟨[], ("affiliation").toList⟩, false⟩, ⟨.attr, ⟨[], ("jid").toList⟩, false⟩]
    [(.prim .str), (.prim .str)])

/-- stanza.AffiliationsOwner as encoding/xml's getTypeInfo sees it -/
def tyAffiliationsOwner : Ty := (.struct ("AffiliationsOwner").toList (.tag ⟨[], ("affiliations").toList⟩)
    [⟨.elem, ⟨[], ("affiliation").toList⟩, true⟩, ⟨.attr, ⟨[], ("node").toList⟩, false⟩]
    [(.slice tyAffiliationOwner), (.prim .str)])

/-- stanza.ConfigureOwner as encoding/xml's getTypeInfo sees it -/
def tyConfigureOwner : Ty := (.struct ("ConfigureOwner").toList (.tag ⟨[], ("configure").toList⟩)
    [⟨.attr, ⟨[], ("node").toList⟩, true⟩, ⟨.elem, ⟨[], ("x").toList⟩, true⟩]
    [(.prim .str), (.ptr tyForm)])

/-- stanza.DefaultOwner as encoding/xml's getTypeInfo sees it -/
def tyDefaultOwner : Ty := (.struct ("DefaultOwner").toList (.tag ⟨[], ("default").toList⟩)
    [⟨.elem, ⟨[], ("x").toList⟩, true⟩]
    [(.ptr tyForm)])

/-- stanza.RedirectOwner as encoding/xml's getTypeInfo sees it -/
def tyRedirectOwner : Ty := (.struct ("RedirectOwner").toList (.tag ⟨[], ("redirect").toList⟩)
    [⟨.attr, ⟨[], ("uri").toList⟩, false⟩]
    [(.prim .str)])

/-- stanza.DeleteOwner as encoding/xml's getTypeInfo sees it -/
def tyDeleteOwner : Ty := (.struct ("DeleteOwner").toList (.tag ⟨[], ("delete").toList⟩)
    [⟨.elem, ⟨[], ("redirect").toList⟩, true⟩, ⟨.attr, ⟨[], ("node").toList⟩, true⟩]
    [(.ptr tyRedirectOwner), (.prim .str)])

/-- stanza.PurgeOwner as encoding/xml's getTypeInfo sees it -/
def tyPurgeOwner : Ty := (.struct ("PurgeOwner").toList (.tag ⟨[], ("purge").toList⟩)
    [⟨.attr, ⟨[], ("node").toList⟩, false⟩]
    [(.prim .str)])

/-- stanza.SubscriptionOwner as encoding/xml's getTypeInfo sees it -/
def tySubscriptionOwner : Ty := (.struct ("SubscriptionOwner").toList .absent
    [⟨.elem, ⟨[], ("subscription").toList⟩, false⟩, ⟨.attr, ⟨[], ("jid").toList⟩, false⟩]
    [(.prim .str), (.prim .str)])

/-- stanza.SubscriptionsOwner as encoding/xml's getTypeInfo sees it -/
def tySubscriptionsOwner : Ty := (.struct ("SubscriptionsOwner").toList (.tag ⟨[], ("subscriptions").toList⟩)
    [⟨.elem, ⟨[], ("subscription").toList⟩, false⟩, ⟨.attr, ⟨[], ("node").toList⟩, false⟩]
    [(.slice tySubscriptionOwner), (.prim .str)])

/-- stanza.CollectionEvent as encoding/xml's getTypeInfo sees it -/
def tyCollectionEvent : Ty := (.struct ("CollectionEvent").toList .absent
    [⟨.elem, ⟨[], ("AssocDisassoc").toList⟩, false⟩, ⟨.attr, ⟨[], ("node").toList⟩, true⟩]
    [.iface, (.prim .str)])

/-- stanza.ConfigurationEvent as encoding/xml's getTypeInfo sees it -/
def tyConfigurationEvent : Ty := (.struct ("ConfigurationEvent").toList .absent
    [⟨.attr, ⟨[], ("node").toList⟩, true⟩, ⟨.elem, ⟨("jabber:x:data").toList, ("x").toList⟩, false⟩]
    [(.prim .str), (.ptr tyForm)])

/-- stanza.RedirectEvent as encoding/xml's getTypeInfo sees it -/
def tyRedirectEvent : Ty := (.struct ("RedirectEvent").toList .absent
    [⟨.attr, ⟨[], ("uri").toList⟩, false⟩]
    [(.prim .str)])

/-- stanza.DeleteEvent as encoding/xml's getTypeInfo sees it -/
def tyDeleteEvent : Ty := (.struct ("DeleteEvent").toList .absent
    [⟨.attr, ⟨[], ("node").toList⟩, false⟩, ⟨.elem, ⟨[], ("redirect").toList⟩, false⟩]
    [(.prim .str), (.ptr tyRedirectEvent)])

/-- stanza.ItemEvent as encoding/xml's getTypeInfo sees it -/
def tyItemEvent : Ty := (.struct ("ItemEvent").toList (.tag ⟨[], ("item").toList⟩)
    [⟨.attr, ⟨[], ("id").toList⟩, true⟩, ⟨.attr, ⟨[], ("publisher").toList⟩, true⟩, ⟨.any, ⟨[], ("Any").toList⟩, false⟩]
    [(.prim .str), (.prim .str), (.ptr .node)])

/-- stanza.RetractEvent as encoding/xml's getTypeInfo sees it -/
def tyRetractEvent : Ty := (.struct ("RetractEvent").toList (.tag ⟨[], ("retract").toList⟩)
    [⟨.attr, ⟨[], ("node").toList⟩, false⟩]
    [(.prim .str)])

/-- stanza.ItemsEvent as encoding/xml's getTypeInfo sees it -/
def tyItemsEvent : Ty := (.struct ("ItemsEvent").toList (.tag ⟨[], ("items").toList⟩)
    [⟨.elem, ⟨[], ("item").toList⟩, true⟩, ⟨.attr, ⟨[], ("node").toList⟩, false⟩, ⟨.elem, ⟨[], ("retract").toList⟩, false⟩]
    [(.slice tyItemEvent), (.prim .str), (.ptr tyRetractEvent)])

/-- stanza.PurgeEvent as encoding/xml's getTypeInfo sees it -/
def tyPurgeEvent : Ty := (.struct ("PurgeEvent").toList (.tag ⟨[], ("purge").toList⟩)
    [⟨.attr, ⟨[], ("node").toList⟩, false⟩]
    [(.prim .str)])

/-- stanza.SubscriptionEvent as encoding/xml's getTypeInfo sees it -/
def tySubscriptionEvent : Ty := (.struct ("SubscriptionEvent").toList .absent
    [⟨.attr, ⟨[], ("subscription").toList⟩, true⟩, ⟨.attr, ⟨[], ("expiry").toList⟩, true⟩, ⟨.attr, ⟨[], ("node").toList⟩, true⟩, ⟨.attr, ⟨[], ("jid").toList⟩, true⟩, ⟨.attr, ⟨[], ("subid").toList⟩, true⟩]
    [(.prim .str), (.prim .str), (.prim .str), (.prim .str), (.ptr (.prim .str))])

/-- stanza.Actions as encoding/xml's getTypeInfo sees it -/
def tyActions : Ty := (.struct ("Actions").toList (.tag ⟨[], ("actions").toList⟩)
    [⟨.elem, ⟨[], ("prev").toList⟩, true⟩, ⟨.elem, ⟨[], ("next").toList⟩, true⟩, ⟨.elem, ⟨[], ("complete").toList⟩, true⟩, ⟨.attr, ⟨[], ("execute").toList⟩, true⟩]
    [(.ptr (.struct [] .absent
    []
    [])), (.ptr (.struct [] .absent
    []
    [])), (.ptr (.struct [] .absent
    []
    [])), (.prim .str)])

/-- stanza.Note as encoding/xml's getTypeInfo sees it -/
def tyNote : Ty := (.struct ("Note").toList (.tag ⟨[], ("note").toList⟩)
    [⟨.other, ⟨[], ("Text").toList⟩, false⟩, ⟨.attr, ⟨[], ("type").toList⟩, true⟩]
    [(.prim .str), (.prim .str)])

/-- hand-written UnmarshalXML that switches on the child's local name: (type, [(case label, Go type decoded in that arm)], the struct's fields as `name type tag`) -/
def dispatch : List (String × List (String × String) × List String) := [("PubSubOwner", [("affiliations", "AffiliationsOwner"), ("configure", "ConfigureOwner"), ("default", "DefaultOwner"), ("delete", "DeleteOwner"), ("purge", "PurgeOwner"), ("subscriptions", "SubscriptionsOwner")], ["XMLName xml.Name http://jabber.org/protocol/pubsub#owner pubsub", "OwnerUseCase OwnerUseCase ", "ResultSet *ResultSet set,omitempty"]),
  ("PubSubEvent", [("collection", "CollectionEvent"), ("configuration", "ConfigurationEvent"), ("delete", "DeleteEvent"), ("items", "ItemsEvent"), ("purge", "PurgeEvent"), ("subscription", "SubscriptionEvent")], ["XMLName xml.Name http://jabber.org/protocol/pubsub#event event", "MsgExtension MsgExtension ", "EventElement EventElement "]),
  ("Command", [("actions", "Actions"), ("note", "Note"), ("x", "Form")], ["XMLName xml.Name http://jabber.org/protocol/commands command", "CommandElements []CommandElement ", "BadAction *struct{} bad-action,omitempty", "BadLocale *struct{} bad-locale,omitempty", "BadPayload *struct{} bad-payload,omitempty", "BadSessionId *struct{} bad-sessionid,omitempty", "MalformedAction *struct{} malformed-action,omitempty", "SessionExpired *struct{} session-expired,omitempty", "Action string action,attr,omitempty", "Node string node,attr", "SessionId string sessionid,attr,omitempty", "Status string status,attr,omitempty", "Lang string lang,attr,omitempty", "ResultSet *ResultSet set,omitempty"])]

/-- the Go type registered by every TypeRegistry.MapExtension call (file order, no duplicates) -/
def registryTypes : List (String × Ty) := [("Command", tyCommand),
  ("Delegation", tyDelegation),
  ("ControlSet", tyControlSet),
  ("DiscoInfo", tyDiscoInfo),
  ("DiscoItems", tyDiscoItems),
  ("Roster", tyRoster),
  ("RosterItems", tyRosterItems),
  ("Version", tyVersion),
  ("Markable", tyMarkable),
  ("MarkReceived", tyMarkReceived),
  ("MarkDisplayed", tyMarkDisplayed),
  ("MarkAcknowledged", tyMarkAcknowledged),
  ("StateActive", tyStateActive),
  ("StateComposing", tyStateComposing),
  ("StateGone", tyStateGone),
  ("StateInactive", tyStateInactive),
  ("StatePaused", tyStatePaused),
  ("HintNoPermanentStore", tyHintNoPermanentStore),
  ("HintNoStore", tyHintNoStore),
  ("HintNoCopy", tyHintNoCopy),
  ("HintStore", tyHintStore),
  ("HTML", tyHTML),
  ("OOB", tyOOB),
  ("PubSubEvent", tyPubSubEvent),
  ("ReceiptRequest", tyReceiptRequest),
  ("ReceiptReceived", tyReceiptReceived),
  ("MucPresence", tyMucPresence),
  ("PubSubGeneric", tyPubSubGeneric),
  ("PubSubOwner", tyPubSubOwner),
  ("Bind", tyBind),
  ("StreamSession", tyStreamSession)]

/-- every struct type reachable from the registry, dependency order -/
def allTypes : List (String × Ty) := [("Command", tyCommand),
  ("Delegated", tyDelegated),
  ("First", tyFirst),
  ("ResultSet", tyResultSet),
  ("Delegation", tyDelegation),
  ("ControlField", tyControlField),
  ("ControlSet", tyControlSet),
  ("Identity", tyIdentity),
  ("Feature", tyFeature),
  ("DiscoInfo", tyDiscoInfo),
  ("DiscoItem", tyDiscoItem),
  ("DiscoItems", tyDiscoItems),
  ("Roster", tyRoster),
  ("RosterItem", tyRosterItem),
  ("RosterItems", tyRosterItems),
  ("Version", tyVersion),
  ("Markable", tyMarkable),
  ("MarkReceived", tyMarkReceived),
  ("MarkDisplayed", tyMarkDisplayed),
  ("MarkAcknowledged", tyMarkAcknowledged),
  ("StateActive", tyStateActive),
  ("StateComposing", tyStateComposing),
  ("StateGone", tyStateGone),
  ("StateInactive", tyStateInactive),
  ("StatePaused", tyStatePaused),
  ("HintNoPermanentStore", tyHintNoPermanentStore),
  ("HintNoStore", tyHintNoStore),
  ("HintNoCopy", tyHintNoCopy),
  ("HintStore", tyHintStore),
  ("HTMLBody", tyHTMLBody),
  ("HTML", tyHTML),
  ("OOB", tyOOB),
  ("PubSubEvent", tyPubSubEvent),
  ("ReceiptRequest", tyReceiptRequest),
  ("ReceiptReceived", tyReceiptReceived),
  ("MucPresence", tyMucPresence),
  ("Create", tyCreate),
  ("Option", tyOption),
  ("Field", tyField),
  ("FormItem", tyFormItem),
  ("Form", tyForm),
  ("Configure", tyConfigure),
  ("SubInfo", tySubInfo),
  ("SubOptions", tySubOptions),
  ("Item", tyItem),
  ("Publish", tyPublish),
  ("PublishOptions", tyPublishOptions),
  ("Affiliation", tyAffiliation),
  ("Affiliations", tyAffiliations),
  ("Default", tyDefault),
  ("Items", tyItems),
  ("Retract", tyRetract),
  ("Subscription", tySubscription),
  ("Subscriptions", tySubscriptions),
  ("PubSubGeneric", tyPubSubGeneric),
  ("PubSubOwner", tyPubSubOwner),
  ("Bind", tyBind),
  ("StreamSession", tyStreamSession),
  ("AffiliationOwner", tyAffiliationOwner),
  ("AffiliationsOwner", tyAffiliationsOwner),
  ("ConfigureOwner", tyConfigureOwner),
  ("DefaultOwner", tyDefaultOwner),
  ("RedirectOwner", tyRedirectOwner),
  ("DeleteOwner", tyDeleteOwner),
  ("PurgeOwner", tyPurgeOwner),
  ("SubscriptionOwner", tySubscriptionOwner),
  ("SubscriptionsOwner", tySubscriptionsOwner),
  ("CollectionEvent", tyCollectionEvent),
  ("ConfigurationEvent", tyConfigurationEvent),
  ("RedirectEvent", tyRedirectEvent),
  ("DeleteEvent", tyDeleteEvent),
  ("ItemEvent", tyItemEvent),
  ("RetractEvent", tyRetractEvent),
  ("ItemsEvent", tyItemsEvent),
  ("PurgeEvent", tyPurgeEvent),
  ("SubscriptionEvent", tySubscriptionEvent),
  ("Actions", tyActions),
  ("Note", tyNote)]

/-- the types the generic codec is claimed for: every reachable struct type whose schema is well-formed -/
def modelled : List (String × Ty) := allTypes.filter fun p => Ty.wf p.2

/-- and the rest: hand-written codecs, dynamic XMLNames, `,any`, `,innerxml`, namespaced attributes -/
def unmodelled : List (String × Ty) := allTypes.filter fun p => !Ty.wf p.2

/-- TypeRegistry.MapExtension calls: (packet kind, namespace, local name, Go type), in file order -/
def regEntries : List (String × String × String × String) := [
  ("PKTIQ", "http://jabber.org/protocol/commands", "command", "Command"),
  ("PKTMessage", "urn:xmpp:delegation:1", "delegation", "Delegation"),
  ("PKTIQ", "urn:xmpp:delegation:1", "delegation", "Delegation"),
  ("PKTIQ", "urn:xmpp:iot:control", "set", "ControlSet"),
  ("PKTIQ", "http://jabber.org/protocol/disco#info", "query", "DiscoInfo"),
  ("PKTIQ", "http://jabber.org/protocol/disco#items", "query", "DiscoItems"),
  ("PKTIQ", "jabber:iq:roster", "query", "Roster"),
  ("PKTIQ", "jabber:iq:roster", "query", "RosterItems"),
  ("PKTIQ", "jabber:iq:version", "query", "Version"),
  ("PKTMessage", "urn:xmpp:chat-markers:0", "markable", "Markable"),
  ("PKTMessage", "urn:xmpp:chat-markers:0", "received", "MarkReceived"),
  ("PKTMessage", "urn:xmpp:chat-markers:0", "displayed", "MarkDisplayed"),
  ("PKTMessage", "urn:xmpp:chat-markers:0", "acknowledged", "MarkAcknowledged"),
  ("PKTMessage", "http://jabber.org/protocol/chatstates", "active", "StateActive"),
  ("PKTMessage", "http://jabber.org/protocol/chatstates", "composing", "StateComposing"),
  ("PKTMessage", "http://jabber.org/protocol/chatstates", "gone", "StateGone"),
  ("PKTMessage", "http://jabber.org/protocol/chatstates", "inactive", "StateInactive"),
  ("PKTMessage", "http://jabber.org/protocol/chatstates", "paused", "StatePaused"),
  ("PKTMessage", "urn:xmpp:hints", "no-permanent-store", "HintNoPermanentStore"),
  ("PKTMessage", "urn:xmpp:hints", "no-store", "HintNoStore"),
  ("PKTMessage", "urn:xmpp:hints", "no-copy", "HintNoCopy"),
  ("PKTMessage", "urn:xmpp:hints", "store", "HintStore"),
  ("PKTMessage", "http://jabber.org/protocol/xhtml-im", "html", "HTML"),
  ("PKTMessage", "jabber:x:oob", "x", "OOB"),
  ("PKTMessage", "http://jabber.org/protocol/pubsub#event", "event", "PubSubEvent"),
  ("PKTMessage", "urn:xmpp:receipts", "request", "ReceiptRequest"),
  ("PKTMessage", "urn:xmpp:receipts", "received", "ReceiptReceived"),
  ("PKTPresence", "http://jabber.org/protocol/muc", "x", "MucPresence"),
  ("PKTIQ", "http://jabber.org/protocol/pubsub", "pubsub", "PubSubGeneric"),
  ("PKTIQ", "http://jabber.org/protocol/pubsub#owner", "pubsub", "PubSubOwner"),
  ("PKTIQ", "urn:ietf:params:xml:ns:xmpp-bind", "bind", "Bind"),
  ("PKTIQ", "urn:ietf:params:xml:ns:xmpp-session", "session", "StreamSession")]

/-- TypeRegistry lookup: a later MapExtension call for the same (kind, name) replaces the earlier one -/
def regWinner (kind space loc : String) : Option String :=
  ((regEntries.filter fun e => e.1 == kind && e.2.1 == space && e.2.2.1 == loc).getLast?).map (·.2.2.2)

end XmppVerif.Model.C01S
