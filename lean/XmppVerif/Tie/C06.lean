import XmppVerif.Gen.Queue
import XmppVerif.Gen.RouterSkeleton
/- Tie (regenerated facts) for C06: the order of the branches of `Router.route` (SMAnswer hook, IQ-result lookup,
ordinary match with return, feature-not-implemented), first-match loops of `Router.Match` / `Route.Match`, the type
tables of the matchers and the constants of the error reply. -/
namespace XmppVerif.Tie.C06
open XmppVerif.Gen.Queue XmppVerif.Gen.RouterSkeleton
theorem tie_route_order : route =
  ["if:case(*Client):SendMissingStz", "if:r.IQResultRouteLock.Lock", "if:if:delete", "if:r.IQResultRouteLock.Unlock",
   "if:if:send route.result", "if:if:close", "if:if:return", "if:match.Handler.HandlePacket", "if:return",
   "if:iqNotImplemented"] := by decide
theorem tie_first_match : routerMatch = ["for:if:return", "return"] ∧ routeMatch = ["for:m.Match", "for:if:return", "return"] := by decide
theorem tie_matcher_types : nameMatcherCases = ["stanza.Message", "*stanza.IQ", "stanza.Presence"] ∧
    typeMatcherCases = ["*stanza.IQ", "stanza.Presence", "stanza.Message", "default"] := by decide
theorem tie_error_reply : notImplementedErr.drop 1 = ["Code=501", "Type=\"cancel\"", "Reason=\"feature-not-implemented\""] := by decide
end XmppVerif.Tie.C06
#print axioms XmppVerif.Tie.C06.tie_route_order
#print axioms XmppVerif.Tie.C06.tie_first_match
#print axioms XmppVerif.Tie.C06.tie_matcher_types
#print axioms XmppVerif.Tie.C06.tie_error_reply
