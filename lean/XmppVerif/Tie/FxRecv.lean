import XmppVerif.Fx
import XmppVerif.Gen.Fx
/-
Tie (regenerated MODEL, trace semantics): ONE PASS of the receive loops and of the keepalive, on every path.

`Fx.loopBody` takes the body of the loop of `Client.recv` / `Component.recv` / `keepalive` out of the regenerated
skeleton; `Fx.iterTraces` enumerates every complete trace of one pass (acts in order, the type-switch arm taken as a
marker `@case …`, and how the pass ended: `return`, `continue`); `Fx.allIter_sound` lifts a decidable predicate to every
run of the body. What one pass does is what `Model/Recv.lean` transcribes by hand (and the shape ties `Tie.Recv` pin as
lists); here it is stated as properties of every path of the code as it is now.

  Client.recv: a pass that goes on (continue) hands the packet to the router in a goroutine of its own exactly once - a
    pass that returns hands over nothing (C05); the inbound counter is incremented at most once, and exactly on the arm
    of message / presence / IQ (C09); an acknowledgement request is answered by exactly one Send on its arm and nowhere
    else (C05, C10); a pass that returns has reported the loss exactly once (`disconnected`), after the error callback
    where there is an error (C12); nothing is reported on a pass that goes on.
  Component.recv: a pass that goes on routes the packet synchronously, in the loop, exactly once (twice on the
    stream-error arm, as the code is); a pass that returns routes nothing; no goroutine is started (C05: arrival order).
  keepalive: a pass pings at most once; a failed ping stops the ticker and closes the transport, then returns; the
    quit arm stops the ticker and returns WITHOUT closing (C18, C12).
-/
namespace XmppVerif.Tie.FxRecv
open XmppVerif.Fx XmppVerif.Gen.Fx

def body (name : String) : Fx.Fx :=
  ((XmppVerif.Gen.Fx.all.lookup name).bind loopBody).getD (.ret "missing")

def cnt (a : Act) (t : List Act) : Nat := (t.filter (· == a)).length
def ends_ (w : String) (t : List Act) : Bool := t.getLast? == some (.call w)
def stanzaArm : Act := .call "@case stanza.Message, stanza.Presence, *stanza.IQ"

/-- one pass of Client.recv -/
def clientPassOk (t : List Act) : Bool :=
  let goesOn := ends_ "continue" t
  let routedAsync := cnt (.spawn "Client.router.route") t
  -- C05: exactly one hand-over per pass that goes on, none on a pass that returns; the only synchronous route call is
  -- the one of the stream-error arm (as the code is: recorded in DESIGN 12.12)
  (routedAsync == (if goesOn then 1 else 0)) &&
  (cnt (.call "Router.route") t == (if t.contains (.call "@case stanza.StreamError") then 1 else 0)) &&
  -- C09: counted exactly on the stanza arm, once
  (cnt (.call "inc Client.Session.SMState.Inbound") t == (if t.contains stanzaArm then 1 else 0)) &&
  -- C05 / C10: an <r/> is answered by exactly one Send, on its arm; no other arm sends
  (cnt (.call "Client.Send") t == (if t.contains (.call "@case stanza.SMRequest") then 1 else 0)) &&
  -- C12: a pass that returns reports the loss exactly once; a pass that goes on reports nothing
  (cnt (.call "Client.disconnected") t == (if goesOn then 0 else 1)) &&
  (goesOn || ends_ "return " t) &&
  -- the error callback comes before the report, never after
  noneAfter (· == .call "Client.disconnected") (· == .call "Client.ErrorHandler") t &&
  -- every pass reads exactly one packet
  (cnt (.call "stanza.NextPacket") t == 1)

theorem client_pass_every_path : allIter (body "Client.recv") clientPassOk = true := by decide +kernel

/-- **Every pass of the client's receive loop**, whatever was read and whatever failed. -/
theorem client_pass_every_run :
    ∀ o, Runs traceSem (body "Client.recv") [] o → clientPassOk o.trace = true :=
  allIter_sound _ _ client_pass_every_path

/-- the keepalive's quit channel is closed when the receive loop ends, however it ends: the close is DEFERRED before the
loop starts -/
theorem client_recv_defers_quit :
    ((XmppVerif.Gen.Fx.all.lookup "Client.recv").map fun f =>
      match f with
      | .act (.call "defer close") (.loop _ _) => true
      | _ => false) = some true := by decide

/-- one pass of Component.recv: the packet is routed synchronously, in the loop (arrival order), exactly once on a pass
that goes on (twice on the stream-error arm, as the code is); a pass that returns has routed nothing; no goroutine -/
def compPassOk (t : List Act) : Bool :=
  let goesOn := ends_ "continue" t
  let serr := t.contains (.call "@case stanza.StreamError")
  (cnt (.call "Router.route") t == (if goesOn then (if serr then 2 else 1) else 0)) &&
  !(t.any isSpawn) &&
  (goesOn || ends_ "return " t) &&
  (cnt (.call "stanza.NextPacket") t == 1)

theorem component_pass_every_path : allIter (body "Component.recv") compPassOk = true := by decide +kernel

theorem component_pass_every_run :
    ∀ o, Runs traceSem (body "Component.recv") [] o → compPassOk o.trace = true :=
  allIter_sound _ _ component_pass_every_path

/-- one pass of the keepalive -/
def keepalivePassOk (t : List Act) : Bool :=
  let pinged := cnt (.call "Transport.Ping") t
  let closed := cnt (.call "Transport.Close") t
  pinged ≤ 1 &&
  -- the transport is closed only after a ping of this pass, and then the pass returns with the ticker stopped
  (closed == 0 || (pinged == 1 && closed == 1 && ends_ "return " t && t.contains (.call "Ticker.Stop") &&
                   noneAfter (· == .call "Transport.Close") (· == .call "Transport.Ping") t)) &&
  -- the quit arm: ticker stopped, return, nothing closed, nothing pinged
  (!(t.contains (.call "<-quit")) || (pinged == 0 && closed == 0 && t.contains (.call "Ticker.Stop") && ends_ "return " t)) &&
  -- a pass that goes on has pinged (a tick) and closed nothing
  (!(ends_ "continue" t) || (pinged == 1 && closed == 0))

theorem keepalive_pass_every_path : allIter (body "keepalive") keepalivePassOk = true := by decide +kernel

theorem keepalive_pass_every_run :
    ∀ o, Runs traceSem (body "keepalive") [] o → keepalivePassOk o.trace = true :=
  allIter_sound _ _ keepalive_pass_every_path

-- not vacuous: the predicates refuse a counter incremented on the <r/> arm, a pass that routes twice, a quit arm that closes
example : clientPassOk [.call "stanza.NextPacket", .call "@case stanza.SMRequest", .call "Client.Send",
    .call "inc Client.Session.SMState.Inbound", .spawn "Client.router.route", .call "continue"] = false := by decide +kernel
example : clientPassOk [.call "stanza.NextPacket", stanzaArm, .call "inc Client.Session.SMState.Inbound",
    .spawn "Client.router.route", .call "continue"] = true := by decide +kernel
example : keepalivePassOk [.call "<-quit", .call "Ticker.Stop", .call "Transport.Close", .call "return "] = false := by decide +kernel
example : ((iterTraces (body "Client.recv")).map fun ts => decide (6 ≤ ts.length)) = some true := by decide

end XmppVerif.Tie.FxRecv
#print axioms XmppVerif.Fx.iterTraces_sound
#print axioms XmppVerif.Fx.allIter_sound
#print axioms XmppVerif.Tie.FxRecv.client_pass_every_path
#print axioms XmppVerif.Tie.FxRecv.client_pass_every_run
#print axioms XmppVerif.Tie.FxRecv.client_recv_defers_quit
#print axioms XmppVerif.Tie.FxRecv.component_pass_every_path
#print axioms XmppVerif.Tie.FxRecv.component_pass_every_run
#print axioms XmppVerif.Tie.FxRecv.keepalive_pass_every_path
#print axioms XmppVerif.Tie.FxRecv.keepalive_pass_every_run
