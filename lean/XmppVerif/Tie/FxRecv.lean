import XmppVerif.Fx
import XmppVerif.Gen.Fx
import XmppVerif.Model.Recv
import XmppVerif.Model.C18
/-
Tie (regenerated MODEL, trace semantics): ONE PASS of the receive loops and of the keepalive, on every path.

`Fx.loopBody` takes the body of the loop of `Client.recv` / `Component.recv` / `keepalive` out of the regenerated
skeleton; `Fx.iterTraces` enumerates every complete trace of one pass (acts in order, the type-switch arm taken as a
marker `@case …`, and how the pass ended: `return`, `continue`); `Fx.allIter_sound` lifts a decidable predicate to every
run of the body. What one pass does is what `Model/Recv.lean` transcribes by hand (and the shape ties `Tie.Recv` pin as
lists); here it is stated as properties of every path of the code as it is now.

  Client.recv: a pass that goes on (continue) hands the packet to the router in a goroutine of its own exactly once - a
    pass that returns hands over nothing (C05); the inbound counter is incremented at most once, and exactly on the arm
    of message / presence / IQ (C09); an acknowledgement request is answered by exactly one Send on its arm and nowhere
    else (C05, C10); a pass that returns has reported the loss exactly once (`disconnected`), after the error callback
    where there is an error (C12); nothing is reported on a pass that goes on.
  Component.recv: a pass that goes on routes the packet synchronously, in the loop, exactly once (twice on the
    stream-error arm, as the code is); a pass that returns routes nothing; no goroutine is started (C05: arrival order).
  keepalive: a pass pings at most once; a failed ping stops the ticker and closes the transport, then returns; the
    quit arm stops the ticker and returns WITHOUT closing (C18, C12).
-/
namespace XmppVerif.Tie.FxRecv
open XmppVerif.Fx XmppVerif.Gen.Fx

def body (name : String) : Fx.Fx :=
  ((XmppVerif.Gen.Fx.all.lookup name).bind loopBody).getD (.ret "missing")

def cnt (a : Act) (t : List Act) : Nat := (t.filter (· == a)).length
def ends_ (w : String) (t : List Act) : Bool := t.getLast? == some (.call w)
def stanzaArm : Act := .call "@case stanza.Message, stanza.Presence, *stanza.IQ"

/-- one pass of Client.recv -/
def clientPassOk (t : List Act) : Bool :=
  let goesOn := ends_ "continue" t
  let routedAsync := cnt (.spawn "Client.router.route") t
  -- C05: exactly one hand-over per pass that goes on, none on a pass that returns; the only synchronous route call is
  -- the one of the stream-error arm (as the code is: recorded in DESIGN 12.12)
  (routedAsync == (if goesOn then 1 else 0)) &&
  (cnt (.call "Router.route") t == (if t.contains (.call "@case stanza.StreamError") then 1 else 0)) &&
  -- C09: counted exactly on the stanza arm, once
  (cnt (.call "inc Client.Session.SMState.Inbound") t == (if t.contains stanzaArm then 1 else 0)) &&
  -- C05 / C10: an <r/> is answered by exactly one Send, on its arm; no other arm sends
  (cnt (.call "Client.Send") t == (if t.contains (.call "@case stanza.SMRequest") then 1 else 0)) &&
  -- C12: a pass that returns reports the loss exactly once; a pass that goes on reports nothing
  (cnt (.call "Client.disconnected") t == (if goesOn then 0 else 1)) &&
  (goesOn || ends_ "return " t) &&
  -- the error callback comes before the report, never after
  noneAfter (· == .call "Client.disconnected") (· == .call "Client.ErrorHandler") t &&
  -- F-18b: a pass that returns has told the keepalive to stop - once, and BEFORE the error callback and the report
  (cnt (.call "stopKeepalive") t == (if goesOn then 0 else 1)) &&
  noneAfter (fun a => a == .call "Client.ErrorHandler" && !goesOn || a == .call "Client.disconnected") (· == .call "stopKeepalive") t &&
  -- every pass reads exactly one packet
  (cnt (.call "stanza.NextPacket") t == 1)

theorem client_pass_every_path : allIter (body "Client.recv") clientPassOk = true := by decide +kernel

/-- **Every pass of the client's receive loop**, whatever was read and whatever failed. -/
theorem client_pass_every_run :
    ∀ o, Runs traceSem (body "Client.recv") [] o → clientPassOk o.trace = true :=
  allIter_sound _ _ client_pass_every_path

/-- the keepalive's quit channel is closed when the receive loop ends, however it ends: the close is DEFERRED before the
loop starts -/
theorem client_recv_defers_quit :
    ((XmppVerif.Gen.Fx.all.lookup "Client.recv").map fun f =>
      match f with
      | .act (.call "defer stopKeepalive") (.loop _ _) => true
      | _ => false) = some true := by decide

/-- one pass of Component.recv: the packet is routed synchronously, in the loop (arrival order), exactly once on a pass
that goes on (twice on the stream-error arm, as the code is); a pass that returns has routed nothing; no goroutine -/
def compPassOk (t : List Act) : Bool :=
  let goesOn := ends_ "continue" t
  let serr := t.contains (.call "@case stanza.StreamError")
  (cnt (.call "Router.route") t == (if goesOn then (if serr then 2 else 1) else 0)) &&
  !(t.any isSpawn) &&
  (goesOn || ends_ "return " t) &&
  (cnt (.call "stanza.NextPacket") t == 1)

theorem component_pass_every_path : allIter (body "Component.recv") compPassOk = true := by decide +kernel

theorem component_pass_every_run :
    ∀ o, Runs traceSem (body "Component.recv") [] o → compPassOk o.trace = true :=
  allIter_sound _ _ component_pass_every_path

/-- one pass of the keepalive -/
def keepalivePassOk (t : List Act) : Bool :=
  let pinged := cnt (.call "Transport.Ping") t
  let closed := cnt (.call "Transport.Close") t
  pinged ≤ 1 &&
  -- the transport is closed only after a ping of this pass, and then the pass returns with the ticker stopped
  (closed == 0 || (pinged == 1 && closed == 1 && ends_ "return " t && t.contains (.call "Ticker.Stop") &&
                   noneAfter (· == .call "Transport.Close") (· == .call "Transport.Ping") t)) &&
  -- the quit arm: ticker stopped, return, nothing closed, nothing pinged
  (!(t.contains (.call "<-quit")) || (pinged == 0 && closed == 0 && t.contains (.call "Ticker.Stop") && ends_ "return " t)) &&
  -- a pass that goes on has pinged (a tick) and closed nothing
  (!(ends_ "continue" t) || (pinged == 1 && closed == 0))

theorem keepalive_pass_every_path : allIter (body "keepalive") keepalivePassOk = true := by decide +kernel

theorem keepalive_pass_every_run :
    ∀ o, Runs traceSem (body "keepalive") [] o → keepalivePassOk o.trace = true :=
  allIter_sound _ _ keepalive_pass_every_path

-- ---------------------------------------------------------------------------------------------------------------
-- The hand-written model of one pass (`Model.Recv.clientStep` / `componentStep`) IS the regenerated skeleton's pass,
-- seen through an abstraction: which kinds of action, in which order, whether the counter moves, whether the loop goes
-- on. Both directions: every class of input of the model is a path of the code, every path of the code is a class of
-- input of the model.

/-- the kinds of action the model speaks about -/
inductive K where
  | route | answer | errh | disconnected | streamErrorEv | disconnect | streamClose | quit
  deriving DecidableEq, Repr

/-- a pass, abstractly: the kinds in order, whether the inbound counter was incremented, whether the loop goes on -/
abbrev Pass := List K × Bool × Bool

def kindOfAct (who : String) : Act → Option K
  | .spawn w => if w == who ++ ".router.route" then some .route else none
  | .call w =>
    if w == "Router.route" then some .route
    else if w == who ++ ".Send" then some .answer            -- the answer to <r/> is attempted (it may fail)
    else if w == who ++ ".ErrorHandler" then some .errh
    else if w == who ++ ".disconnected" || w == who ++ ".updateState(StateDisconnected)" then some .disconnected
    else if w == who ++ ".streamError" then some .streamErrorEv
    else if w == who ++ ".Disconnect" then some .disconnect
    else if w == "Transport.ReceivedStreamClose" then some .streamClose
    else if w == "stopKeepalive" then some .quit            -- the keepalive of the session is told to stop
    else none
  | _ => none

def passOfTrace (who : String) (t : List Act) : Pass :=
  (t.filterMap (kindOfAct who), t.contains (.call ("inc " ++ who ++ ".Session.SMState.Inbound")), ends_ "continue" t)

open XmppVerif.Model.Recv in
def kindOfModel : Model.Recv.Act → K
  | .route _ => .route | .answer _ => .answer | .errh => .errh | .disconnected _ _ => .disconnected
  | .streamErrorEv => .streamErrorEv | .disconnect => .disconnect | .streamClose => .streamClose
  | .quitClosed => .quit

/-- the model's pass for one input; a failed answer was still attempted (the model omits writes that fail) -/
def passOfModel (i : Model.Recv.In) : Pass :=
  let r := Model.Recv.clientStep ⟨"", 0⟩ i
  let ks := r.2.1.map kindOfModel
  ((match i with | .pkt .r true => .answer :: ks | _ => ks), r.1.inbound == 1, r.2.2)

/-- one representative of every class of input the model distinguishes -/
def inputClasses : List Model.Recv.In :=
  [.cut, .pkt .serr false, .pkt .r false, .pkt .r true, .pkt .close false, .pkt (.msg "m") false,
   .pkt (.pres "p") false, .pkt (.iq "i") false, .pkt (.a 3) false, .pkt (.nonza "features") false]

def sameSet (a b : List Pass) : Bool := a.all b.contains && b.all a.contains

/-- **`Model.Recv.clientStep` = one pass of the regenerated `Client.recv`** (as sets of abstract passes): every input
class of the model is a path of the code with the same kinds of action in the same order, the same verdict on the
counter and on going on; and the code has no other path. -/
theorem client_model_is_the_code :
    ((iterTraces (body "Client.recv")).map fun ts => sameSet (ts.map (passOfTrace "Client")) (inputClasses.map passOfModel)) =
      some true := by decide +kernel

def passOfComponentModel (i : Model.Recv.In) : Pass :=
  let r := Model.Recv.componentStep i
  (r.1.map kindOfModel, false, r.2)

/-- the same for `Component.recv` (state change before the error callback, synchronous routing) -/
theorem component_model_is_the_code :
    ((iterTraces (body "Component.recv")).map fun ts =>
        sameSet (ts.map (passOfTrace "Component")) (inputClasses.map passOfComponentModel)) = some true := by decide +kernel

/-- a pass of the keepalive, abstractly: pinged, closed the transport, stopped the ticker, returned -/
abbrev KPass := Bool × Bool × Bool × Bool

def kpassOfTrace (t : List Act) : KPass :=
  (t.contains (.call "Transport.Ping"), t.contains (.call "Transport.Close"), t.contains (.call "Ticker.Stop"), ends_ "return " t)

/-- the model's three non-blocked iterations: a tick whose ping succeeds, a tick whose ping fails, the quit arm -/
def kpassesOfModel : List KPass :=
  let p (s : Model.C18.St) (fails choose : Bool) : KPass :=
    let r := Model.C18.step s (.iter fails choose)
    (r.2.contains .ping, r.2.contains .close, r.2.contains .stop, r.1.stopped)
  [p ⟨true, false, false⟩ false true, p ⟨true, false, false⟩ true true, p ⟨false, true, false⟩ false false]

/-- **`Model.C18.step` = one pass of the regenerated `keepalive`** (both inclusions) -/
theorem keepalive_model_is_the_code :
    ((iterTraces (body "keepalive")).map fun ts =>
      let a := ts.map kpassOfTrace
      a.all kpassesOfModel.contains && kpassesOfModel.all a.contains) = some true := by decide +kernel

-- the comparison is not vacuous: a model without its cut case, or one that counted acknowledgement requests, differs
example : ((iterTraces (body "Client.recv")).map fun ts =>
    sameSet (ts.map (passOfTrace "Client")) ((inputClasses.drop 1).map passOfModel)) = some false := by decide +kernel
example : ((iterTraces (body "Client.recv")).map fun ts =>
    sameSet (ts.map (passOfTrace "Client")) ((inputClasses.map passOfModel).map fun p =>
      if p.1 == [.answer, .route] then (p.1, true, p.2.2) else p)) = some false := by decide +kernel

-- not vacuous: the predicates refuse a counter incremented on the <r/> arm, a pass that routes twice, a quit arm that closes
example : clientPassOk [.call "stanza.NextPacket", .call "@case stanza.SMRequest", .call "Client.Send",
    .call "inc Client.Session.SMState.Inbound", .spawn "Client.router.route", .call "continue"] = false := by decide +kernel
example : clientPassOk [.call "stanza.NextPacket", stanzaArm, .call "inc Client.Session.SMState.Inbound",
    .spawn "Client.router.route", .call "continue"] = true := by decide +kernel
example : keepalivePassOk [.call "<-quit", .call "Ticker.Stop", .call "Transport.Close", .call "return "] = false := by decide +kernel
example : ((iterTraces (body "Client.recv")).map fun ts => decide (6 ≤ ts.length)) = some true := by decide

end XmppVerif.Tie.FxRecv
#print axioms XmppVerif.Fx.iterTraces_sound
#print axioms XmppVerif.Fx.allIter_sound
#print axioms XmppVerif.Tie.FxRecv.client_pass_every_path
#print axioms XmppVerif.Tie.FxRecv.client_pass_every_run
#print axioms XmppVerif.Tie.FxRecv.client_recv_defers_quit
#print axioms XmppVerif.Tie.FxRecv.component_pass_every_path
#print axioms XmppVerif.Tie.FxRecv.component_pass_every_run
#print axioms XmppVerif.Tie.FxRecv.keepalive_pass_every_path
#print axioms XmppVerif.Tie.FxRecv.keepalive_pass_every_run
#print axioms XmppVerif.Tie.FxRecv.client_model_is_the_code
#print axioms XmppVerif.Tie.FxRecv.component_model_is_the_code
#print axioms XmppVerif.Tie.FxRecv.keepalive_model_is_the_code
