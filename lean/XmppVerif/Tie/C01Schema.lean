import XmppVerif.Gen.C01
import XmppVerif.Gen.C01Schema
import XmppVerif.Model.C01SchemaTypes
import XmppVerif.Model.C01Command
/-
Tie (regenerated facts) for the schema-coded types of C01. go/extract re-reads stanza/*.go on every run and prints, for
every struct type reachable from a TypeRegistry.MapExtension call, the type as encoding/xml's getTypeInfo sees it
(Gen/C01Schema.lean). Here: each regenerated schema EQUALS the schema the model instantiates (so a changed tag, a new,
removed or reordered field, a changed Go type, a new hand-written codec breaks an obligation); the list of types the
generic theorem is claimed for is pinned by name and each satisfies `Schema.wf`; every registered type is either in
that list or in the pinned list of types left to sampling; the registry table and the set of hand-written codecs are
the ones the model was written against.
-/
namespace XmppVerif.Tie.C01S
open XmppVerif.Model.C01S

/-- every regenerated schema equals the model's -/
theorem tie_schema_types :
    Gen.C01Schema.tyCommand = tyCommand ∧
    Gen.C01Schema.tyDelegated = tyDelegated ∧
    Gen.C01Schema.tyFirst = tyFirst ∧
    Gen.C01Schema.tyResultSet = tyResultSet ∧
    Gen.C01Schema.tyDelegation = tyDelegation ∧
    Gen.C01Schema.tyControlField = tyControlField ∧
    Gen.C01Schema.tyControlSet = tyControlSet ∧
    Gen.C01Schema.tyIdentity = tyIdentity ∧
    Gen.C01Schema.tyFeature = tyFeature ∧
    Gen.C01Schema.tyDiscoInfo = tyDiscoInfo ∧
    Gen.C01Schema.tyDiscoItem = tyDiscoItem ∧
    Gen.C01Schema.tyDiscoItems = tyDiscoItems ∧
    Gen.C01Schema.tyRoster = tyRoster ∧
    Gen.C01Schema.tyRosterItem = tyRosterItem ∧
    Gen.C01Schema.tyRosterItems = tyRosterItems ∧
    Gen.C01Schema.tyVersion = tyVersion ∧
    Gen.C01Schema.tyMarkable = tyMarkable ∧
    Gen.C01Schema.tyMarkReceived = tyMarkReceived ∧
    Gen.C01Schema.tyMarkDisplayed = tyMarkDisplayed ∧
    Gen.C01Schema.tyMarkAcknowledged = tyMarkAcknowledged ∧
    Gen.C01Schema.tyStateActive = tyStateActive ∧
    Gen.C01Schema.tyStateComposing = tyStateComposing ∧
    Gen.C01Schema.tyStateGone = tyStateGone ∧
    Gen.C01Schema.tyStateInactive = tyStateInactive ∧
    Gen.C01Schema.tyStatePaused = tyStatePaused ∧
    Gen.C01Schema.tyHintNoPermanentStore = tyHintNoPermanentStore ∧
    Gen.C01Schema.tyHintNoStore = tyHintNoStore ∧
    Gen.C01Schema.tyHintNoCopy = tyHintNoCopy ∧
    Gen.C01Schema.tyHintStore = tyHintStore ∧
    Gen.C01Schema.tyHTMLBody = tyHTMLBody ∧
    Gen.C01Schema.tyHTML = tyHTML ∧
    Gen.C01Schema.tyOOB = tyOOB ∧
    Gen.C01Schema.tyPubSubEvent = tyPubSubEvent ∧
    Gen.C01Schema.tyReceiptRequest = tyReceiptRequest ∧
    Gen.C01Schema.tyReceiptReceived = tyReceiptReceived ∧
    Gen.C01Schema.tyMucPresence = tyMucPresence ∧
    Gen.C01Schema.tyCreate = tyCreate ∧
    Gen.C01Schema.tyOption = tyOption ∧
    Gen.C01Schema.tyField = tyField ∧
    Gen.C01Schema.tyFormItem = tyFormItem ∧
    Gen.C01Schema.tyForm = tyForm ∧
    Gen.C01Schema.tyConfigure = tyConfigure ∧
    Gen.C01Schema.tySubInfo = tySubInfo ∧
    Gen.C01Schema.tySubOptions = tySubOptions ∧
    Gen.C01Schema.tyItem = tyItem ∧
    Gen.C01Schema.tyPublish = tyPublish ∧
    Gen.C01Schema.tyPublishOptions = tyPublishOptions ∧
    Gen.C01Schema.tyAffiliation = tyAffiliation ∧
    Gen.C01Schema.tyAffiliations = tyAffiliations ∧
    Gen.C01Schema.tyDefault = tyDefault ∧
    Gen.C01Schema.tyItems = tyItems ∧
    Gen.C01Schema.tyRetract = tyRetract ∧
    Gen.C01Schema.tySubscription = tySubscription ∧
    Gen.C01Schema.tySubscriptions = tySubscriptions ∧
    Gen.C01Schema.tyPubSubGeneric = tyPubSubGeneric ∧
    Gen.C01Schema.tyPubSubOwner = tyPubSubOwner ∧
    Gen.C01Schema.tyBind = tyBind ∧
    Gen.C01Schema.tyStreamSession = tyStreamSession ∧
    Gen.C01Schema.tyAffiliationOwner = tyAffiliationOwner ∧
    Gen.C01Schema.tyAffiliationsOwner = tyAffiliationsOwner ∧
    Gen.C01Schema.tyConfigureOwner = tyConfigureOwner ∧
    Gen.C01Schema.tyDefaultOwner = tyDefaultOwner ∧
    Gen.C01Schema.tyRedirectOwner = tyRedirectOwner ∧
    Gen.C01Schema.tyDeleteOwner = tyDeleteOwner ∧
    Gen.C01Schema.tyPurgeOwner = tyPurgeOwner ∧
    Gen.C01Schema.tySubscriptionOwner = tySubscriptionOwner ∧
    Gen.C01Schema.tySubscriptionsOwner = tySubscriptionsOwner ∧
    Gen.C01Schema.tyCollectionEvent = tyCollectionEvent ∧
    Gen.C01Schema.tyConfigurationEvent = tyConfigurationEvent ∧
    Gen.C01Schema.tyRedirectEvent = tyRedirectEvent ∧
    Gen.C01Schema.tyDeleteEvent = tyDeleteEvent ∧
    Gen.C01Schema.tyItemEvent = tyItemEvent ∧
    Gen.C01Schema.tyRetractEvent = tyRetractEvent ∧
    Gen.C01Schema.tyItemsEvent = tyItemsEvent ∧
    Gen.C01Schema.tyPurgeEvent = tyPurgeEvent ∧
    Gen.C01Schema.tySubscriptionEvent = tySubscriptionEvent := by
  refine ⟨rfl, rfl, rfl, rfl, rfl, rfl, rfl, rfl, rfl, rfl, rfl, rfl, rfl, rfl, rfl, rfl, rfl, rfl, rfl, rfl, rfl, rfl, rfl, rfl, rfl, rfl, rfl, rfl, rfl, rfl, rfl, rfl, rfl, rfl, rfl, rfl, rfl, rfl, rfl, rfl, rfl, rfl, rfl, rfl, rfl, rfl, rfl, rfl, rfl, rfl, rfl, rfl, rfl, rfl, rfl, rfl, rfl, rfl, rfl, rfl, rfl, rfl, rfl, rfl, rfl, rfl, rfl, rfl, rfl, rfl, rfl, rfl, rfl, rfl, rfl, rfl⟩

/-- the tables: which Go type each MapExtension call registers; every reachable struct type -/
theorem tie_schema_tables :
    Gen.C01Schema.registryTypes.map (·.1) = registryTypes.map (·.1) ∧
    Gen.C01Schema.allTypes.map (·.1) = allTypes.map (·.1) ∧
    Gen.C01.registry = regEntries := by decide

/-- the types the generic round-trip theorem is claimed for, by name; each is well-formed -/
def modelledNames : List String := ["Delegated", "First", "ResultSet", "Delegation", "Identity", "Feature", "DiscoInfo", "DiscoItem", "DiscoItems", "Roster", "RosterItem", "RosterItems", "Version", "Markable", "MarkReceived", "MarkDisplayed", "MarkAcknowledged", "StateActive", "StateComposing", "StateGone", "StateInactive", "StatePaused", "HintNoPermanentStore", "HintNoStore", "HintNoCopy", "HintStore", "OOB", "ReceiptRequest", "ReceiptReceived", "MucPresence", "Create", "Option", "Field", "Form", "Configure", "SubInfo", "SubOptions", "Item", "Publish", "PublishOptions", "Affiliation", "Affiliations", "Default", "Items", "Retract", "Subscription", "Subscriptions", "PubSubGeneric", "Bind", "StreamSession", "AffiliationOwner", "AffiliationsOwner", "ConfigureOwner", "DefaultOwner", "RedirectOwner", "DeleteOwner", "PurgeOwner", "SubscriptionOwner", "SubscriptionsOwner", "CollectionEvent", "ConfigurationEvent", "RedirectEvent", "DeleteEvent", "ItemEvent", "RetractEvent", "ItemsEvent", "PurgeEvent", "SubscriptionEvent", "Actions"]

theorem tie_schema_modelled : modelled.map (·.1) = modelledNames ∧ modelled.all (fun p => Ty.wf p.2) = true := by decide

/-- registered types left to sampling, and why -/
def sampledOnly : List (String × String) := [
  ("ControlSet", "`,any` slice of ControlField, whose XMLName is dynamic (a raw element name)"),
  ("HTML", "attribute in the xml: namespace; HTMLBody is `,innerxml` (raw by design)")]

/-- registered types with a hand-written, name-dispatching UnmarshalXML, modelled by hand (Model/C01Dispatch.lean) -/
def dispatchNames : List String := dispatchSpecs.map (·.tyName) ++ ["Command"]

/-- every registered type is modelled (schema codec), modelled by hand (dispatch) or listed as sampled-only -/
theorem tie_schema_cover :
    (Gen.C01.registry.all fun e => modelledNames.contains e.2.2.2 || dispatchNames.contains e.2.2.2 ||
      (sampledOnly.map (·.1)).contains e.2.2.2) = true ∧
    (sampledOnly.all fun p => !modelledNames.contains p.1) = true ∧
    (unmodelled.map (·.1)) = ["Command", "ControlField", "ControlSet", "HTMLBody", "HTML", "PubSubEvent", "FormItem",
      "PubSubOwner", "Note"] := by decide

/-- the name-dispatching decoders: the case labels with the Go type decoded in each arm, and the fields of the struct
(name, Go type, tag), are the ones Model/C01Dispatch.lean transcribes -/
theorem tie_schema_dispatch :
    Gen.C01Schema.dispatch.map (fun e => (e.1, e.2.1)) =
      dispatchSpecs.map (fun d => (d.tyName, d.cases)) ++ [("Command", cmdCases)] ∧
    Gen.C01Schema.dispatch.map (fun e => e.2.2) =
      [["XMLName xml.Name http://jabber.org/protocol/pubsub#owner pubsub", "OwnerUseCase OwnerUseCase ",
        "ResultSet *ResultSet set,omitempty"],
       ["XMLName xml.Name http://jabber.org/protocol/pubsub#event event", "MsgExtension MsgExtension ",
        "EventElement EventElement "],
       ["XMLName xml.Name http://jabber.org/protocol/commands command", "CommandElements []CommandElement ",
        "BadAction *struct{} bad-action,omitempty", "BadLocale *struct{} bad-locale,omitempty",
        "BadPayload *struct{} bad-payload,omitempty", "BadSessionId *struct{} bad-sessionid,omitempty",
        "MalformedAction *struct{} malformed-action,omitempty", "SessionExpired *struct{} session-expired,omitempty",
        "Action string action,attr,omitempty", "Node string node,attr", "SessionId string sessionid,attr,omitempty",
        "Status string status,attr,omitempty", "Lang string lang,attr,omitempty", "ResultSet *ResultSet set,omitempty"]] ∧
    (cmdFlagNames.map String.ofList, String.ofList nsCommands, [actionL, nodeL, sessionidL, statusAL, langL].map String.ofList) =
      (["bad-action", "bad-locale", "bad-payload", "bad-sessionid", "malformed-action", "session-expired"],
       "http://jabber.org/protocol/commands", ["action", "node", "sessionid", "status", "lang"]) ∧
    dispatchSpecs.map (fun d => (String.ofList d.name.space ++ " " ++ String.ofList d.name.loc, d.field, d.hasSet)) =
      [("http://jabber.org/protocol/pubsub#owner pubsub", "OwnerUseCase", true),
       ("http://jabber.org/protocol/pubsub#event event", "EventElement", false)] ∧
    (dispatchSpecs.all fun d => d.cases.all fun c => modelledNames.contains c.2) = true := by decide

/-- the types of stanza/ with hand-written codec methods: the reflection schema does not describe them -/
theorem tie_schema_custom_codecs :
    Gen.C01Schema.customCodecs = [("Command", "UnmarshalXML"), ("Err", "UnmarshalXML+MarshalXML"),
      ("Forwarded", "UnmarshalXML"), ("History", "UnmarshalXML+MarshalXML"), ("IQ", "UnmarshalXML"),
      ("Message", "UnmarshalXML"), ("Node", "UnmarshalXML+MarshalXML"), ("Presence", "UnmarshalXML"),
      ("PubSubEvent", "UnmarshalXML"), ("PubSubOwner", "UnmarshalXML"), ("SMFailed", "UnmarshalXML"),
      ("TlsStartTLS", "UnmarshalXML")] := by decide

end XmppVerif.Tie.C01S
#print axioms XmppVerif.Tie.C01S.tie_schema_types
#print axioms XmppVerif.Tie.C01S.tie_schema_tables
#print axioms XmppVerif.Tie.C01S.tie_schema_modelled
#print axioms XmppVerif.Tie.C01S.tie_schema_cover
#print axioms XmppVerif.Tie.C01S.tie_schema_custom_codecs
#print axioms XmppVerif.Tie.C01S.tie_schema_dispatch
