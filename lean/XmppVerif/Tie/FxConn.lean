import XmppVerif.Fx
import XmppVerif.Gen.Fx
import XmppVerif.Model.C16
/-
Tie (regenerated MODEL, trace semantics): what the entry points announce, start and return - on EVERY path.

`Fx.traces` enumerates every complete trace (acts in order, then the return label) of a body without loops;
`Fx.allTraces_sound` lifts a decidable predicate checked on that list to every run of the skeleton (`Runs traceSem`).
The skeletons are regenerated from /repo's working tree on every run (Gen/Fx.lean). Conditions are not interpreted:
"every path" includes paths no execution takes, so what is proved here holds a fortiori for the executions.

  Component.Resume (C16): every path announces exactly ONE state; the receive loop is started exactly on the path that
    announces "session established"; that path has written the handshake and read the reply, and is the only one that
    returns the (nil) `err` - every other path returns a ConnError it has just built.
  Client.Connect / Client.Resume (C03, C18, C12): the keepalive and the receiver are started together or not at all, in
    that order, only after `connect` was called, never before the application's hook has run (a failing hook returns
    its error with nothing started), and a path that starts them returns right after.
  Client.connect (C03, C04, C13): "session established" is announced exactly on the path on which NewSession succeeded;
    the path on which it failed takes the decoder, starts the clean-up goroutine, disconnects - in this order - and
    announces nothing.
  NewSession (C03, C04): the negotiation steps are called in RFC 6120 order on every path, no step without the ones
    before it, the TLS gate before authentication.
  StreamManager.Stop (C13): the handler is removed before the client is disconnected, then Run is released.
-/
namespace XmppVerif.Tie.FxConn
open XmppVerif.Fx XmppVerif.Gen.Fx

def get (name : String) : Fx.Fx := (XmppVerif.Gen.Fx.all.lookup name).getD (.ret "missing")

def callNamed (p : String → Bool) : Act → Bool | .call w => p w | _ => false
def isAnnouncement : Act → Bool :=
  callNamed fun w => w.startsWith "Component.updateState(" || w.startsWith "Component.streamError("
def established : Act := .call "Component.updateState(StateSessionEstablished)"

/-- C16 on every path of Component.Resume -/
def resumeOk (t : List Act) : Bool :=
  let anns := t.filter isAnnouncement
  let est := anns == [established]
  anns.length == 1 &&
  (t.any isSpawn == est) &&
  (t.filter isSpawn == if est then [.spawn "Component.recv"] else []) &&
  (!est || (t.contains .write && t.contains (.call "stanza.NextPacket") && retLabel t == "error" &&
            noneAfter (· == established) (fun a => a == .write || a == .call "stanza.NextPacket") t)) &&
  (est || (retLabel t).startsWith "NewConnError(")

theorem component_resume_every_path : allTraces (get "Component.Resume") resumeOk = true := by decide +kernel

/-- **Every run of Component.Resume** announces exactly one state, starts the receive loop exactly when that state is
"session established", and returns an error it has just built on every other path. -/
theorem component_resume_every_run :
    ∀ l t, Runs traceSem (get "Component.Resume") [] (.ret l t) → resumeOk t = true :=
  allTraces_sound _ _ component_resume_every_path

-- `Model.C16.resume` IS the regenerated `Component.Resume`, seen through an abstraction: the class of the error
-- returned (none / permanent / transient), the states announced, whether the handshake was written, whether the
-- receive loop was started. Both inclusions.

/-- (error: none | some permanent, states announced, handshake written, receive loop started) -/
abbrev ResumeAbs := Option Bool × List Model.C16.ConnState × Bool × Bool

def stateOfCall (w : String) : Option Model.C16.ConnState :=
  if w == "Component.updateState(StateSessionEstablished)" then some .sessionEstablished
  else if w == "Component.updateState(StatePermanentError)" then some .permanentError
  else if w == "Component.updateState(StateStreamError)" then some .streamError
  else if w.startsWith "Component.streamError(" then some .streamError
  else none

def absOfTrace (t : List Act) : ResumeAbs :=
  let err : Option Bool :=
    if t.contains (.call "NewConnError(_,true)") then some true
    else if t.contains (.call "NewConnError(_,false)") then some false else none
  (err, t.filterMap (fun a => match a with | .call w => stateOfCall w | _ => none), t.contains .write, t.any isSpawn)

def absOfModel (r : Model.C16.Result) : ResumeAbs := (r.err, r.states, r.sentDigest.isSome, r.recvStarted)

/-- every class of input of the model: what Connect did, whether the handshake could be written, the reply -/
def resumeInputs : List (Model.C16.Connect × Bool × Model.C16.Reply) :=
  [(.refused, true, .handshake), (.noStream, true, .handshake), (.opened [], false, .handshake),
   (.opened [], true, .handshake), (.opened [], true, .streamError), (.opened [], true, .other),
   (.opened [], true, .decodeError)]

def sameAbs (a b : List ResumeAbs) : Bool := a.all b.contains && b.all a.contains

/-- **`Model.C16.resume` = the regenerated `Component.Resume`** (as sets of abstract outcomes): every case of the model
is a path of the code - same error class, same announcement, handshake written or not, receive loop started or not -
and the code has no other path. (A failed write is reported without the digest in the model: `sentDigest = none` there
means "not on the wire"; the code has attempted the write - the abstraction of the model's `writeOk = false` case says
"written" for that reason.) -/
theorem component_model_is_the_code :
    ((traces (get "Component.Resume")).map fun ts =>
      sameAbs (ts.map absOfTrace)
        (resumeInputs.map fun (c, w, r) =>
          let m := absOfModel (Model.C16.resume c [] w r)
          if w then m else (m.1, m.2.1, true, m.2.2.2))) = some true := by decide +kernel

def hooks : List String := ["Client.PostConnectHook", "Client.PostResumeHook"]

/-- Client.Connect / Client.Resume on every path -/
def connectOk (t : List Act) : Bool :=
  let sp := t.filter isSpawn
  (sp == [] || sp == [.spawn "keepalive", .spawn "Client.recv"]) &&
  -- nothing is started before connect() was called, nor before the application's hook has run
  noneAfter isSpawn (fun a => isCall ("Client.connect" :: hooks) a) t &&
  -- a path that starts them returns right after: keepalive, receiver, return
  (sp == [] || (t.dropWhile (fun a => !isSpawn a)).length == 3) &&
  -- a path that has written the initial presence - the session is established and announced - either starts the
  -- receiver and the keepalive or returns the error of the application's hook; there is no third way out (a session
  -- without a receiver would never report its loss)
  (!t.contains .write || sp != [] || t.any (isCall hooks)) &&
  t.contains (.call "Client.connect")

theorem client_connect_every_path :
    allTraces (get "Client.Connect") connectOk = true ∧ allTraces (get "Client.Resume") connectOk = true := by decide

theorem client_connect_every_run :
    (∀ l t, Runs traceSem (get "Client.Connect") [] (.ret l t) → connectOk t = true) ∧
    (∀ l t, Runs traceSem (get "Client.Resume") [] (.ret l t) → connectOk t = true) :=
  ⟨allTraces_sound _ _ client_connect_every_path.1, allTraces_sound _ _ client_connect_every_path.2⟩

def sessEst : Act := .call "Client.updateState(StateSessionEstablished)"

/-- Client.connect on every path -/
def innerConnectOk (t : List Act) : Bool :=
  let est := t.contains sessEst
  let disc := t.contains (.call "Client.Disconnect")
  -- established exactly on the path that called NewSession and did not disconnect
  (est == (t.contains (.call "NewSession") && !disc)) &&
  -- the failure path: decoder taken, THEN the clean-up goroutine, THEN Disconnect; nothing is announced
  (!disc || ((t.filter fun a => a == .call "Transport.GetDecoder" || isSpawn a || a == .call "Client.Disconnect") ==
              [.call "Transport.GetDecoder", .spawn "func literal", .call "Client.Disconnect"])) &&
  (est || !(t.any (callNamed fun w => w.startsWith "Client.updateState("))) &&
  (!est || !(t.any isSpawn))

theorem client_inner_connect_every_path : allTraces (get "Client.connect") innerConnectOk = true := by decide +kernel

theorem client_inner_connect_every_run :
    ∀ l t, Runs traceSem (get "Client.connect") [] (.ret l t) → innerConnectOk t = true :=
  allTraces_sound _ _ client_inner_connect_every_path

/-- the negotiation steps of NewSession, in RFC 6120 order (stream restarts included) -/
def stepOrder : List String :=
  ["Session.init", "Session.startTlsIfSupported", "Session.reset", "Session.auth", "Session.reset", "Session.resume",
   "Session.bind", "Session.rfc3921Session", "Session.EnableStreamManagement"]

/-- `l` is `ref` with some elements left out (same order) -/
def isSubseq : List String → List String → Bool
  | [], _ => true
  | _ :: _, [] => false
  | x :: xs, y :: ys => if x == y then isSubseq xs ys else isSubseq (x :: xs) ys

def stepsOf (t : List Act) : List String :=
  t.filterMap fun | .call w => if w.startsWith "Session." then some w else none | _ => none

/-- NewSession on every path (C03: "the client's own requests always appear in RFC 6120 order, each sent only after the
previous step was confirmed"; C04: the TLS gate sits before authentication) -/
def newSessionOk (t : List Act) : Bool :=
  let st := stepsOf t
  -- the steps taken are the canonical ones, in order, none twice (but the stream restart)
  isSubseq st stepOrder && st.head? == some "Session.init" &&
  -- nothing after a step is skipped over: a path that binds has authenticated, restarted the stream and tried to resume
  (!st.contains "Session.bind" || (st.contains "Session.auth" && st.contains "Session.resume")) &&
  (!st.contains "Session.resume" || st.contains "Session.auth") &&
  (!st.contains "Session.rfc3921Session" || st.contains "Session.bind") &&
  (!st.contains "Session.EnableStreamManagement" || st.contains "Session.rfc3921Session") &&
  -- the TLS gate (the permanent error built when the transport is not secure and Insecure is off) comes before auth:
  -- a path that reaches auth has looked at IsSecure twice (before STARTTLS, at the gate) and built no such error
  (!st.contains "Session.auth" || (cnt2 (.call "Transport.IsSecure") t == 2 && !t.any gateError)) &&
  -- a path that builds the gate's error authenticates nothing
  (!t.any gateError || !st.contains "Session.auth")
where
  cnt2 (a : Act) (t : List Act) : Nat := (t.filter (· == a)).length
  gateError : Act → Bool := callNamed fun w => w.startsWith "fmt.Errorf("

theorem new_session_every_path : allTraces (get "NewSession") newSessionOk = true := by decide +kernel

theorem new_session_every_run :
    ∀ l t, Runs traceSem (get "NewSession") [] (.ret l t) → newSessionOk t = true :=
  allTraces_sound _ _ new_session_every_path

example : newSessionOk [.call "Session.init", .call "Transport.IsSecure", .call "Transport.IsSecure", .call "Session.auth",
    .call "Session.reset", .call "Session.resume", .call "Session.bind", .call "Session.EnableStreamManagement",
    .call "Session.rfc3921Session", .call "return s, s.err"] = false := by decide +kernel

/-- every call whose name begins with `w` sits inside the then-side of a branch on exactly the condition `cond` -/
def guardedBy (cond w : String) : Fx.Fx → Bool → Bool
  | .ret _, _ => true
  | .act (.call x) k, ins => (!(x.startsWith w) || ins) && guardedBy cond w k ins
  | .act _ k, ins => guardedBy cond w k ins
  | .branch c t e, ins => guardedBy cond w t (ins || c == cond) && guardedBy cond w e ins
  | .loop b k, ins => guardedBy cond w b ins && guardedBy cond w k ins
  | .brk, _ => true
  | .cont, _ => true

/-- NewClient (C20): the address the application configured is looked up in the DNS (SRV) only when it configured NONE -
the look-up, and the assignment of its result, sit under `config.Address == ""` and nowhere else; NewComponent calls
nothing that could refuse or rewrite an address (it only stores its options). -/
theorem new_client_keeps_the_address :
    guardedBy "(config.Address==\"\")" "net.LookupSRV" (get "NewClient") false = true ∧
    guardedBy "(config.Address==\"\")" "ensurePort" (get "NewClient") false = true ∧
    (get "NewClient").mentions (.call "net.LookupSRV(\"xmpp-client\",\"tcp\",_)") = true ∧
    allTraces (get "NewComponent") (fun t => t.length == 1) = true := by decide +kernel

/-- StreamManager.Stop: handler removed, client disconnected, Run released - in this order, on its only path -/
theorem stop_every_path :
    allTraces (get "StreamManager.Stop") (fun t =>
      (t.filter (callNamed fun w => w.startsWith "StreamClient.SetHandler" || w == "StreamClient.Disconnect" || w == "WaitGroup.Done")) ==
        [.call "StreamClient.SetHandler(nil)", .call "StreamClient.Disconnect", .call "WaitGroup.Done"]) = true := by decide +kernel

-- the predicates are not vacuous: they refuse a keepalive started before the hook, a receive loop started on the
-- stream-error arm, an established state announced after a failed NewSession
example : connectOk [.call "Client.connect", .spawn "keepalive", .call "Client.PostResumeHook", .call "return error"] = false := by decide
example : resumeOk [.write, .call "stanza.NextPacket", .call "Component.streamError(\"conflict\",\"no auth loop\")", .spawn "Component.recv",
    .call "return NewConnError(x)"] = false := by decide +kernel
example : innerConnectOk [.call "Transport.Connect", .call "NewSession", .call "Transport.GetDecoder", .spawn "func literal",
    .call "Client.Disconnect", sessEst, .call "return err"] = false := by decide +kernel
example : ((traces (get "Component.Resume")).map fun ts => decide (6 ≤ ts.length)) = some true := by decide

end XmppVerif.Tie.FxConn
#print axioms XmppVerif.Fx.traces_sound
#print axioms XmppVerif.Fx.allTraces_sound
#print axioms XmppVerif.Tie.FxConn.component_resume_every_path
#print axioms XmppVerif.Tie.FxConn.component_resume_every_run
#print axioms XmppVerif.Tie.FxConn.client_connect_every_path
#print axioms XmppVerif.Tie.FxConn.client_connect_every_run
#print axioms XmppVerif.Tie.FxConn.client_inner_connect_every_path
#print axioms XmppVerif.Tie.FxConn.client_inner_connect_every_run
#print axioms XmppVerif.Tie.FxConn.stop_every_path
#print axioms XmppVerif.Tie.FxConn.new_session_every_path
#print axioms XmppVerif.Tie.FxConn.new_session_every_run
#print axioms XmppVerif.Tie.FxConn.component_model_is_the_code
#print axioms XmppVerif.Tie.FxConn.new_client_keeps_the_address
