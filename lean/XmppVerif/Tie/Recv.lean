import XmppVerif.Gen.RecvSwitch
/-
Tie (regenerated facts) for C05 / C09 / C12: the shape of `Client.recv` and `Component.recv` that the model
`Model/Recv.lean` transcribes. These are the facts a correspondence run cannot establish by sampling: that routing
happens in its own goroutine for the client and synchronously for the component, that the close of the keepalive's quit channel is
deferred and precedes every report of the loss, which case arms return, and which packet types increment the inbound counter.
-/
namespace XmppVerif.Tie.Recv
open XmppVerif.Gen.RecvSwitch

/-- the close of the keepalive's quit channel is deferred (under a sync.Once: `stopKeepalive`), and every exit of the
loop calls it BEFORE it reports the loss (F-18b) -/
theorem tie_client_defers : clientDefers = ["stopKeepalive()"] ∧ clientRecvFuncLits = [["once.Do"]] := by decide
theorem tie_client_err : clientErrBranch = ["stopKeepalive", "c.ErrorHandler", "c.disconnected", "return"] := by decide
theorem tie_client_cases : clientCases =
  [(["stanza.StreamError"], ["c.router.route", "c.streamError", "c.ErrorHandler", "c.Disconnect"]),
   (["stanza.SMRequest"], ["c.Send", "if:stopKeepalive", "if:c.ErrorHandler", "if:c.disconnected", "if:return"]),
   (["stanza.StreamClosePacket"], ["stopKeepalive", "c.transport.ReceivedStreamClose", "c.disconnected", "return"]),
   (["stanza.Message", "stanza.Presence", "*stanza.IQ"], ["c.Session.SMState.Inbound++"])] := by decide
theorem tie_client_after : clientAfterSwitch = ["go c.router.route"] := by decide
theorem tie_component_err : componentErrBranch = ["c.updateState", "c.ErrorHandler", "return"] := by decide
theorem tie_component_cases : componentCases =
  [(["stanza.StreamError"], ["c.router.route", "c.streamError", "c.ErrorHandler", "c.Disconnect"]),
   (["stanza.StreamClosePacket"], ["c.transport.ReceivedStreamClose", "return"])] := by decide
theorem tie_component_after : componentAfterSwitch = ["c.router.route"] := by decide
end XmppVerif.Tie.Recv
#print axioms XmppVerif.Tie.Recv.tie_client_defers
#print axioms XmppVerif.Tie.Recv.tie_client_err
#print axioms XmppVerif.Tie.Recv.tie_client_cases
#print axioms XmppVerif.Tie.Recv.tie_client_after
#print axioms XmppVerif.Tie.Recv.tie_component_err
#print axioms XmppVerif.Tie.Recv.tie_component_cases
#print axioms XmppVerif.Tie.Recv.tie_component_after
