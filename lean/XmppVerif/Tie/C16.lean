import XmppVerif.Gen.Component
import XmppVerif.Model.C16
/-
Tie (regenerated facts) for C16: the shape of `Component.handshake`, `Component.Resume`, `Component.Connect` and of
the attribute loop of `stanza.InitStream` that `Model/C16.lean` transcribes: the format string, the concatenation
order (stream id first), SHA-1 then lower-case hex, which switch arm announces which state, which arm starts the
receive loop, that every failing arm returns a permanent ConnError, and that only the unqualified `id` attribute is
taken as the stream id.
-/
namespace XmppVerif.Tie.C16
open XmppVerif.Gen.Component XmppVerif.Model.C16

/-- `<handshake>%s</handshake>` filled with `c.handshake(streamId)` -/
theorem tie_format :
    handshakeSprintf = ["fmt.Sprintf(\"<handshake>%s</handshake>\",c.handshake(streamId))"] ∧
    handshakeElement ['x'] = "<handshake>x</handshake>".toList := by decide

/-- `concatStr := streamId + c.Secret`; sha1, then hex.EncodeToString (lower case), returned unchanged -/
theorem tie_digest :
    handshakeConcat = ["streamId", "c.Secret"] ∧
    handshakeActions = ["sha1.New", "h.Write", "[]byte", "h.Sum", "hex.EncodeToString", "return"] ∧
    handshakeReturns = ["encodedStr"] := by decide

/-- the reply switch: arms, the state each announces, and the arm that starts the receive loop -/
theorem tie_resume_switch : resumeSwitch =
    [(["stanza.StreamError"],
      ["c.streamError(\"conflict\",\"no auth loop\")",
       "return NewConnError(errors.New((\"handshake failed \"+v.Error.Local)),true)"]),
     (["stanza.Handshake"], ["c.updateState(StateSessionEstablished)", "go c.recv()", "return err"]),
     (["default"],
      ["c.updateState(StatePermanentError)",
       "return NewConnError(errors.New((\"expecting handshake result, got \"+v.Name())),true)"])] := by decide

/-- the whole flow of Resume: transport, connect, write, read, switch; `go c.recv` occurs once, in the handshake arm -/
theorem tie_resume_actions : resumeActions =
    ["NewComponentTransport", "if:c.updateState", "if:NewConnError", "if:return",
     "c.transport.Connect", "if:c.updateState", "if:NewConnError", "if:return",
     "c.sendWithWriter", "[]byte", "fmt.Sprintf", "c.handshake", "if:c.updateState", "if:NewConnError", "if:err.Error",
     "if:return",
     "stanza.NextPacket", "c.transport.GetDecoder", "if:c.updateState", "if:NewConnError", "if:return",
     "case(stanza.StreamError):c.streamError", "case(stanza.StreamError):NewConnError", "case(stanza.StreamError):return",
     "case(stanza.Handshake):c.updateState", "case(stanza.Handshake):go c.recv", "case(stanza.Handshake):return",
     "case():c.updateState", "case():NewConnError", "case():v.Name", "case():return"] := by decide

theorem tie_connect : connectBody = ["return c.Resume()"] := by decide

/-- only an attribute without namespace named `id` sets the stream id (model: `streamIdOf`) -/
theorem tie_init_stream : initStreamAttrLoop =
    ["elem.Attr", "if (attrs.Name.Space!=\"\") {continue}",
     "switch attrs.Name.Local {case \"id\": sessionID=attrs.Value}"] := by decide

/-- the numeric codes of the states are the model's -/
theorem tie_states :
    stateConsts = ["StateDisconnected", "StateResuming", "StateSessionEstablished", "StateStreamError",
                   "StatePermanentError"] ∧
    [ConnState.disconnected, .resuming, .sessionEstablished, .streamError, .permanentError].map ConnState.code =
      [0, 1, 2, 3, 4] := by decide

end XmppVerif.Tie.C16
#print axioms XmppVerif.Tie.C16.tie_format
#print axioms XmppVerif.Tie.C16.tie_digest
#print axioms XmppVerif.Tie.C16.tie_resume_switch
#print axioms XmppVerif.Tie.C16.tie_resume_actions
#print axioms XmppVerif.Tie.C16.tie_connect
#print axioms XmppVerif.Tie.C16.tie_init_stream
#print axioms XmppVerif.Tie.C16.tie_states
