import XmppVerif.GoRT
import XmppVerif.Gen.TrRoot
import XmppVerif.Model.C06
/-
Tie by TRANSLATION for C06: the bodies of `matchInArray`, `nameMatcher.Match`, `nsTypeMatcher.Match`,
`nsIQMatcher.Match` (type switches over `stanza.Packet`, represented as the sum Message | *IQ | Presence | other),
`Route.Match` (dynamic dispatch over the `Matcher` interface, the sum of the three matcher types; it assigns through its
pointer parameter `match`) and `Router.Match` (router.go), translated to Lean by go/extract/tr.go on every run, are
proved equal to `Model.C06`: a matcher accepts exactly what the model says, a route accepts exactly when all its
matchers do, and the router reports the FIRST route that accepts - for all route tables and all packets.
-/
namespace XmppVerif.Tie.TrRouter
open XmppVerif XmppVerif.Gen.TrRoot XmppVerif.Model.C06

def concAttrs (p : Pkt) : stanza_Attrs := { «Type» := p.type.toList, Id := p.id.toList, From := p.from_.toList, To := p.to.toList }

def concPkt (p : Pkt) : stanza_Packet :=
  match p.kind with
  | .message => .Message { Attrs := concAttrs p }
  | .presence => .Presence { Attrs := concAttrs p }
  | .iq => .IQ { Attrs := concAttrs p,
                 Payload := match p.payloadNs with
                   | some n => { isNil := false, Namespace := n.toList }
                   | none => stanza_IQPayload.nil }
  | .other => .other

def concM : Model.C06.Matcher → Gen.TrRoot.Matcher
  | .name n => .nameMatcher n.toList
  | .stype ts => .nsTypeMatcher (ts.map String.toList)
  | .iqns ns => .nsIQMatcher (ns.map String.toList)

def concR (r : Model.C06.Route) : Gen.TrRoot.Route := { matchers := r.map concM }

theorem toList_beq (a b : String) : (a.toList == b.toList) = (a == b) := by
  by_cases h : a = b
  · subst h; simp
  · have : ¬ a.toList = b.toList := fun e => h (String.toList_inj.mp e)
    have h1 : (a.toList == b.toList) = false := beq_eq_false_iff_ne.mpr this
    have h2 : (a == b) = false := beq_eq_false_iff_ne.mpr h
    rw [h1, h2]

theorem matchInArray_loop (v : String) : ∀ (arr : List String) (i : Int),
    GoRT.forEachAux (ρ := Bool) (fun (_ : Int) str () => if (str == v.toList) then GoRT.Step.ret true else GoRT.Step.next ())
      i (arr.map String.toList) () = if arr.any (· == v) then GoRT.Done.ret true else GoRT.Done.fin ()
  | [], _ => by simp [GoRT.forEachAux]
  | a :: as, i => by
    have ih := matchInArray_loop v as (i + 1)
    simp only [List.map_cons, GoRT.forEachAux, toList_beq, List.any_cons]
    by_cases h : (a == v) = true
    · simp [h]
    · have hf : (a == v) = false := by simpa using h
      simp only [hf, Bool.false_eq_true, ↓reduceIte, Bool.false_or]
      exact ih

theorem tr_matchInArray (arr : List String) (v : String) :
    Gen.TrRoot.matchInArray (arr.map String.toList) v.toList = Model.C06.matchInArray arr v := by
  unfold Gen.TrRoot.matchInArray Model.C06.matchInArray GoRT.forEach
  rw [matchInArray_loop]
  by_cases h : arr.any (· == v) = true <;> simp [h]

theorem lit_message : (['m', 'e', 's', 's', 'a', 'g', 'e'] : List Char) = "message".toList := rfl
theorem lit_iq : (['i', 'q'] : List Char) = "iq".toList := rfl
theorem lit_presence : (['p', 'r', 'e', 's', 'e', 'n', 'c', 'e'] : List Char) = "presence".toList := rfl
theorem lit_normal : (['n', 'o', 'r', 'm', 'a', 'l'] : List Char) = "normal".toList := rfl
theorem lit_empty : (default : List Char) = "".toList := rfl

/-- each matcher accepts exactly what the model's matcher accepts (whatever the `match` argument holds) -/
theorem tr_Matcher_Match (m : Model.C06.Matcher) (p : Pkt) (rm : RouteMatch) :
    Matcher_Match (concM m) (concPkt p) rm = m.accepts p := by
  obtain ⟨kind, type, pns, id, fr, to⟩ := p
  cases m with
  | name n =>
    cases kind <;>
      simp only [concM, Matcher_Match, nameMatcher_Match, Matcher.accepts, concPkt, pktName, lit_message, lit_iq,
        lit_presence, lit_empty, toList_beq] <;>
      cases h : (_ == n) <;> simp
  | stype ts =>
    cases kind
    · -- message
      simp only [concM, Matcher_Match, nsTypeMatcher_Match, Matcher.accepts, concPkt, concAttrs, lit_normal]
      rw [show ([] : List Char) = "".toList from rfl, toList_beq]
      by_cases ht : (type == "") = true
      · simp only [ht, ↓reduceIte, tr_matchInArray]
      · have hf : (type == "") = false := by simpa using ht
        simp only [hf, Bool.false_eq_true, ↓reduceIte, tr_matchInArray]
    · simp only [concM, Matcher_Match, nsTypeMatcher_Match, Matcher.accepts, concPkt, concAttrs, tr_matchInArray]
    · simp only [concM, Matcher_Match, nsTypeMatcher_Match, Matcher.accepts, concPkt, concAttrs, tr_matchInArray]
    · simp only [concM, Matcher_Match, nsTypeMatcher_Match, Matcher.accepts, concPkt]
  | iqns ns =>
    cases kind
    · simp [concM, Matcher_Match, nsIQMatcher_Match, Matcher.accepts, concPkt]
    · simp [concM, Matcher_Match, nsIQMatcher_Match, Matcher.accepts, concPkt]
    · cases pns with
      | none => simp [concM, Matcher_Match, nsIQMatcher_Match, Matcher.accepts, concPkt, stanza_IQPayload.nil]
      | some n => simp [concM, Matcher_Match, nsIQMatcher_Match, Matcher.accepts, concPkt, tr_matchInArray]
    · simp [concM, Matcher_Match, nsIQMatcher_Match, Matcher.accepts, concPkt]

theorem route_loop (p : Pkt) (rm : RouteMatch) : ∀ (ms : List Model.C06.Matcher) (i : Int),
    GoRT.forEachAux (ρ := Bool × RouteMatch) (fun (_ : Int) m () =>
        let matched := Matcher_Match m (concPkt p) rm
        if (!matched) then GoRT.Step.ret (false, rm) else GoRT.Step.next ()) i (ms.map concM) ()
      = if ms.all (·.accepts p) then GoRT.Done.fin () else GoRT.Done.ret (false, rm)
  | [], _ => by simp [GoRT.forEachAux]
  | m :: ms, i => by
    have ih := route_loop p rm ms (i + 1)
    simp only [List.map_cons, GoRT.forEachAux, tr_Matcher_Match, List.all_cons]
    by_cases h : m.accepts p = true
    · simp only [h, Bool.not_true, Bool.false_eq_true, ↓reduceIte, Bool.true_and]
      exact ih
    · have hf : m.accepts p = false := by simpa using h
      simp [hf]

/-- a route accepts exactly when all its matchers do; only then is the route recorded in `match` -/
theorem tr_Route_Match (r : Model.C06.Route) (p : Pkt) (rm : RouteMatch) :
    Route_Match (concR r) (concPkt p) rm =
      if Route.accepts r p then (true, { rm with Route := concR r }) else (false, rm) := by
  unfold Route_Match GoRT.forEach Route.accepts
  simp only [concR]
  rw [route_loop]
  by_cases h : r.all (·.accepts p) = true <;> simp [h]

theorem router_loop (p : Pkt) : ∀ (rs : List Model.C06.Route) (i : Int) (rm : RouteMatch),
    GoRT.forEachAux (ρ := Bool × RouteMatch) (fun (_ : Int) route (m : RouteMatch) =>
        let (cond1, m) := Route_Match route (concPkt p) m
        if cond1 then GoRT.Step.ret (true, m) else GoRT.Step.next m) i (rs.map concR) rm
      = match rs.find? (·.accepts p) with
        | some r => GoRT.Done.ret (true, { rm with Route := concR r })
        | none => GoRT.Done.fin rm
  | [], _, _ => by simp [GoRT.forEachAux]
  | r :: rs, i, rm => by
    have ih := router_loop p rs (i + 1) rm
    simp only [List.map_cons, GoRT.forEachAux, tr_Route_Match, List.find?_cons]
    by_cases h : Route.accepts r p = true
    · simp [h]
    · have hf : Route.accepts r p = false := by simpa using h
      simp only [hf, Bool.false_eq_true, ↓reduceIte]
      exact ih

/-- **First match, translated code**: `Router.Match` returns true exactly when some route accepts the packet, and then
`match.Route` is the FIRST such route in registration order; otherwise `match` is untouched. -/
theorem tr_Router_Match (rs : List Model.C06.Route) (p : Pkt) (rm : RouteMatch) :
    Router_Match { routes := rs.map concR } (concPkt p) rm =
      match rs.find? (·.accepts p) with
      | some r => (true, { rm with Route := concR r })
      | none => (false, rm) := by
  unfold Router_Match GoRT.forEach
  simp only
  rw [router_loop]
  cases rs.find? (·.accepts p) <;> simp

/-- the model's `dispatch` (an index) names the same route -/
theorem dispatch_find (rs : List Model.C06.Route) (p : Pkt) :
    (dispatch rs p).bind (rs[·]?) = rs.find? (·.accepts p) := by
  unfold dispatch
  induction rs with
  | nil => simp
  | cons r rs ih =>
    simp only [List.findIdx?_cons, List.find?_cons]
    by_cases h : Route.accepts r p = true
    · simp [h]
    · have hf : Route.accepts r p = false := by simpa using h
      simp only [hf, Bool.false_eq_true, ↓reduceIte]
      rw [← ih]
      cases List.findIdx? (fun x => Route.accepts x p) rs <;> simp

end XmppVerif.Tie.TrRouter
#print axioms XmppVerif.Tie.TrRouter.tr_matchInArray
#print axioms XmppVerif.Tie.TrRouter.tr_Matcher_Match
#print axioms XmppVerif.Tie.TrRouter.tr_Route_Match
#print axioms XmppVerif.Tie.TrRouter.tr_Router_Match
#print axioms XmppVerif.Tie.TrRouter.dispatch_find
