import XmppVerif.Gen.Consts
import XmppVerif.Model.C20
/- Tie (regenerated facts): default port literal and scheme prefixes in transport.go, bracket test in network.go. -/
namespace XmppVerif.Tie.C20
open XmppVerif.Gen.Consts
theorem tie_default_port :
    clientDefaultPort = XmppVerif.Model.C20.defaultPort ∧ componentDefaultPort = XmppVerif.Model.C20.defaultPort := by decide
theorem tie_ws_prefixes :
    clientWsPrefixes = ["ws:", "wss:"] ∧ componentWsPrefixes = ["ws:", "wss:"] ∧ ensurePortPrefix = ["["] := by decide
end XmppVerif.Tie.C20
#print axioms XmppVerif.Tie.C20.tie_default_port
#print axioms XmppVerif.Tie.C20.tie_ws_prefixes
