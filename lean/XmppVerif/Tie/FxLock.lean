import XmppVerif.Fx
import XmppVerif.Gen.Fx
/-
Tie (regenerated MODEL, call graph): no lock class is taken again while it is held - across function boundaries.

`Tie.Fx.fx_every_run` is about one body at a time: a callee that takes a lock its caller holds is invisible there
(Go's mutexes are not re-entrant: that is a self-deadlock - the seeded changes C05-g1 and C10-n2 were of this kind).
Here the skeleton of EVERY function of both packages is regenerated (`Gen.Fx.fns`: the call graph), `mayLock` decides -
over-approximating - whether a call may end up acquiring a class, and the policy `noRelock` refuses, in the verified
lock analysis, every call that may re-acquire a class held at that point. `fx_no_relock_every_run` is then a theorem
about every run of every locking function.

`mayLock cls w`: the call `w` may acquire `cls` if the body of the function it names does, directly or through its own
calls (to a depth of 6; beyond that: yes). A call of an interface method stands for its implementations
(`Gen.Fx.impls`, from go/types). Two refinements keep it precise enough to hold on the code as it is:
  * a call whose argument is an empty composite literal (`Send(stanza.SMRequest{})`) enters the callee with its type
    switches resolved for that type (`specialise`): `Client.Send` takes the queue lock for stanzas, not for `<r/>`;
  * after `v, ok := x.(*T)` the else side of the branch on `ok` knows that the dynamic type is not `T`: interface calls
    there stand for the other implementations (`resendStz` writes directly for a *Client and calls `SendRaw` - which
    would lock - only for other senders).
A function whose body is outside the extractor's subset, or that is not part of the two packages (library code, the
application's handlers), is taken for one that locks nothing of ours - except that application handlers are never called
under the router's lock (`Tie.Fx.pol`) and nothing but queue methods, the retransmission and the request is called under
the queue's (`queue_calls_under_lock`).
-/
namespace XmppVerif.Tie.FxLock
open XmppVerif.Fx XmppVerif.Gen.Fx

def infixOf (p : List Char) : List Char → Bool
  | [] => p.isEmpty
  | c :: r => p.isPrefixOf (c :: r) || infixOf p r

/-- resolve the type switches of a body for a known dynamic type of the value switched on -/
def specialise (ty : String) : Fx.Fx → Fx.Fx
  | .branch c t e =>
    if c.startsWith "type switch: case " then
      (if infixOf ("stanza." ++ ty).toList c.toList then specialise ty t else specialise ty e)
    else .branch c (specialise ty t) (specialise ty e)
  | .act a k => .act a (specialise ty k)
  | .loop b k => .loop (specialise ty b) (specialise ty k)
  | x => x

def beforeCh (c : Char) : List Char → List Char
  | [] => []
  | x :: r => if x == c then [] else x :: beforeCh c r

def afterCh (c : Char) : List Char → Option (List Char)
  | [] => none
  | x :: r => if x == c then some r else afterCh c r

/-- split `Type.Method(Arg{})` into the callee's name and the type of an empty-literal argument -/
def splitCall (w : String) : String × Option String :=
  let cs := w.toList
  let b := String.ofList (beforeCh '(' cs)
  match afterCh '(' cs with
  | none => (b, none)
  | some a =>
    (b, if infixOf "{}".toList a then some (String.ofList (beforeCh '{' a)) else none)

/-- the functions a call name may stand for: itself, the stanza package's function of that name, or - for an interface
method - that method of every implementation not excluded -/
def targets (excl : List String) (b : String) : List String :=
  let cs := b.toList
  match afterCh '.' cs with
  | some m =>
    match XmppVerif.Gen.Fx.impls.lookup (String.ofList (beforeCh '.' cs)) with
    | some is => (is.filter fun i => !excl.contains i).map (· ++ "." ++ String.ofList m)
    | none => [b, "stanza/" ++ b]
  | none => [b, "stanza/" ++ b]

/-- does this body acquire `cls`, given an oracle for its calls; `excl`: dynamic types excluded by a failed type assertion -/
def bodyMayLock (cls : String) (callMay : List String → String → Bool) : List String → Fx.Fx → Bool
  | _, .ret _ => false
  | ex, .act (.lock c) k => c == cls || bodyMayLock cls callMay ex k
  | ex, .act (.call w) (.branch c t e) =>
    if w.startsWith "@assert " && c == "ok" then
      bodyMayLock cls callMay ex t || bodyMayLock cls callMay ((w.drop 8).toString :: ex) e
    else callMay ex w || bodyMayLock cls callMay ex t || bodyMayLock cls callMay ex e
  | ex, .act (.call w) k => callMay ex w || bodyMayLock cls callMay ex k
  | ex, .act _ k => bodyMayLock cls callMay ex k           -- a goroutine started is another thread
  | ex, .branch _ t e => bodyMayLock cls callMay ex t || bodyMayLock cls callMay ex e
  | ex, .loop b k => bodyMayLock cls callMay ex b || bodyMayLock cls callMay ex k
  | _, .brk => false
  | _, .cont => false

/-- may the call `w` acquire `cls` (to the given depth of the call graph; at depth 0: yes) -/
def mayLock (cls : String) : Nat → List String → String → Bool
  | 0, _, _ => true
  | n + 1, excl, w =>
    let (b, arg) := splitCall w
    (targets excl b).any fun f =>
      match XmppVerif.Gen.Fx.fns.lookup f with
      | none => false
      | some body =>
        let body := match arg with | some ty => specialise ty body | none => body
        bodyMayLock cls (mayLock cls n) [] body

/-- the lock classes of the library -/
def classes : List String := ["UnAckQueue", "Router.IQResultRouteLock", "SyncConnState", "SyncConnState:R"]

/-- the policy: while a class is held, no call that may acquire it again. The type assertion of `resendStz` is seen by
`bodyMayLock` when `resendStz` is entered as a callee; at the top level the policy looks at each call on its own. -/
def noRelock : Policy := fun a held =>
  match a with
  | .call w => held.all fun c => !(classes.contains c && mayLock c 6 [] w)
  | _ => true

/-- both policies at once -/
def pol : Policy := fun a held => noRelock a held && polQuiet "Router.IQResultRouteLock" ["delete"] a held

theorem fx_no_relock : XmppVerif.Gen.Fx.all.all (fun f => balanced pol f.2) = true := by decide +kernel

/-- **No self-deadlock**: on every run of every function that takes a lock, no call is made - while a lock class is
held - that may acquire that class again, however deep in the call graph, through whichever implementation of an
interface; and every lock is released at return. -/
theorem fx_no_relock_every_run (name : String) (f : Fx.Fx) (hm : (name, f) ∈ XmppVerif.Gen.Fx.all) :
    ∀ l s, Runs (lockSem pol) f {} (.ret l s) → s.held = [] ∧ s.bad = false :=
  balanced_sound pol f (List.all_eq_true.mp fx_no_relock (name, f) hm)

/-- the analysis is precise where it has to be, and not vacuous -/
theorem may_lock_facts :
    -- sending a stanza takes the queue lock; sending the acknowledgement request does not
    mayLock "UnAckQueue" 6 [] "Sender.Send" = true ∧
    mayLock "UnAckQueue" 6 [] "Sender.Send(SMRequest{})" = false ∧
    mayLock "UnAckQueue" 6 [] "Sender.Send(SMAnswer{})" = false ∧
    mayLock "UnAckQueue" 6 [] "Sender.SendRaw" = true ∧
    mayLock "UnAckQueue" 6 [] "Component.SendRaw" = false ∧
    -- the retransmission helper: a *Client is written to directly, other senders through SendRaw
    mayLock "UnAckQueue" 6 [] "resendStz" = false ∧
    mayLock "UnAckQueue" 6 [] "SendMissingStz" = true ∧
    mayLock "UnAckQueue" 6 [] "Router.route" = true ∧
    mayLock "Router.IQResultRouteLock" 6 [] "Sender.SendIQ" = true ∧
    mayLock "Router.IQResultRouteLock" 6 [] "Sender.Send" = false := by decide +kernel

end XmppVerif.Tie.FxLock
#print axioms XmppVerif.Tie.FxLock.fx_no_relock
#print axioms XmppVerif.Tie.FxLock.fx_no_relock_every_run
#print axioms XmppVerif.Tie.FxLock.may_lock_facts
