import XmppVerif.Gen.Consts
import XmppVerif.Model.C15
/- Tie (regenerated facts): the forbidden-rune lists of isUsernameValid / isDomainValid in stanza/jid.go. -/
namespace XmppVerif.Tie.C15
open XmppVerif.Gen.Consts
theorem tie_forbidden :
    jidUserForbidden = XmppVerif.Model.C15.userForbidden.map Char.toNat ∧
    jidDomainForbidden = XmppVerif.Model.C15.domainForbidden.map Char.toNat := by decide
end XmppVerif.Tie.C15
#print axioms XmppVerif.Tie.C15.tie_forbidden
