import XmppVerif.Gen.C01
import XmppVerif.Model.C01Stanza
/-
Tie (regenerated facts) for C01: what go/extract reads off stanza/*.go on every run equals what the model assumes:
the struct tags of the eight reflection-coded nonzas (as schemas), SMFailed's tagged name and `h` attribute, the
TypeRegistry.MapExtension calls, the case labels of SMFailed.UnmarshalXML with the XMLName tags of the types they
decode into, the attribute names read by the hand-written loops of Message / Presence / IQ / Err.
-/
namespace XmppVerif.Tie.C01
open XmppVerif.Model.C01

abbrev RawSchema := String × String × List (String × String × Bool) × Bool

def kindOf : String × String × Bool → Option Field
  | (n, "string", om) => some ⟨n.toList, .str om⟩
  | (n, "uint", om) => some ⟨n.toList, .uint om⟩
  | (n, "*uint", true) => some ⟨n.toList, .uintPtr⟩
  | (n, "*bool", true) => some ⟨n.toList, .boolPtr⟩
  | _ => none

def interp (r : RawSchema) : Option Schema :=
  (r.2.2.1.mapM kindOf).map fun fs => ⟨⟨r.1.toList, r.2.1.toList⟩, fs, r.2.2.2⟩

theorem tie_schemas :
    interp Gen.C01.schemaSMEnable = some schemaSMEnable ∧ interp Gen.C01.schemaSMEnabled = some schemaSMEnabled ∧
    interp Gen.C01.schemaSMRequest = some schemaSMRequest ∧ interp Gen.C01.schemaSMAnswer = some schemaSMAnswer ∧
    interp Gen.C01.schemaSMResumed = some schemaSMResumed ∧ interp Gen.C01.schemaSMResume = some schemaSMResume ∧
    interp Gen.C01.schemaSASLAuth = some schemaSASLAuth ∧ interp Gen.C01.schemaHandshake = some schemaHandshake := by
  decide

/-- SMFailed: name, the `h` attribute (*uint, omitempty), then the untagged interface field -/
theorem tie_smfailed_struct :
    Gen.C01.schemaSMFailed = ("urn:xmpp:sm:3", "failed", [("h", "*uint", true), ("<unsupported:StreamErrorGroup>", "", false)], false) ∧
    nsSM = "urn:xmpp:sm:3".toList := by decide

theorem tie_registry : Gen.C01.registry.map (fun e => (e.1, e.2.1, e.2.2.1)) = registry := by decide

theorem tie_smfailed_cases :
    Gen.C01.smFailedCases.map (fun p => p.1.toList) = smFailedConds ∧
    Gen.C01.smFailedCases.all (fun p => p.2 == String.ofList nsStanzas ++ " " ++ p.1) = true := by decide

theorem tie_attr_loops :
    Gen.C01.attrsReadMessage = ["id", "type", "to", "from", "lang"] ∧
    Gen.C01.attrsReadPresence = ["id", "type", "to", "from", "lang"] ∧
    Gen.C01.attrsReadIQ = ["id", "type", "to", "from", "lang"] ∧
    Gen.C01.attrsReadErr = ["type", "code"] := by decide

end XmppVerif.Tie.C01
#print axioms XmppVerif.Tie.C01.tie_schemas
#print axioms XmppVerif.Tie.C01.tie_smfailed_struct
#print axioms XmppVerif.Tie.C01.tie_registry
#print axioms XmppVerif.Tie.C01.tie_smfailed_cases
#print axioms XmppVerif.Tie.C01.tie_attr_loops
