import XmppVerif.Gen.SessionSteps
/-
Tie (regenerated facts) for C03 / C04 / C11: the order of the steps in `NewSession` with their early returns, the
shape of `Client.connect`, and - the security-critical part - where `XMPPTransport.isSecure` is assigned:
reset before every dial (fix F-04), and set to true in `StartTLS` only after `Handshake` and `VerifyHostname`.
-/
namespace XmppVerif.Tie.Neg
open XmppVerif.Gen.SessionSteps

theorem tie_newSession : newSession =
  ["if:s.init", "else:s.init", "if:NewConnError", "if:return", "if:s.startTlsIfSupported", "if:fmt.Errorf",
   "if:NewConnError", "if:return", "if:s.reset", "s.auth", "if:return", "s.reset", "if:return", "if:return",
   "s.bind", "if:return", "s.rfc3921Session", "if:return", "s.EnableStreamManagement", "if:return", "return"] := by decide

theorem tie_clientConnect : clientConnect =
  ["c.transport.Connect", "if:return", "NewSession", "if:c.transport.GetDecoder", "if:go func{…}", "if:c.Disconnect", "if:return",
   "c.updateState", "return"] := by decide

theorem tie_connect_resets_secure : transportConnectSecure = ["t.isSecure=false", "net.DialTimeout", "t.StartStream"] := by decide

theorem tie_starttls_secure_last :
    transportStartTLSSecure = ["tlsConn.Handshake", "t.isSecure=false", "tlsConn.VerifyHostname", "t.isSecure=true"] := by decide

end XmppVerif.Tie.Neg
#print axioms XmppVerif.Tie.Neg.tie_newSession
#print axioms XmppVerif.Tie.Neg.tie_clientConnect
#print axioms XmppVerif.Tie.Neg.tie_connect_resets_secure
#print axioms XmppVerif.Tie.Neg.tie_starttls_secure_last
