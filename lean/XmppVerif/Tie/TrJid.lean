import XmppVerif.GoRT
import XmppVerif.Gen.TrStanza
import XmppVerif.Model.C15
import XmppVerif.Props.C15
/-
Tie by TRANSLATION for C15: the bodies of `NewJid`, `Jid.Full`, `Jid.Bare`, `isUsernameValid`, `isDomainValid` and
`isInvalid` (stanza/jid.go), translated to Lean by go/extract/tr.go on every run (`Gen/TrStanza.lean`), are proved
equal to the hand-written model `Model.C15`, for ALL strings of code points.
-/
namespace XmppVerif.Tie.TrJid
open XmppVerif XmppVerif.Model.C15

def concJ (m : Model.C15.Jid) : Gen.TrStanza.Jid := { isNil := false, Node := m.node, Domain := m.domain, Resource := m.resource }

theorem isSpace_eq (c : Char) : GoRT.unicode_IsSpace c = isSpace c := rfl

theorem forEach_contains (c : Char) : ∀ (bad : List Char) (i : Int),
    GoRT.forEachAux (ρ := Bool) (fun (_ : Int) r () => if (c == r) then GoRT.Step.ret true else GoRT.Step.next ()) i bad ()
      = if bad.contains c then GoRT.Done.ret true else GoRT.Done.fin ()
  | [], _ => by simp [GoRT.forEachAux]
  | r :: rs, i => by
    have ih := forEach_contains c rs (i + 1)
    unfold GoRT.forEachAux
    by_cases h : c = r
    · subst h; simp
    · have hb : (c == r) = false := by simpa using h
      have hr : (r == c) = false := by simpa using fun e : r = c => h e.symm
      simp only [hb, Bool.false_eq_true, ↓reduceIte]
      rw [ih]
      simp [List.contains_cons, h]

theorem isInvalid_eq (bad : List Char) (c : Char) : Gen.TrStanza.isInvalid bad c = invalidIn bad c := by
  unfold Gen.TrStanza.isInvalid invalidIn
  simp only [isSpace_eq, GoRT.forEach]
  rw [forEach_contains]
  by_cases hs : isSpace c = true
  · simp [hs]
  · by_cases hc : bad.contains c = true
    · simp only [hs, hc, ↓reduceIte]; simp
    · simp only [hs, hc, ↓reduceIte]; simp

theorem indexFuncGo_spec (f : Char → Bool) : ∀ (s : List Char) (i : Int), 0 ≤ i →
    (GoRT.indexFuncGo f s i < 0 ↔ s.all (fun c => !f c) = true) ∧ (GoRT.indexFuncGo f s i < 0 ∨ i ≤ GoRT.indexFuncGo f s i)
  | [], i, hi => by simp [GoRT.indexFuncGo]
  | c :: cs, i, hi => by
    have ih := indexFuncGo_spec f cs (i + 1) (by omega)
    simp only [GoRT.indexFuncGo]
    by_cases h : f c = true
    · simp [h]; omega
    · simp only [h, Bool.false_eq_true, ↓reduceIte, List.all_cons, Bool.not_eq_true] at *
      constructor
      · simpa [h] using ih.1
      · rcases ih.2 with h2 | h2
        · exact Or.inl h2
        · exact Or.inr (by omega)

theorem indexFunc_neg (f : Char → Bool) (s : List Char) :
    decide (GoRT.strings_IndexFunc s f < 0) = s.all (fun c => !f c) := by
  have := (indexFuncGo_spec f s 0 (by omega)).1
  unfold GoRT.strings_IndexFunc
  by_cases h : GoRT.indexFuncGo f s 0 < 0
  · simp [h, this.mp h]
  · have : ¬ (s.all (fun c => !f c) = true) := fun e => h (this.mpr e)
    simp [h, this]

theorem tr_isUsernameValid (u : List Char) : Gen.TrStanza.isUsernameValid u = isUsernameValid u := by
  unfold Gen.TrStanza.isUsernameValid isUsernameValid
  rw [indexFunc_neg]
  congr 1; funext c; rw [isInvalid_eq]; rfl

theorem tr_isDomainValid (d : List Char) : Gen.TrStanza.isDomainValid d = isDomainValid d := by
  unfold Gen.TrStanza.isDomainValid isDomainValid
  cases d with
  | nil => simp [GoRT.len]
  | cons x xs =>
    have h0 : ¬ (((xs.length : Int) + 1) = 0) := by omega
    simp only [GoRT.len, List.length_cons, Int.natCast_add, Int.cast_ofNat_Int, beq_iff_eq, h0, ↓reduceIte, indexFunc_neg]
    simp only [List.isEmpty_cons, Bool.not_false, Bool.true_and]
    congr 1; funext c; rw [isInvalid_eq]; rfl

theorem cut_single (c : Char) : ∀ s : List Char, GoRT.cut [c] s = splitFirst c s
  | [] => by simp [GoRT.cut, splitFirst]
  | x :: xs => by
    have ih := cut_single c xs
    simp only [GoRT.cut, splitFirst, List.isPrefixOf, ih]
    by_cases h : x = c
    · subst h; simp
    · have : ¬ c = x := fun e => h e.symm
      simp [h, this]

theorem splitN2 (c : Char) (s : List Char) : GoRT.strings_SplitN s [c] 2 =
    match splitFirst c s with
    | (a, none) => [a]
    | (a, some b) => [a, b] := by
  have h1 : GoRT.strings_SplitN s [c] 2 = GoRT.splitGo [c] 1 s := by simp [GoRT.strings_SplitN]
  rw [h1, GoRT.splitGo, cut_single]
  rcases h : splitFirst c s with ⟨a, _ | b⟩ <;> simp [GoRT.splitGo]

theorem tr_Bare (m : Model.C15.Jid) : Gen.TrStanza.Jid_Bare (concJ m) = bare m := by
  unfold Gen.TrStanza.Jid_Bare bare
  by_cases h : m.node = [] <;> simp [concJ, h]

theorem tr_Full (m : Model.C15.Jid) : Gen.TrStanza.Jid_Full (concJ m) = full m := by
  unfold Gen.TrStanza.Jid_Full full
  rw [tr_Bare]
  by_cases h : m.resource = [] <;> by_cases h2 : m.node = [] <;> simp [concJ, h, h2]

theorem splitFirst_none (c : Char) : ∀ (s a : List Char), splitFirst c s = (a, none) → a = s
  | [], a, h => by simp [splitFirst] at h; exact h
  | x :: xs, a, h => by
    simp only [splitFirst] at h
    by_cases hx : x = c
    · simp [hx] at h
    · simp only [hx, ↓reduceIte, Prod.mk.injEq] at h
      have := splitFirst_none c xs (splitFirst c xs).1 (by rw [← h.2])
      rw [← h.1, this]

theorem jid_default : (default : Gen.TrStanza.Jid) = { isNil := false, Node := [], Domain := [], Resource := [] } := rfl

theorem idx0 (a : List Char) (l : List (List Char)) : GoRT.idx (a :: l) 0 = a := by simp [GoRT.idx]
theorem idx1 (a b : List Char) (l : List (List Char)) : GoRT.idx (a :: b :: l) 1 = b := by simp [GoRT.idx]

/-- `NewJid`: the error flag is exactly "the model rejects", and on success the fields are the model's. -/
theorem tr_NewJid (s : List Char) :
    (Gen.TrStanza.NewJid s).2 = (if (newJid s).isNone then GoRT.Err.plain else GoRT.Err.none) ∧ ∀ m, newJid s = some m → (Gen.TrStanza.NewJid s).1 = concJ m := by
  unfold Gen.TrStanza.NewJid newJid afterAt finish
  simp only [splitN2, tr_isUsernameValid, tr_isDomainValid, jid_default]
  by_cases hs : s = []
  · simp [hs]
  · simp only [hs, beq_iff_eq, ↓reduceIte]
    rcases h1 : splitFirst '@' s with ⟨a, _ | rest⟩
    · -- no '@': a domain JID
      simp only [GoRT.len, List.length_singleton, idx0]
      rcases h2 : splitFirst '/' a with ⟨d, _ | r⟩
      · have hd := splitFirst_none '/' a d h2
        subst hd
        simp only [h2, idx0, idx1]
        cases hu : isUsernameValid ([] : List Char) <;> cases hv : isDomainValid d <;> simp [hu, hv, concJ]
      · simp only [h2, idx0, idx1]
        cases hu : isUsernameValid ([] : List Char) <;> cases hv : isDomainValid d <;> simp [hu, hv, concJ]
    · simp only [GoRT.len, idx0, idx1]
      by_cases ha : a = []
      · simp [ha]
      · by_cases hr : rest = []
        · simp [ha, hr]
        · rcases h2 : splitFirst '/' rest with ⟨d, _ | r⟩
          · have hd := splitFirst_none '/' rest d h2
            subst hd
            simp only [h2, idx0, idx1]
            cases hu : isUsernameValid a <;> cases hv : isDomainValid d <;> simp [ha, hr, hu, hv, concJ]
          · simp only [h2, idx0, idx1]
            cases hu : isUsernameValid a <;> cases hv : isDomainValid d <;> simp [ha, hr, hu, hv, concJ]

/-- **C15 about the translated code**: whatever string `NewJid` accepts, formatting the result with `Full()` and
parsing again yields the same three parts and no error. -/
theorem C15_translated_full_roundtrip (s : List Char) (h : (Gen.TrStanza.NewJid s).2 = GoRT.Err.none) :
    Gen.TrStanza.NewJid (Gen.TrStanza.Jid_Full (Gen.TrStanza.NewJid s).1) = ((Gen.TrStanza.NewJid s).1, GoRT.Err.none) := by
  have ⟨he, hm⟩ := tr_NewJid s
  rw [h] at he
  cases hn : newJid s with
  | none => simp [hn] at he
  | some m =>
    have h1 := hm m hn
    have hrt := Props.C15.C15_full_rt s m hn
    have ⟨he2, hm2⟩ := tr_NewJid (full m)
    rw [h1, tr_Full]
    apply Prod.ext
    · exact hm2 m hrt
    · simp [he2, hrt]

/-- an accepted string has a non-empty domain without '@', '/' or white space, and a local part without the forbidden
characters (the translated validators are the model's) -/
theorem C15_translated_rejects_empty : (Gen.TrStanza.NewJid []).2.isErr = true := by
  have := (tr_NewJid []).1
  rw [this]
  simp [Props.C15.C15_rejects_empty]

end XmppVerif.Tie.TrJid
#print axioms XmppVerif.Tie.TrJid.tr_NewJid
#print axioms XmppVerif.Tie.TrJid.tr_Full
#print axioms XmppVerif.Tie.TrJid.tr_Bare
#print axioms XmppVerif.Tie.TrJid.tr_isUsernameValid
#print axioms XmppVerif.Tie.TrJid.tr_isDomainValid
#print axioms XmppVerif.Tie.TrJid.C15_translated_full_roundtrip
#print axioms XmppVerif.Tie.TrJid.C15_translated_rejects_empty
