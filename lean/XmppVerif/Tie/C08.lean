import XmppVerif.Gen.SendPath
/-
Tie (regenerated facts) for C08 - the fact no stress run can establish: on every send path the serialization reaches
the socket through EXACTLY ONE `Write` call (`sendWithWriter` → `Transport.Write` → `readWriter.Write` /
`wsConn.Write`), so that the atomicity of one socket Write is the atomicity of one stanza; with stream management
the push and that one write happen under the queue lock; the stream logger writes the socket first and reports a
short write.
-/
namespace XmppVerif.Tie.C08
open XmppVerif.Gen.SendPath

theorem tie_single_write : clientSendWithWriter = ["writer.Write", "return"] ∧
    componentSendWithWriter = ["writer.Write", "return"] ∧
    xmppWrite = ["if:return", "t.readWriter.Write", "return"] ∧
    wsWrite = ["if:fmt.Fprintf", "t.wsConn.Write", "return"] := by decide

theorem tie_client_paths :
    clientSend = ["if:return", "xml.Marshal", "if:err.Error", "if:return", "if:case():c.sendAndStore", "if:case():return",
                  "c.sendWithWriter", "return"] ∧
    clientSendRaw = ["if:return", "if:c.sendAndStore", "if:return", "c.sendWithWriter", "[]byte", "return"] := by decide

theorem tie_store_and_write_under_lock : clientSendAndStore =
  ["if:c.sendWithWriter", "if:[]byte", "if:return", "uaq.Lock", "defer uaq.Unlock()", "uaq.Push", "c.sendWithWriter",
   "[]byte", "return"] := by decide

theorem tie_component_paths :
    componentSend = ["if:return", "xml.Marshal", "if:err.Error", "if:return", "c.sendWithWriter", "if:err.Error", "if:return", "return"] ∧
    componentSendRaw = ["if:return", "c.sendWithWriter", "[]byte", "return"] := by decide

theorem tie_logger : loggerWrite =
  ["sl.logFile.Write", "[]byte", "for:w.Write", "for:if:return", "for:if:return", "sl.logFile.Write", "[]byte", "return"] := by decide

end XmppVerif.Tie.C08
#print axioms XmppVerif.Tie.C08.tie_single_write
#print axioms XmppVerif.Tie.C08.tie_client_paths
#print axioms XmppVerif.Tie.C08.tie_store_and_write_under_lock
#print axioms XmppVerif.Tie.C08.tie_component_paths
#print axioms XmppVerif.Tie.C08.tie_logger
