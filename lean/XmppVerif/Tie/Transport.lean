import XmppVerif.Gen.Transport
/-
Tie (regenerated facts) for `Model.Transport`:
- `XMPPTransport.Close` writes the closing tag WITHOUT looking at the result (no return in that branch), then waits,
  then closes the connection;
- `WebsocketTransport.Close` writes `<close/>` and runs `cleanup`, which closes the connection and cancels the read
  context and does NOT close the queue channel (a second Close, or the reader delivering at that moment, would
  panic: F-05d);
- the reader goroutine reads every message to its end (`ioutil.ReadAll`, all frames: F-05c) and stops when the
  transport is closed;
- `WebsocketTransport.Read` returns an error once the context is cancelled.
-/
namespace XmppVerif.Tie.Transport
open XmppVerif.Gen.Transport

theorem tie_xmpp_close : xmppClose =
  ["if:t.readWriter.Write", "if:[]byte", "if:t.conn.Close", "if:return", "return"] := by decide

theorem tie_ws_close : wsClose = ["t.Write", "[]byte", "t.cleanup", "return"] ∧
    wsCleanup = ["if:t.wsConn.Close", "if:t.closeFunc", "return"] := by decide

theorem tie_ws_reader : wsStartReader =
  [["for:t.wsConn.Reader", "for:if:return", "for:ioutil.ReadAll", "for:if:return",
    "for:if:select(<-t.closeCtx.Done()):return"]] := by decide

/-- `WebsocketTransport.Read` (after fix F-05e): first a non-blocking receive from the queue (`default:` is not an
action), then the blocking select whose `closeCtx.Done()` arm polls the queue once more before it returns the error -/
theorem tie_ws_read : wsRead =
  ["select(<-t.queue):t.deliver", "select(<-t.queue):return",
   "select(<-t.closeCtx.Done()):select(<-t.queue):t.deliver", "select(<-t.closeCtx.Done()):select(<-t.queue):return",
   "select(<-t.closeCtx.Done()):t.closeCtx.Err", "select(<-t.closeCtx.Done()):return",
   "select(<-t.queue):t.deliver", "select(<-t.queue):return"] := by decide

/-- The TLS gate of `NewSession` does not depend on the kind of transport: STARTTLS is attempted whenever the
transport is not secure, and the gate `!IsSecure() && !Insecure` follows unconditionally (it is not nested in a
test for STARTTLS support); `startTlsIfSupported` records an error when the transport cannot do STARTTLS and insecure
connections are not allowed. The WebSocket transport never does STARTTLS and is secure iff its URL says `wss:`. -/
theorem tie_ws_gate :
    wsDoesStartTLS = ["false"] ∧
    wsIsSecure = ["strings.HasPrefix(t.Config.Address,\"wss:\")"] ∧
    newSessionConds.take 4 = ["(c.Session==nil)", "(s.err!=nil)", "!c.transport.IsSecure()",
                              "(!c.transport.IsSecure()&&!c.config.Insecure)"] ∧
    startTlsConds.take 3 = ["(s.err!=nil)", "!s.transport.DoesStartTLS()", "!o.Insecure"] := by decide

/-- After a successful handshake `StartTLS` switches EVERYTHING to the TLS connection: `t.conn` (which `Ping`
writes the keepalive to) and `t.readWriter` (a NEW stream logger around the TLS connection, which the decoder is
rebuilt on). A keepalive or a logged stream that stayed on the TCP socket would be clear text under TLS. -/
theorem tie_starttls_switches_everything :
    startTLSConn = ["tlsConn.Handshake", "t.conn=tlsConn", "newStreamLogger"] ∧
    startTLSReadWriter = ["tlsConn.Handshake", "t.readWriter=newStreamLogger(tlsConn,t.logFile)"] ∧
    -- Ping: a guard for a transport without a connection (a failed dial leaves none - F-18b), then the write to t.conn
    xmppPingWrites.take 2 = ["if:return", "t.conn.Write"] := by decide

end XmppVerif.Tie.Transport
#print axioms XmppVerif.Tie.Transport.tie_xmpp_close
#print axioms XmppVerif.Tie.Transport.tie_ws_close
#print axioms XmppVerif.Tie.Transport.tie_ws_reader
#print axioms XmppVerif.Tie.Transport.tie_ws_read
#print axioms XmppVerif.Tie.Transport.tie_ws_gate
#print axioms XmppVerif.Tie.Transport.tie_starttls_switches_everything
