import XmppVerif.Gen.Consts
import XmppVerif.Gen.Auth
import XmppVerif.Model.C14
/-
Tie (regenerated facts) for C14: the shape of `authSASL`, `authPlain`, `isSupportedMech`, `Session.auth` and of
`stanza.SASLAuth` that `Model/C14.lean` transcribes. These are facts a correspondence run cannot establish by
sampling: the operand order of the raw string, which switch arms exist and which of them build a permanent
ConnError, that the payload travels in an `,innerxml` field, that the element is written before the reply is read.
-/
namespace XmppVerif.Tie.C14
open XmppVerif.Gen.Consts XmppVerif.Gen.Auth XmppVerif.Model.C14

/-- the mechanism lists of `Password` / `OAuthToken` are the model's -/
theorem tie_mechs : passwordMechs = Kind.password.mechs ∧ oauthMechs = Kind.token.mechs := by decide

/-- the loop: credential order outside, first hit wins (`break`), membership test against the server's list -/
theorem tie_loop :
    authSASLLoop = ["credential.mechanisms", "if isSupportedMech(mech,f.Mechanisms.Mechanism) {matchingMech=mech; break}"] ∧
    isSupportedMechBody = ["mechanisms", "if (mech==m) {return true}"] := by decide

/-- the switch: exactly the arms PLAIN / X-OAUTH2 (the model's `implemented`) and default -/
theorem tie_switch_arms :
    authSASLSwitch.map Prod.fst = [["\"PLAIN\"", "\"X-OAUTH2\""], ["default"]] ∧
    (∀ m ∈ ["PLAIN", "X-OAUTH2"], implemented m = true) := by decide

/-- the implemented arm calls authPlain with (mechanism, user, secret) in this order; the default arm returns a
permanent ConnError and writes nothing -/
theorem tie_switch_bodies :
    authSASLSwitch.map (fun a => a.2.getLast?) =
      [some "return authPlain(socket,decoder,matchingMech,user,credential.secret)",
       some "return NewConnError(err,true)"] ∧
    authSASLSwitch.map (fun a => a.2.length) = [1, 2] := by decide

/-- `raw := "\x00" + user + "\x00" + secret` -/
theorem tie_raw : authPlainRaw = ["\"\\x00\"", "user", "\"\\x00\"", "secret"] := by decide

/-- standard base64 with padding; marshal, write, then read the reply -/
theorem tie_plain_actions : authPlainActions =
    ["base64.StdEncoding.EncodedLen", "base64.StdEncoding.Encode", "[]byte", "xml.Marshal", "if:return",
     "socket.Write", "if:return", "else:if:return", "stanza.NextPacket", "if:return",
     "case(stanza.SASLFailure):NewConnError", "case(stanza.SASLFailure):return", "case():v.Name", "case():return",
     "return"] := by decide

/-- the reply switch: success falls through to `return err` (nil), failure is a permanent ConnError, anything else a
plain error -/
theorem tie_reply_switch :
    authPlainSwitch.map Prod.fst = [["stanza.SASLSuccess"], ["stanza.SASLFailure"], ["default"]] ∧
    authPlainSwitch.map (fun a => a.2.getLast?) =
      [none, some "return NewConnError(err,true)",
       some "return errors.New((\"expected SASL success or failure, got \"+v.Name()))"] ∧
    authPlainReturns.getLast? = some "err" := by decide

/-- the payload is an `,innerxml` field (written verbatim: see C14_alphabet), the mechanism an attribute -/
theorem tie_fields : saslAuthFields =
    ["XMLName xml.Name xml:\"urn:ietf:params:xml:ns:xmpp-sasl auth\"",
     "Mechanism string xml:\"mechanism,attr\"",
     "Value string xml:\",innerxml\""] := by decide

/-- Session.auth passes the local part of the configured JID and the configured credential -/
theorem tie_session_call : sessionAuthCall =
    ["authSASL(s.transport,s.transport.GetDecoder(),s.Features,o.parsedJid.Node,o.Credential)"] := by decide

end XmppVerif.Tie.C14
#print axioms XmppVerif.Tie.C14.tie_mechs
#print axioms XmppVerif.Tie.C14.tie_loop
#print axioms XmppVerif.Tie.C14.tie_switch_arms
#print axioms XmppVerif.Tie.C14.tie_switch_bodies
#print axioms XmppVerif.Tie.C14.tie_raw
#print axioms XmppVerif.Tie.C14.tie_plain_actions
#print axioms XmppVerif.Tie.C14.tie_reply_switch
#print axioms XmppVerif.Tie.C14.tie_fields
#print axioms XmppVerif.Tie.C14.tie_session_call
