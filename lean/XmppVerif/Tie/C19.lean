import XmppVerif.Gen.Consts
import XmppVerif.Gen.BackoffUse
import XmppVerif.Model.C19
/- Tie (regenerated facts): the package defaults in backoff.go are the ones the model assumes. -/
namespace XmppVerif.Tie.C19
theorem tie_defaults :
    XmppVerif.Gen.Consts.defaultBase = XmppVerif.Model.C19.defaultBase ∧
    XmppVerif.Gen.Consts.defaultFactor = XmppVerif.Model.C19.defaultFactor ∧
    XmppVerif.Gen.Consts.defaultCap = XmppVerif.Model.C19.defaultCap := by decide

/-- The retry loop of `StreamManager.resume` uses ONE back-off state per connection loss: the local `backoff` is
declared before the `for` loop (not inside it, where every iteration would start again at attempt 0), it is a
zero value (declared by `var`, so the package defaults and jitter apply), the only thing the loop does with it is
`wait()` in the error branch, `wait` sleeps for `duration()`, and `duration` asks for the current attempt and
then increments it. This is what `Model.C19.supervisorBounds` transcribes. -/
theorem tie_supervisor_backoff :
    XmppVerif.Gen.BackoffUse.resumeBackoffDecl = ["backoff:backoff"] ∧
    XmppVerif.Gen.BackoffUse.resumeBackoffCalls = ["for:if:backoff.wait"] ∧
    XmppVerif.Gen.BackoffUse.waitBody = ["time.Sleep", "b.duration"] ∧
    XmppVerif.Gen.BackoffUse.durationBody = ["b.durationForAttempt", "b.attempt++", "return"] := by decide
end XmppVerif.Tie.C19
#print axioms XmppVerif.Tie.C19.tie_defaults
#print axioms XmppVerif.Tie.C19.tie_supervisor_backoff
