import XmppVerif.Gen.Consts
import XmppVerif.Model.C19
/- Tie (regenerated facts): the package defaults in backoff.go are the ones the model assumes. -/
namespace XmppVerif.Tie.C19
theorem tie_defaults :
    XmppVerif.Gen.Consts.defaultBase = XmppVerif.Model.C19.defaultBase ∧
    XmppVerif.Gen.Consts.defaultFactor = XmppVerif.Model.C19.defaultFactor ∧
    XmppVerif.Gen.Consts.defaultCap = XmppVerif.Model.C19.defaultCap := by decide
end XmppVerif.Tie.C19
#print axioms XmppVerif.Tie.C19.tie_defaults
