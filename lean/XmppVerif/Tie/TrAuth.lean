import XmppVerif.GoRT
import XmppVerif.Gen.TrRoot
import XmppVerif.Model.C14
/-
Tie by TRANSLATION for C14 (mechanism choice): the bodies of `authSASL` and `isSupportedMech` (auth.go), translated to
Lean by go/extract/tr.go on every run (`Gen/TrRoot.lean`). `authPlain` - the function that writes the `<auth/>`
element and reads the reply - is NOT entered: it is the parameter `ext` of the translated `authSASL`, and the theorem
holds for every function in its place: `authSASL` calls it exactly when the model selects an implemented mechanism,
with that mechanism, the user name and the credential's secret unchanged, and otherwise returns a permanent
connection error without calling it.
-/
namespace XmppVerif.Tie.TrAuth
open XmppVerif XmppVerif.Gen.TrRoot

theorem isSupportedMech_eq (m : List Char) : ∀ (offered : List (List Char)) (i : Int),
    GoRT.forEachAux (ρ := Bool) (fun (_ : Int) x () => if (m == x) then GoRT.Step.ret true else GoRT.Step.next ()) i offered ()
      = if offered.contains m then GoRT.Done.ret true else GoRT.Done.fin ()
  | [], _ => by simp [GoRT.forEachAux]
  | x :: xs, i => by
    have ih := isSupportedMech_eq m xs (i + 1)
    unfold GoRT.forEachAux
    by_cases h : m = x
    · subst h; simp
    · have hb : (m == x) = false := by simpa using h
      simp only [hb, Bool.false_eq_true, ↓reduceIte]
      rw [ih]
      simp [List.contains_cons, h]

theorem tr_isSupportedMech (m : List Char) (offered : List (List Char)) :
    isSupportedMech m offered = decide (m ∈ offered) := by
  unfold isSupportedMech GoRT.forEach
  rw [isSupportedMech_eq]
  by_cases h : m ∈ offered <;> simp [h]

def selectMech (credMechs offered : List (List Char)) : Option (List Char) := credMechs.find? fun m => decide (m ∈ offered)
def implemented (m : List Char) : Bool := m == "PLAIN".toList || m == "X-OAUTH2".toList

/-- the loop of `authSASL` over the credential's mechanisms: stops (break) at the first one the server offers -/
theorem select_loop (offered : List (List Char)) : ∀ (cm : List (List Char)) (i : Int) (cur : List Char),
    GoRT.forEachAux (ρ := GoRT.Err) (fun (_ : Int) mech (matchingMech : List Char) =>
        if (isSupportedMech mech offered) then GoRT.Step.brk mech else GoRT.Step.next matchingMech) i cm cur
      = GoRT.Done.fin ((selectMech cm offered).getD cur)
  | [], _, _ => by simp [GoRT.forEachAux, selectMech]
  | m :: ms, i, cur => by
    have ih := select_loop offered ms (i + 1) cur
    unfold GoRT.forEachAux
    rw [tr_isSupportedMech]
    by_cases h : m ∈ offered
    · simp [h, selectMech, List.find?_cons]
    · simp only [h, decide_false, Bool.false_eq_true, ↓reduceIte]
      rw [ih]
      simp [selectMech, List.find?_cons, h]

/-- **Mechanism choice, translated code, every `authPlain`**: -/
theorem tr_authSASL (ext : List Char → List Char → List Char → GoRT.Err) (f : stanza_StreamFeatures)
    (user : List Char) (cred : Credential) :
    authSASL ext f user cred =
      match selectMech cred.mechanisms f.Mechanisms.Mechanism with
      | some m => if implemented m then ext m user cred.secret else GoRT.Err.conn true
      | none => GoRT.Err.conn true := by
  unfold authSASL GoRT.forEach
  have := select_loop f.Mechanisms.Mechanism cred.mechanisms 0 (default : List Char)
  simp only at this ⊢
  rw [this]
  unfold implemented
  cases h : selectMech cred.mechanisms f.Mechanisms.Mechanism with
  | none => simp [show (default : List Char) = [] from rfl]
  | some m =>
    simp only [Option.getD_some]
    by_cases h1 : m = "PLAIN".toList
    · simp [h1]
    · by_cases h2 : m = "X-OAUTH2".toList
      · simp [h2]
      · have e1 : (m == ['P', 'L', 'A', 'I', 'N']) = false := by simpa using h1
        have e2 : (m == ['X', '-', 'O', 'A', 'U', 'T', 'H', '2']) = false := by simpa using h2
        simp [e1, e2, h1, h2]

theorem mem_map_toList (m : String) (off : List String) : m.toList ∈ off.map String.toList ↔ m ∈ off := by
  constructor
  · intro h
    obtain ⟨x, hx, he⟩ := List.mem_map.mp h
    have : x = m := String.toList_inj.mp he
    exact this ▸ hx
  · intro h; exact List.mem_map.mpr ⟨m, h, rfl⟩

/-- the translated selection agrees with `Model.C14.selectMech` (strings there, code points here) -/
theorem selectMech_model (cm off : List String) :
    selectMech (cm.map String.toList) (off.map String.toList) = (Model.C14.selectMech cm off).map String.toList := by
  unfold selectMech Model.C14.selectMech
  induction cm with
  | nil => simp
  | cons m ms ih =>
    simp only [List.map_cons, List.find?_cons, mem_map_toList, List.contains_iff_mem]
    by_cases h : m ∈ off
    · simp [h]
    · simpa [mem_map_toList, List.contains_iff_mem, h] using ih

end XmppVerif.Tie.TrAuth
#print axioms XmppVerif.Tie.TrAuth.tr_isSupportedMech
#print axioms XmppVerif.Tie.TrAuth.tr_authSASL
#print axioms XmppVerif.Tie.TrAuth.selectMech_model
