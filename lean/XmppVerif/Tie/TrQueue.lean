import XmppVerif.GoRT
import XmppVerif.Gen.TrStanza
import XmppVerif.Model.C17
import XmppVerif.Props.C17
/-
Tie by TRANSLATION for C17 / C10: the bodies of `UnAckQueue.Peek / PeekN / Pop / PopN / Push / Empty`
(stanza/stream_management.go), translated to Lean by go/extract/tr.go on every run (`Gen/TrStanza.lean`), are proved
equal, for ALL queues and arguments, to the hand-written model `Model.C17` that the property theorems are about.
`conc` embeds a model state into the Go representation; every state the Go code can reach from `NewUnAckQueue()`
through these methods is in its image (entries are only ever built by `Push`, with `isNil = false`).
-/
namespace XmppVerif.Tie.TrQueue
open XmppVerif XmppVerif.Gen.TrStanza XmppVerif.Model.C17

def concE (e : Entry) : UnAckedStz := { isNil := false, Id := (e.id : Int), Stz := e.stz.toList }
def conc (s : QS) : UnAckQueue := { isNil := false, Uslice := s.q.map concE, lastId := (s.lastId : Int) }

/-- zero or one model entries as the Go `Queueable` (nil interface or the entry) -/
def optE : List Entry → UnAckedStz
  | [] => UnAckedStz.nil
  | e :: _ => concE e

theorem len_map (q : Q) : GoRT.len (q.map concE) = (q.length : Int) := by simp [GoRT.len]

theorem idx_nat {α : Type} [Inhabited α] (xs : List α) (i : Nat) (hi : i < xs.length) : GoRT.idx xs (i : Int) = xs[i] := by
  have h0 : ¬ ((i : Int) < 0) := by omega
  simp [GoRT.idx, h0, List.getD_eq_getElem?_getD, List.getElem?_eq_getElem hi]

theorem forRange_collect (xs : List UnAckedStz) : ∀ (k : Nat) (i : Nat) (r : List UnAckedStz), i + k ≤ xs.length →
    (GoRT.forRangeAux (ρ := List UnAckedStz) (fun (j : Int) r => GoRT.Step.next (r ++ [GoRT.idx xs j])) k (i : Int) r)
      = GoRT.Done.fin (r ++ (xs.drop i).take k) := by
  intro k
  induction k with
  | zero => intro i r _; simp [GoRT.forRangeAux]
  | succ k ih =>
    intro i r h
    have hi : i < xs.length := by omega
    have := ih (i + 1) (r ++ [xs[i]]) (by omega)
    simp only [GoRT.forRangeAux, idx_nat xs i hi]
    rw [show ((i : Int) + 1) = ((i + 1 : Nat) : Int) by omega, this]
    rw [List.drop_eq_getElem_cons hi, List.take_succ_cons]
    simp

/-- the loop of `PeekN`: collecting the first `k ≤ len` entries -/
theorem peek_loop (xs : List UnAckedStz) (k : Nat) (h : k ≤ xs.length) :
    GoRT.forRange (ρ := List UnAckedStz) (0 : Int) (k : Int) (fun (j : Int) r => GoRT.Step.next (r ++ [GoRT.idx xs j])) []
      = GoRT.Done.fin (xs.take k) := by
  have := forRange_collect xs k 0 [] (by omega)
  simpa [GoRT.forRange] using this

theorem tr_PeekN (s : QS) (n : Int) : UnAckQueue_PeekN (conc s) n = (peekN s.q n).map concE := by
  unfold UnAckQueue_PeekN peekN
  simp only [conc, Bool.false_eq_true, ↓reduceIte, len_map, decide_eq_true_eq]
  by_cases hn : n ≤ 0
  · simp [hn]
  · simp only [hn, ↓reduceIte]
    by_cases he : (s.q.length : Int) = 0
    · have : s.q = [] := List.length_eq_zero_iff.mp (by omega)
      simp [this]
    · by_cases hlt : (s.q.length : Int) < n
      · simp only [hlt, ↓reduceIte, beq_iff_eq, he]
        have := peek_loop (s.q.map concE) s.q.length (by simp)
        rw [this]
        simp only [List.map_take]
        have h2 : s.q.length ≤ n.toNat := by omega
        rw [List.take_of_length_le (by simp), List.take_of_length_le (by simpa using h2)]
      · simp only [hlt, ↓reduceIte, beq_iff_eq, he]
        have hk : ((n.toNat : Nat) : Int) = n := by omega
        have := peek_loop (s.q.map concE) n.toNat (by simp; omega)
        rw [hk] at this
        rw [this]
        simp [List.map_take]

theorem tr_Peek (s : QS) : UnAckQueue_Peek (conc s) = optE (peek s.q) := by
  unfold UnAckQueue_Peek peek
  cases hq : s.q with
  | nil => simp [conc, hq, GoRT.len, optE]
  | cons e r =>
    have h0 : ¬ (((r.length : Int) + 1) = 0) := by omega
    simp [conc, hq, GoRT.len, optE, GoRT.idx, h0]

theorem tr_Empty (s : QS) : UnAckQueue_Empty (conc s) = s.q.isEmpty := by
  unfold UnAckQueue_Empty
  cases hq : s.q with
  | nil => simp [conc, hq, GoRT.len]
  | cons e r =>
    have h0 : ¬ (((r.length : Int) + 1) = 0) := by omega
    simp [conc, hq, GoRT.len, h0]

theorem tr_Pop (s : QS) :
    UnAckQueue_Pop (conc s) = (optE (pop s.q).1, conc ⟨(pop s.q).2, s.lastId⟩) := by
  unfold UnAckQueue_Pop
  rw [tr_Peek]
  cases hq : s.q with
  | nil => simp [conc, hq, peek, pop, optE, UnAckedStz.nil]
  | cons e r => simp [conc, hq, peek, pop, optE, concE, GoRT.sliceFrom]

theorem tr_PopN (s : QS) (n : Int) :
    UnAckQueue_PopN (conc s) n = (((popN s.q n).1).map concE, conc ⟨(popN s.q n).2, s.lastId⟩) := by
  unfold UnAckQueue_PopN
  rw [tr_PeekN]
  simp [conc, popN, GoRT.sliceFrom, GoRT.len]

/-- `Push`: for every non-nil argument (whatever its Id) the translated code appends the model's entry and moves
the counter; no error. -/
theorem tr_Push (s : QS) (x : String) (anyId : Int) :
    UnAckQueue_Push (conc s) { isNil := false, Id := anyId, Stz := x.toList } = (GoRT.Err.none, conc (pushS s x)) := by
  unfold UnAckQueue_Push pushS nextIdS
  cases hq : s.q.getLast? with
  | none =>
    have : s.q = [] := by simpa using hq
    simp [conc, this, GoRT.len, concE]
  | some e =>
    have hne : s.q ≠ [] := by intro h; simp [h] at hq
    have hlen : 0 < s.q.length := List.length_pos_iff.mpr hne
    have h0 : ¬ ((s.q.length : Int) = 0) := by omega
    have hlast : s.q[s.q.length - 1]'(by omega) = e := by
      have := List.getLast?_eq_getElem? (l := s.q)
      rw [this, List.getElem?_eq_getElem (by omega)] at hq
      simpa using hq
    have hidx : GoRT.idx (s.q.map concE) ((s.q.length : Int) - 1) = concE e := by
      have h1 : ((s.q.length : Int) - 1) = ((s.q.length - 1 : Nat) : Int) := by omega
      rw [h1, idx_nat _ _ (by simp; omega)]
      simp [hlast]
    simp [conc, GoRT.len, hidx, concE, hne]

/-- a nil argument (or, in Go, an element of another type) is refused and nothing changes -/
theorem tr_Push_nil (s : QS) : UnAckQueue_Push (conc s) UnAckedStz.nil = (GoRT.Err.plain, conc s) := by
  unfold UnAckQueue_Push
  by_cases h : (GoRT.len (conc s).Uslice != 0) = true <;> simp [h, UnAckedStz.nil] <;> rfl

/-- nil receiver: every method returns nil / true / no error and leaves nil (`Model.C17.stepNil`) -/
theorem tr_nil_receiver (n : Int) (x : UnAckedStz) :
    UnAckQueue_Peek UnAckQueue.nil = UnAckedStz.nil ∧ UnAckQueue_PeekN UnAckQueue.nil n = [] ∧
    UnAckQueue_Pop UnAckQueue.nil = (UnAckedStz.nil, UnAckQueue.nil) ∧ UnAckQueue_PopN UnAckQueue.nil n = ([], UnAckQueue.nil) ∧
    UnAckQueue_Push UnAckQueue.nil x = (GoRT.Err.none, UnAckQueue.nil) ∧ UnAckQueue_Empty UnAckQueue.nil = true := by
  simp [UnAckQueue_Peek, UnAckQueue_PeekN, UnAckQueue_Pop, UnAckQueue_PopN, UnAckQueue_Push, UnAckQueue_Empty, UnAckQueue.nil]

/-- The translated methods, driven by an op list, compute what the model's `runS` computes: the refinement that carries
every C17 / C10 theorem over to the translated code. Outputs are compared through `outE`. -/
def outE : Op → QS → Out
  | op, s => (stepS s op).2

def goStep (u : UnAckQueue) : Op → UnAckQueue × List UnAckedStz × Bool
  | .push x  => let r := UnAckQueue_Push u { isNil := false, Id := 0, Stz := x.toList }; (r.2, [], r.1.isErr)
  | .pop     => let r := UnAckQueue_Pop u; (r.2, if r.1.isNil then [] else [r.1], false)
  | .popn k  => let r := UnAckQueue_PopN u k; (r.2, r.1, false)
  | .peek    => let r := UnAckQueue_Peek u; (u, if r.isNil then [] else [r], false)
  | .peekn k => (u, UnAckQueue_PeekN u k, false)
  | .empty   => (u, [], UnAckQueue_Empty u)

def outList : Out → List UnAckedStz × Bool
  | .ents es => (es.map concE, false)
  | .flag b => ([], b)

theorem optE_list (l : List Entry) (h : l.length ≤ 1) :
    (if (optE l).isNil then [] else [optE l]) = l.map concE := by
  match l, h with
  | [], _ => simp [optE, UnAckedStz.nil]
  | [e], _ => simp [optE, concE]

theorem tr_step (s : QS) (op : Op) :
    goStep (conc s) op = (conc (stepS s op).1, (outList (stepS s op).2).1, (outList (stepS s op).2).2) := by
  cases op with
  | push x => simp [goStep, tr_Push, stepS, outList]
  | pop =>
    have hl : (pop s.q).1.length ≤ 1 := by cases s.q <;> simp [pop]
    simp [goStep, tr_Pop, stepS, step, outList, optE_list _ hl]
  | popn k => simp [goStep, tr_PopN, stepS, step, outList]
  | peek =>
    have hl : (peek s.q).length ≤ 1 := by simp [peek]; omega
    simp [goStep, tr_Peek, stepS, step, outList, optE_list _ hl]
  | peekn k => simp [goStep, tr_PeekN, stepS, step, outList]
  | empty => simp [goStep, tr_Empty, stepS, step, outList]

def goRun (u : UnAckQueue) : List Op → UnAckQueue × List (List UnAckedStz × Bool)
  | [] => (u, [])
  | op :: ops =>
    let r := goStep u op
    let rest := goRun r.1 ops
    (rest.1, (r.2.1, r.2.2) :: rest.2)

/-- refinement over ALL operation sequences -/
theorem tr_run (ops : List Op) : ∀ s : QS, goRun (conc s) ops = (conc (runS s ops).1, (runS s ops).2.map outList) := by
  induction ops with
  | nil => intro s; simp [goRun, runS]
  | cons op ops ih =>
    intro s
    simp only [goRun, tr_step, runS, ih]
    simp

/-- sequence numbers of the Go slice, head first -/
def goIds (u : UnAckQueue) : List Int := u.Uslice.map (·.Id)

/-- **C17 about the translated code**: after ANY operation sequence on a fresh queue, run through the translated
method bodies, the queued sequence numbers are strictly increasing, and the outputs are the model's (whose FIFO
behaviour is `Props.C17.C17_refines`). -/
theorem C17_translated_ids_increasing (ops : List Op) :
    List.Pairwise (· < ·) (goIds (goRun (conc ⟨[], 0⟩) ops).1) ∧
    (goRun (conc ⟨[], 0⟩) ops).2 = (runS ⟨[], 0⟩ ops).2.map outList := by
  rw [tr_run]
  refine ⟨?_, rfl⟩
  have h := Props.C17.C17_ids_increasing_fresh ops
  unfold Props.C17.Inc at h
  simp only [goIds, conc, List.map_map]
  have : ((fun x : UnAckedStz => x.Id) ∘ concE) = (fun e : Entry => (e.id : Int)) := by funext e; simp [concE]
  rw [this]
  have h2 := List.Pairwise.map (fun n : Nat => (n : Int)) (R := (· < ·)) (S := (· < ·)) (by intro a b hab; omega) h
  rw [List.map_map] at h2
  exact h2

end XmppVerif.Tie.TrQueue
#print axioms XmppVerif.Tie.TrQueue.tr_PeekN
#print axioms XmppVerif.Tie.TrQueue.tr_Peek
#print axioms XmppVerif.Tie.TrQueue.tr_Pop
#print axioms XmppVerif.Tie.TrQueue.tr_PopN
#print axioms XmppVerif.Tie.TrQueue.tr_Push
#print axioms XmppVerif.Tie.TrQueue.tr_Push_nil
#print axioms XmppVerif.Tie.TrQueue.tr_Empty
#print axioms XmppVerif.Tie.TrQueue.tr_nil_receiver
#print axioms XmppVerif.Tie.TrQueue.tr_run
#print axioms XmppVerif.Tie.TrQueue.C17_translated_ids_increasing
