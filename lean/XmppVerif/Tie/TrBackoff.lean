import XmppVerif.GoRT
import XmppVerif.Gen.TrRoot
import XmppVerif.Model.C19
import XmppVerif.Props.C19
/-
Tie by TRANSLATION for C19: the bodies of `backoff.setDefault`, `durationForAttempt`, `duration` and `reset`
(backoff.go), translated to Lean by go/extract/tr.go on every run (`Gen/TrRoot.lean`), are proved equal to the
specification `Spec.C19.specMs` = min(cap, base * factor^n) after defaults, for ALL configurations with natural
number fields, all attempt numbers and every random source `rnd` (the parameter that stands for `rand.Intn`).
Floats are the ideal floats of GoRT (exact below 2^53); the product with time.Millisecond is in `Int` (the int64
wrap-around above 292 years is the recorded finding F-19b and stays with Model.C19.toInt64).
-/
namespace XmppVerif.Tie.TrBackoff
open XmppVerif XmppVerif.Model.C19 XmppVerif.Spec.C19 XmppVerif.Gen.TrRoot

def concB (c : Cfg) (attempt : Nat) (last : Int := 0) : backoff :=
  { isNil := false, NoJitter := c.noJitter, Base := c.base, Factor := c.factor, Cap := c.cap, lastDuration := last, attempt := attempt }

theorem tr_setDefault (c : Cfg) (a : Nat) (l : Int) : backoff_setDefault (concB c a l) = concB (setDefault c) a l := by
  unfold backoff_setDefault setDefault concB defaultBase defaultCap defaultFactor
  by_cases hb : c.base = 0 <;> by_cases hc : c.cap = 0 <;> by_cases hf : c.factor = 0 <;>
    simp [hb, hc, hf, Int.natCast_eq_zero]

theorem min_cast (a b : Nat) : GoRT.math_Min (a : Int) (b : Int) = ((min a b : Nat) : Int) := by
  unfold GoRT.math_Min
  by_cases h : a ≤ b
  · have : (a : Int) ≤ (b : Int) := by omega
    simp [this, Nat.min_eq_left h]
  · have : ¬ (a : Int) ≤ (b : Int) := by omega
    have h2 : b ≤ a := by omega
    simp [this, Nat.min_eq_right h2]

theorem pow_cast (f n : Nat) : GoRT.math_Pow (GoRT.F64.ofInt (f : Int)) (GoRT.F64.ofInt (n : Int)) = ((f ^ n : Nat) : Int) := by
  have h : ¬ ((n : Int) < 0) := by omega
  simp [GoRT.math_Pow, GoRT.F64.ofInt, h, Int.natCast_pow]

/-- milliseconds the translated code computes before jitter and unit conversion -/
theorem tr_ms (c : Cfg) (n : Nat) :
    GoRT.F64.toInt (GoRT.math_Trunc (GoRT.math_Min (GoRT.F64.ofInt ((setDefault c).cap : Int))
      ((GoRT.F64.ofInt ((setDefault c).base : Int)) * (GoRT.math_Pow (GoRT.F64.ofInt ((setDefault c).factor : Int)) (GoRT.F64.ofInt (n : Int))))))
      = (specMs c n : Int) := by
  rw [pow_cast]
  simp only [GoRT.F64.toInt, GoRT.math_Trunc, GoRT.F64.ofInt]
  rw [← Int.natCast_mul, min_cast]
  rfl

theorem tr_durationForAttempt (rnd : Int → Int) (c : Cfg) (a n : Nat) (l : Int) :
    backoff_durationForAttempt rnd (concB c a l) (n : Int) =
      ((if c.noJitter then (specMs c n : Int) else rnd (specMs c n)) * 1000000, concB (setDefault c) a l) := by
  unfold backoff_durationForAttempt
  rw [tr_setDefault]
  have h := tr_ms c n
  have hj : (setDefault c).noJitter = c.noJitter := by simp [setDefault]
  simp only [concB] at h ⊢
  simp only [h, hj]
  cases c.noJitter <;> simp

theorem sd_idem (c : Cfg) : setDefault (setDefault c) = setDefault c := by
  unfold setDefault defaultBase defaultCap defaultFactor
  by_cases hb : c.base = 0 <;> by_cases hc : c.cap = 0 <;> by_cases hf : c.factor = 0 <;> simp [hb, hc, hf]

/-- `duration()`: the delay of the current attempt, then the attempt counter moves on -/
theorem tr_duration (rnd : Int → Int) (c : Cfg) (a : Nat) (l : Int) :
    backoff_duration rnd (concB c a l) =
      ((if c.noJitter then (specMs c a : Int) else rnd (specMs c a)) * 1000000, concB (setDefault c) (a + 1) l) := by
  unfold backoff_duration
  have := tr_durationForAttempt rnd c a a l
  simp only [concB] at this ⊢
  rw [this]
  simp

theorem tr_reset (c : Cfg) (a : Nat) (l : Int) : backoff_reset (concB c a l) = concB c 0 l := by
  simp [backoff_reset, concB]

/-- **C19 about the translated code**: for every random source that honours the contract of `rand.Intn`
(0 ≤ rnd d < d for d > 0), every configuration and attempt number, the delay the translated `durationForAttempt`
returns is at least 0 and at most cap milliseconds; without jitter it is exactly min(cap, base * factor^n) ms,
which is monotone in n (`Props.C19.C19_mono`). -/
theorem C19_translated_bounds (rnd : Int → Int) (hr : ∀ d : Int, 0 < d → 0 ≤ rnd d ∧ rnd d < d)
    (c : Cfg) (a n : Nat) (l : Int) :
    0 ≤ (backoff_durationForAttempt rnd (concB c a l) (n : Int)).1 ∧
    (backoff_durationForAttempt rnd (concB c a l) (n : Int)).1 ≤ ((setDefault c).cap : Int) * 1000000 ∧
    (c.noJitter = true → (backoff_durationForAttempt rnd (concB c a l) (n : Int)).1 = (specMs c n : Int) * 1000000) := by
  rw [tr_durationForAttempt]
  have hcap := Props.C19.C19_le_cap c n
  have hb : 0 < (setDefault c).base := by simp only [setDefault, defaultBase]; split <;> omega
  have hf : 0 < (setDefault c).factor := by simp only [setDefault, defaultFactor]; split <;> omega
  have hc : 0 < (setDefault c).cap := by simp only [setDefault, defaultCap]; split <;> omega
  have hpos : 0 < specMs c n := by
    unfold specMs
    exact Nat.lt_min.mpr ⟨hc, Nat.mul_pos hb (Nat.pow_pos hf)⟩
  cases hj : c.noJitter
  · have := hr (specMs c n) (by omega)
    simp only [Bool.false_eq_true, ↓reduceIte]
    refine ⟨by omega, by omega, by intro h; cases h⟩
  · simp only [↓reduceIte]
    refine ⟨by omega, by omega, by simp⟩

end XmppVerif.Tie.TrBackoff
#print axioms XmppVerif.Tie.TrBackoff.tr_setDefault
#print axioms XmppVerif.Tie.TrBackoff.tr_durationForAttempt
#print axioms XmppVerif.Tie.TrBackoff.tr_duration
#print axioms XmppVerif.Tie.TrBackoff.tr_reset
#print axioms XmppVerif.Tie.TrBackoff.C19_translated_bounds
