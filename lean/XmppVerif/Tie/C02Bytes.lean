import XmppVerif.Gen.Decoder
/-
Tie (regenerated facts) for the byte-level part of C02: the library's xml.Decoders are constructed and configured as
Model/C02Bytes.lean assumes - `xml.NewDecoder` on a `bufio.NewReaderSize(conn, 32768)` in both transports (and on the
raw connection in the certificate checker and the server mock), the only option ever written is
`CharsetReader = Config.CharsetReader` (nil unless the user sets one; the model is the nil case), `Strict`, `Entity`,
`AutoClose`, `DefaultSpace` are never touched, `RawToken` (no namespace translation, no nesting check) is never used.
Setting `decoder.Strict = false`, installing an Entity map, or decoding through another constructor breaks one of these.
-/
namespace XmppVerif.Tie.C02Bytes
open XmppVerif.Gen.Decoder

theorem tie_decoder_sites : sites =
    ["ServerCheck.Check: xml.NewDecoder(tcpconn)", "ServerMock.loop: xml.NewDecoder(conn)",
     "WebsocketTransport.Connect: xml.NewDecoder(bufio.NewReaderSize(t,maxPacketSize))",
     "XMPPTransport.Connect: xml.NewDecoder(bufio.NewReaderSize(t.readWriter,maxPacketSize))",
     "XMPPTransport.StartTLS: xml.NewDecoder(bufio.NewReaderSize(t.readWriter,maxPacketSize))"] := by decide

theorem tie_decoder_options : optionWrites =
    ["WebsocketTransport.Connect: t.decoder.CharsetReader=t.Config.CharsetReader",
     "XMPPTransport.Connect: t.decoder.CharsetReader=t.Config.CharsetReader",
     "XMPPTransport.StartTLS: t.decoder.CharsetReader=t.Config.CharsetReader"] := by decide

theorem tie_no_raw_token : rawTokenCalls = [] := by decide

theorem tie_buffer_size : maxPacketSize = 32768 := by decide

end XmppVerif.Tie.C02Bytes
#print axioms XmppVerif.Tie.C02Bytes.tie_decoder_sites
#print axioms XmppVerif.Tie.C02Bytes.tie_decoder_options
#print axioms XmppVerif.Tie.C02Bytes.tie_no_raw_token
#print axioms XmppVerif.Tie.C02Bytes.tie_buffer_size
