import XmppVerif.Gen.Supervisor
/-
Tie (regenerated facts) for C13 - the facts about WHO starts WHAT that a correspondence run can only sample:
- `Client.Resume` starts the keepalive and the receive loop (F-13a);
- the clean-up goroutine of a failed `Client.connect` raises no Disconnected event (F-13b: no second retry loop);
- the retry loop of `StreamManager.resume`: Resume, on a permanent error return, otherwise back off, PostConnect once
  after the loop; the Disconnected arm of the handler enters that loop;
- a failed dial is not reported as permanent (F-13d);
- `Stop` removes the handler before disconnecting and releases `Run`.
(The Disconnected event after a graceful `</stream:stream>`, F-13c, is in Tie.Recv.)
-/
namespace XmppVerif.Tie.C13
open XmppVerif.Gen.Supervisor

theorem tie_resume_starts_goroutines : "go keepalive" ∈ clientResume ∧ "go c.recv" ∈ clientResume := by decide

theorem tie_cleanup_raises_no_event : connectFuncLits =
  [["for:stanza.NextPacket", "for:if:c.ErrorHandler", "for:if:return",
    "for:case(stanza.StreamClosePacket):c.transport.ReceivedStreamClose", "for:case(stanza.StreamClosePacket):return"]] := by decide

theorem tie_retry_loop : smResume =
  ["for:initMetrics", "for:sm.client.Resume", "for:if:if:if:xerrors.Errorf", "for:if:if:if:return",
   "for:if:backoff.wait", "if:sm.PostConnect", "return"] := by decide

theorem tie_handler_reconnects : runHandler.any (fun l => l.contains "case:sm.resume") = true := by decide

theorem tie_first_connect : smConnect =
  ["if:if:if:initMetrics", "if:if:if:c.Connect", "if:if:if:if:return", "if:if:if:if:sm.PostConnect",
   "if:if:if:return", "return"] := by decide

theorem tie_dial_not_permanent : dialErrorPermanent = ["false"] := by decide

theorem tie_stop : smStop = ["sm.client.SetHandler", "sm.client.Disconnect", "sm.wg.Done"] := by decide

end XmppVerif.Tie.C13
#print axioms XmppVerif.Tie.C13.tie_resume_starts_goroutines
#print axioms XmppVerif.Tie.C13.tie_cleanup_raises_no_event
#print axioms XmppVerif.Tie.C13.tie_retry_loop
#print axioms XmppVerif.Tie.C13.tie_handler_reconnects
#print axioms XmppVerif.Tie.C13.tie_first_connect
#print axioms XmppVerif.Tie.C13.tie_dial_not_permanent
#print axioms XmppVerif.Tie.C13.tie_stop
