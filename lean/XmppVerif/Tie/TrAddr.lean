import XmppVerif.GoRT
import XmppVerif.Gen.TrRoot
import XmppVerif.Model.C20
import XmppVerif.Props.C20
/-
Tie by TRANSLATION for C20: the body of `ensurePort` (network.go), translated to Lean by go/extract/tr.go on every
run (`Gen/TrRoot.lean`), equals the hand-written model `Model.C20.ensurePort` for ALL addresses and ports ≥ 0.
-/
namespace XmppVerif.Tie.TrAddr
open XmppVerif XmppVerif.Model.C20

theorem isPrefix_single (c x : Char) (xs : List Char) : [c].isPrefixOf (x :: xs) = (c == x) := by
  simp [List.isPrefixOf]

theorem lastIndex_eq (c : Char) : ∀ s : List Char, GoRT.strings_LastIndex s [c] = lastIndex c s
  | [] => by simp [GoRT.strings_LastIndex, lastIndex]
  | x :: xs => by
    have ih := lastIndex_eq c xs
    simp only [GoRT.strings_LastIndex, lastIndex, ih, isPrefix_single]
    by_cases h : lastIndex c xs ≥ 0
    · simp [h]
    · simp only [h, ↓reduceIte]
      by_cases hx : x = c
      · simp [hx]
      · have : ¬ c = x := fun h => hx h.symm
        simp [hx, this]

theorem countGo_eq (c : Char) : ∀ s : List Char, GoRT.countGo [c] s 0 = (s.count c : Int)
  | [] => by simp [GoRT.countGo]
  | x :: xs => by
    have ih := countGo_eq c xs
    simp only [GoRT.countGo, isPrefix_single, List.length_singleton, Nat.sub_self, ih, List.count_cons]
    by_cases hx : x = c
    · subst hx; simp; omega
    · have : ¬ c = x := fun h => hx h.symm
      simp [hx, this]

theorem count_eq (c : Char) (s : List Char) : GoRT.strings_Count s [c] = (s.count c : Int) := by
  simp [GoRT.strings_Count, countGo_eq]

theorem hasPrefix_single (c : Char) (s : List Char) : GoRT.strings_HasPrefix s [c] = decide (s.head? = some c) := by
  cases s with
  | nil => simp [GoRT.strings_HasPrefix, List.isPrefixOf]
  | cons x xs =>
    simp only [GoRT.strings_HasPrefix, isPrefix_single, List.head?_cons, Option.some.injEq]
    by_cases h : c = x
    · simp [h]
    · have : ¬ x = c := fun e => h e.symm
      simp [h, this]

theorem itoa_eq (p : Nat) : GoRT.strconv_Itoa (p : Int) = itoa p := rfl

theorem tr_ensurePort (addr : List Char) (p : Nat) :
    Gen.TrRoot.ensurePort addr (p : Int) = Model.C20.ensurePort addr p := by
  unfold Gen.TrRoot.ensurePort Model.C20.ensurePort
  simp only [hasPrefix_single, lastIndex_eq, count_eq, itoa_eq, decide_eq_true_eq]
  by_cases hb : addr.head? = some '['
  · simp only [hb, ↓reduceIte]
    by_cases hl : lastIndex ':' addr ≤ lastIndex ']' addr <;> simp [hl]
  · simp only [hb, ↓reduceIte]
    match hc : addr.count ':' with
    | 0 => simp
    | 1 => simp
    | k + 2 =>
      have h0 : ¬ ((k : Int) + 2 = 0) := by omega
      have h1 : ¬ ((k : Int) + 2 = 1) := by omega
      simp [h0, h1]

/-- **C20 about the translated code**: for every well-formed address form the translated `ensurePort` returns
exactly `JoinHostPort(host, port)`, with 5222 only when no port was written. -/
theorem C20_translated_dial (f : Spec.C20.Form) (h : f.wf = true) :
    Gen.TrRoot.ensurePort f.render (5222 : Int) = f.expected := by
  have := tr_ensurePort f.render 5222
  rw [show ((5222 : Nat) : Int) = (5222 : Int) by rfl] at this
  rw [this]
  exact Props.C20.C20_dial f h

theorem hasPrefix_isWs (addr : List Char) :
    (GoRT.strings_HasPrefix addr ['w', 's', ':'] || GoRT.strings_HasPrefix addr ['w', 's', 's', ':']) = isWs addr := rfl

open Gen.TrRoot in
/-- `NewClientTransport`, translated: a WebSocket transport with the configuration untouched exactly when the model
chooses `ws`; otherwise the XMPP transport, the client stream opening, and the address normalised by `ensurePort`
with 5222 - every other configuration field unchanged. -/
theorem tr_NewClientTransport (cfg : TransportConfiguration) :
    NewClientTransport cfg =
      match clientTransport cfg.Address with
      | .ws => Transport.WebsocketTransport { Config := cfg }
      | .xmpp dial => Transport.XMPPTransport { Config := { cfg with Address := dial }, openStatement := clientStreamOpen }
      | .refused => Transport.nil := by
  unfold NewClientTransport clientTransport
  rw [hasPrefix_isWs]
  by_cases h : isWs cfg.Address = true
  · simp [h]
  · have := tr_ensurePort cfg.Address 5222
    rw [show ((5222 : Nat) : Int) = (5222 : Int) by rfl] at this
    simp [h, this, defaultPort]

open Gen.TrRoot in
/-- `NewComponentTransport`, translated: refused with an error (and no transport) exactly when the model refuses. -/
theorem tr_NewComponentTransport (cfg : TransportConfiguration) :
    NewComponentTransport cfg =
      match componentTransport cfg.Address with
      | .refused => (Transport.nil, GoRT.Err.plain)
      | .xmpp dial => (Transport.XMPPTransport { Config := { cfg with Address := dial }, openStatement := componentStreamOpen }, GoRT.Err.none)
      | .ws => (Transport.nil, GoRT.Err.none) := by
  unfold NewComponentTransport componentTransport
  rw [hasPrefix_isWs]
  by_cases h : isWs cfg.Address = true
  · simp [h]
  · have := tr_ensurePort cfg.Address 5222
    rw [show ((5222 : Nat) : Int) = (5222 : Int) by rfl] at this
    simp [h, this, defaultPort]

end XmppVerif.Tie.TrAddr
#print axioms XmppVerif.Tie.TrAddr.tr_ensurePort
#print axioms XmppVerif.Tie.TrAddr.C20_translated_dial
#print axioms XmppVerif.Tie.TrAddr.tr_NewClientTransport
#print axioms XmppVerif.Tie.TrAddr.tr_NewComponentTransport
