import XmppVerif.Gen.Queue
/- Tie (regenerated facts) for C17: the guards of the UnAckQueue methods (nil receiver, n ≤ 0, clamp to the length,
empty queue) and that Pop/PopN are built on Peek/PeekN. -/
namespace XmppVerif.Tie.C17
open XmppVerif.Gen.Queue
theorem tie_guards :
    condsPeekN = ["(uaq==nil)", "(n<=0)", "(len(uaq.Uslice)<n)", "(len(uaq.Uslice)==0)"] ∧
    condsPeek = ["(uaq==nil)", "(len(uaq.Uslice)==0)"] ∧ condsPush = ["(uaq==nil)", "(len(uaq.Uslice)!=0)", "!ok"] ∧
    condsPop = ["(uaq==nil)", "(r!=nil)"] ∧ condsPopN = ["(uaq==nil)"] ∧ condsEmpty = ["(uaq==nil)"] := by decide
theorem tie_pop_uses_peek : actsPop = ["if:return", "uaq.Peek", "return"] ∧ actsPopN = ["if:return", "uaq.PeekN", "return"] := by decide
end XmppVerif.Tie.C17
#print axioms XmppVerif.Tie.C17.tie_guards
#print axioms XmppVerif.Tie.C17.tie_pop_uses_peek
