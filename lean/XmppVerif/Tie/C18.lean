import XmppVerif.Gen.Keepalive
/-
Tie (regenerated facts) for C18: the two arms of the `select` in `keepalive` (tick: Ping, on error Stop + Close +
return; quit: Stop + return) and that `Client.Connect` starts the keepalive together with the receive loop
(whose deferred `close(keepaliveQuit)` - Tie.Recv - is what ends it).
-/
namespace XmppVerif.Tie.C18
open XmppVerif.Gen.Keepalive

theorem tie_keepalive : keepalive =
  ["time.NewTicker", "for:select(<-ticker.C):transport.Ping", "for:select(<-ticker.C):if:ticker.Stop",
   "for:select(<-ticker.C):if:transport.Close", "for:select(<-ticker.C):if:return",
   "for:select(<-quit):ticker.Stop", "for:select(<-quit):return"] := by decide

theorem tie_connect_starts_both : "go keepalive" ∈ clientConnect ∧ "go c.recv" ∈ clientConnect := by decide

end XmppVerif.Tie.C18
#print axioms XmppVerif.Tie.C18.tie_keepalive
#print axioms XmppVerif.Tie.C18.tie_connect_starts_both
