import XmppVerif.Fx
import XmppVerif.Gen.Fx
/-
Tie (regenerated MODEL, trace semantics): the send paths, the router and the transport's security flag - on every path.

  Client.Send / Client.SendRaw / Client.sendAndStore / Component.Send / Component.SendRaw (C08, C10): a path writes to the
    transport at most once; a path that returns without an error it has just built has written exactly once (itself or
    through sendAndStore - never both); sendAndStore writes exactly once on every path, after the store where it stores.
  Router.route (C06, C07): on every path at most ONE of: a route's handler, the hand-over of a response to its pending
    request, the automatic error - never two; the hand-over is followed at once by the close of the channel and the return.
  Router.sendIQ (C07): the request is registered (under the lock) before it is sent; a failed send unregisters it and
    returns the error without starting the clean-up goroutine.
  XMPPTransport.StartTLS (C04): the secure flag is set to true only as the LAST act before `return nil`, after the
    handshake and - unless the application switched verification off - after the host-name check; every error return leaves
    the flag false (it is cleared right after the handshake). XMPPTransport.Connect (C03, C04, C13): every connection starts
    with the flag cleared, before the dial.
-/
namespace XmppVerif.Tie.FxSend
open XmppVerif.Fx XmppVerif.Gen.Fx

def get (name : String) : Fx.Fx := (XmppVerif.Gen.Fx.all.lookup name).getD (.ret "missing")
def cnt (a : Act) (t : List Act) : Nat := (t.filter (· == a)).length
def builtError (t : List Act) : Bool := (retLabel t).startsWith "errors.New("

/-- Send / SendRaw of the client: one write per path - direct or through sendAndStore - unless the path returns an error
it has just built ("not connected", "cannot marshal") before writing -/
def clientSendOk (t : List Act) : Bool :=
  let w := cnt .write t + cnt (.call "Client.sendAndStore") t
  w ≤ 1 && (w == 1 || builtError t)

def componentSendOk (t : List Act) : Bool :=
  let w := cnt .write t
  w ≤ 1 && (w == 1 || builtError t) && !(t.any isSpawn)

def storeOk (t : List Act) : Bool :=
  cnt .write t == 1 && cnt .store t ≤ 1 && noneAfter (· == .write) (· == .store) t

theorem send_every_path :
    allTraces (get "Client.Send") clientSendOk = true ∧ allTraces (get "Client.SendRaw") clientSendOk = true ∧
    allTraces (get "Client.sendAndStore") storeOk = true ∧
    allTraces (get "Component.Send") componentSendOk = true ∧ allTraces (get "Component.SendRaw") componentSendOk = true := by
  decide +kernel

theorem send_every_run :
    (∀ l t, Runs traceSem (get "Client.Send") [] (.ret l t) → clientSendOk t = true) ∧
    (∀ l t, Runs traceSem (get "Client.SendRaw") [] (.ret l t) → clientSendOk t = true) ∧
    (∀ l t, Runs traceSem (get "Client.sendAndStore") [] (.ret l t) → storeOk t = true) ∧
    (∀ l t, Runs traceSem (get "Component.Send") [] (.ret l t) → componentSendOk t = true) ∧
    (∀ l t, Runs traceSem (get "Component.SendRaw") [] (.ret l t) → componentSendOk t = true) :=
  ⟨allTraces_sound _ _ send_every_path.1, allTraces_sound _ _ send_every_path.2.1, allTraces_sound _ _ send_every_path.2.2.1,
   allTraces_sound _ _ send_every_path.2.2.2.1, allTraces_sound _ _ send_every_path.2.2.2.2⟩

/-- Router.route on every path -/
def routeOk (t : List Act) : Bool :=
  let handled := cnt (.call "Handler.HandlePacket") t
  let given := cnt (.chsend "IQResultRoute.result") t
  let refused := cnt (.call "iqNotImplemented") t
  handled + given + refused ≤ 1 &&
  -- the hand-over: send on the channel, close it, return - nothing else afterwards
  (given == 0 || (t.dropWhile (· != .chsend "IQResultRoute.result")) ==
      [.chsend "IQResultRoute.result", .chclose "IQResultRoute.result", .call "return "]) &&
  -- the handler's path returns right after the handler
  (handled == 0 || (t.dropWhile (· != .call "Handler.HandlePacket")).length == 2) &&
  -- the order of `Model.C06.route`: the stream-management hook for <a/>, then the pending-request table, then the
  -- ordinary routes, then the automatic error - nothing of an earlier stage after a later one
  noneAfter (· == .lock "Router.IQResultRouteLock") (· == .call "SendMissingStz") t &&
  noneAfter (· == .call "Router.Match") (fun a => a == .lock "Router.IQResultRouteLock" || a == .call "SendMissingStz") t &&
  noneAfter (fun a => a == .call "Handler.HandlePacket" || a == .call "iqNotImplemented") (· == .call "Router.Match") t &&
  -- a handler runs only after a match was looked for; the automatic error only after none was found
  (handled == 0 || t.contains (.call "Router.Match")) && (refused == 0 || t.contains (.call "Router.Match"))

theorem route_every_path : allTraces (get "Router.route") routeOk = true := by decide +kernel

theorem route_every_run : ∀ l t, Runs traceSem (get "Router.route") [] (.ret l t) → routeOk t = true :=
  allTraces_sound _ _ route_every_path

/-- Router.sendIQ on every path -/
def sendIQOk (t : List Act) : Bool :=
  let lk : Act := .lock "Router.IQResultRouteLock"
  -- registered (the locked section) before the send
  noneAfter (· == .call "Sender.Send") (· == lk) t && cnt lk t == 1 && cnt (.call "Sender.Send") t == 1 &&
  -- a failed send: unregister, return the error, no clean-up goroutine; otherwise the goroutine and the channel
  (if t.contains (.call "Router.removeIQResultRoute") then !(t.any isSpawn) && retLabel t == "nil, error"
   else cnt (.spawn "func literal") t == 1 && retLabel t == "IQResultRoute.result, nil")

theorem sendiq_every_path : allTraces (get "Router.sendIQ") sendIQOk = true := by decide +kernel

theorem sendiq_every_run : ∀ l t, Runs traceSem (get "Router.sendIQ") [] (.ret l t) → sendIQOk t = true :=
  allTraces_sound _ _ sendiq_every_path

/-- XMPPTransport.StartTLS on every path -/
def startTLSOk (t : List Act) : Bool :=
  let secure : Act := .call "set XMPPTransport.isSecure=true"
  let ok := retLabel t == "nil"
  -- the flag is set exactly on the paths that return nil, and there it is the last act
  (t.contains secure == ok) &&
  (!ok || (t.dropWhile (· != secure)).length == 2) &&
  -- after the handshake; the flag is cleared once the connection is switched, before anything can fail
  (!ok || (t.contains (.call "Conn.Handshake") && t.contains (.call "set XMPPTransport.isSecure=false"))) &&
  noneAfter (· == secure) (fun a => a == .call "Conn.Handshake" || a == .call "Conn.VerifyHostname") t &&
  -- every error return is the error of the handshake or of the host-name check, handed on as it is
  (ok || retLabel t == "error")

theorem starttls_every_path : allTraces (get "XMPPTransport.StartTLS") startTLSOk = true := by decide +kernel

theorem starttls_every_run : ∀ l t, Runs traceSem (get "XMPPTransport.StartTLS") [] (.ret l t) → startTLSOk t = true :=
  allTraces_sound _ _ starttls_every_path

/-- the host-name check is skipped only on the branch the application asked for (InsecureSkipVerify): the skeleton has the
check directly under that branch and nowhere is the flag set in front of it -/
theorem starttls_checks_hostname :
    (get "XMPPTransport.StartTLS").mentions (.call "Conn.VerifyHostname") = true ∧
    allTraces (get "XMPPTransport.StartTLS") (fun t =>
      !t.contains (.call "Conn.VerifyHostname") || noneAfter (· == .call "set XMPPTransport.isSecure=true") (· == .call "Conn.VerifyHostname") t) = true := by
  decide +kernel

/-- XMPPTransport.Connect: the flag is cleared first, before the dial, on every path -/
theorem connect_clears_flag :
    allTraces (get "XMPPTransport.Connect") (fun t =>
      t.head? == some (.call "set XMPPTransport.isSecure=false") && !t.contains (.call "set XMPPTransport.isSecure=true") &&
      (t.filter (fun a => match a with | .call w => w.startsWith "net.DialTimeout" | _ => false)).length == 1) = true := by decide +kernel

/-- XMPPTransport.Connect does nothing with the new connection but wrap it (stream logger, buffered reader, decoder) and
open the stream: no socket option that changes what a later `Close` does to data `Send` has accepted (C08), no deadline -/
theorem connect_only_wraps :
    allTraces (get "XMPPTransport.Connect") (fun t => t.all fun a =>
      match a with
      | .call w => w.startsWith "set XMPPTransport.isSecure=false" || w.startsWith "net.DialTimeout(" ||
          w.startsWith "NewConnError(" || w == "newStreamLogger" || w.startsWith "bufio.NewReaderSize(" ||
          w == "xml.NewDecoder" || w == "XMPPTransport.StartStream" || w.startsWith "return " || w == "time.Duration"
      | _ => false) = true := by decide +kernel

example : startTLSOk [.call "tls.Client", .call "Conn.Handshake", .call "set XMPPTransport.isSecure=true", .call "Conn.VerifyHostname",
    .call "return err"] = false := by decide +kernel
example : routeOk [.call "Router.Match", .call "Handler.HandlePacket", .call "iqNotImplemented", .call "return "] = false := by decide +kernel
example : clientSendOk [.call "xml.Marshal", .write, .write, .call "return nil"] = false := by decide +kernel

end XmppVerif.Tie.FxSend
#print axioms XmppVerif.Tie.FxSend.send_every_path
#print axioms XmppVerif.Tie.FxSend.send_every_run
#print axioms XmppVerif.Tie.FxSend.route_every_path
#print axioms XmppVerif.Tie.FxSend.route_every_run
#print axioms XmppVerif.Tie.FxSend.sendiq_every_path
#print axioms XmppVerif.Tie.FxSend.sendiq_every_run
#print axioms XmppVerif.Tie.FxSend.starttls_every_path
#print axioms XmppVerif.Tie.FxSend.starttls_every_run
#print axioms XmppVerif.Tie.FxSend.starttls_checks_hostname
#print axioms XmppVerif.Tie.FxSend.connect_clears_flag
#print axioms XmppVerif.Tie.FxSend.connect_only_wraps
