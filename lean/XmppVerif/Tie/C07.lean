import XmppVerif.Gen.RouterSkeleton
/-
Tie (regenerated facts) for C07: the sync-op programs the interleaving invariant was proved for are the programs in
router.go. These are exactly the facts a stress run cannot establish:
- `route`: for result/error IQs only, ONE critical section containing the lookup and the delete, then send, close, return;
- `sendIQ`: the route is stored (under the lock) BEFORE `s.Send`; on a send error it is removed again; the clean-up
  goroutine waits for the context and removes only its own route (`IQResultRoutes[id] == route`);
- the result channel has capacity 1 (the single send can never block);
- `Client.SendIQ` and `Component.SendIQ` go through `Router.sendIQ`.
-/
namespace XmppVerif.Tie.C07
open XmppVerif.Gen.RouterSkeleton

theorem tie_route : route =
  ["if:case(*Client):SendMissingStz", "if:r.IQResultRouteLock.Lock", "if:if:delete", "if:r.IQResultRouteLock.Unlock",
   "if:if:send route.result", "if:if:close", "if:if:return", "if:match.Handler.HandlePacket", "if:return",
   "if:iqNotImplemented"] := by decide

theorem tie_route_only_responses : routeConds.take 3 =
  ["isA", "(isIq&&((iq.Type==stanza.IQTypeResult)||(iq.Type==stanza.IQTypeError)))", "ok"] := by decide

theorem tie_register_before_send : sendIQ =
  ["NewIQResultRoute", "r.IQResultRouteLock.Lock", "r.IQResultRouteLock.Unlock", "s.Send",
   "if:r.removeIQResultRoute", "if:return", "go func{…}", "return"] := by decide

theorem tie_cleanup : sendIQFuncLits = [["route.context.Done", "r.removeIQResultRoute"]] ∧
    removeRoute = ["r.IQResultRouteLock.Lock", "if:delete", "r.IQResultRouteLock.Unlock"] ∧
    removeRouteConds = ["(r.IQResultRoutes[id]==route)"] := by decide

theorem tie_channel_buffered : resultChanCap = ["1"] := by decide

theorem tie_callers : clientSendIQ = ["if:return", "c.router.sendIQ", "return"] ∧
    componentSendIQ = ["if:return", "c.router.sendIQ", "return"] := by decide

end XmppVerif.Tie.C07
#print axioms XmppVerif.Tie.C07.tie_route
#print axioms XmppVerif.Tie.C07.tie_route_only_responses
#print axioms XmppVerif.Tie.C07.tie_register_before_send
#print axioms XmppVerif.Tie.C07.tie_cleanup
#print axioms XmppVerif.Tie.C07.tie_channel_buffered
#print axioms XmppVerif.Tie.C07.tie_callers
