import XmppVerif.Fx
import XmppVerif.Gen.Fx
/-
Tie (regenerated MODEL): lock discipline of every function of the library that performs a lock operation.

`Gen/Fx.lean` holds, regenerated from /repo's working tree on every run, the control-flow / effect skeleton of every
function and function literal of `xmpp` and `xmpp/stanza` whose body performs a lock operation (found by the extractor,
not listed by hand: a NEW function that locks is covered as well), plus Client.Send, Client.SendRaw and resendStz.
`fx_balanced` evaluates the verified analysis `Fx.balanced` on each of them; `fx_every_run` is what that means, through
`Fx.balanced_sound`: on EVERY path of the body and for EVERY number of iterations of its loops the function returns
with all locks released (deferred unlocks counted at every return), never acquires a lock class it already holds
(Go's mutexes are not re-entrant), never releases one it does not hold, keeps the un-acknowledged queue locked from the
store of a stanza to its write (so that the order of the queue is the order on the wire - C08, C10), and under the
router's pending-request lock does nothing but the lookup and the removal (no handler, no channel operation, no write:
C07 - a response is handed over outside the lock).

What this does NOT say (conditions are not interpreted, calls are not entered): nothing about which branch is taken,
nothing across function boundaries (a callee that takes a lock its caller holds is not seen here; the correspondence
runs with their time limits are what shows such a self-deadlock), nothing about panics.
-/
namespace XmppVerif.Tie.Fx
open XmppVerif.Fx

/-- the policy: under the router's pending-request lock only the map removal is called -/
def pol : Policy := polQuiet "Router.IQResultRouteLock" ["delete"]

/-- every body is inside what the skeleton extractor covers -/
theorem tie_fx_supported : XmppVerif.Gen.Fx.unsupported = [] := by decide

/-- the functions the properties anchor in are among the analysed ones (a lock that moves elsewhere is followed by the
extractor; these must stay) -/
theorem tie_fx_covers :
    ["Client.sendAndStore", "Client.Send", "Client.SendRaw", "SendMissingStz", "resendStz", "Router.route",
     "Router.NewIQResultRoute", "Router.removeIQResultRoute", "Router.sendIQ"].all
      (fun n => (XmppVerif.Gen.Fx.all.map (·.1)).contains n) = true := by decide

theorem fx_balanced : XmppVerif.Gen.Fx.all.all (fun f => balanced pol f.2) = true := by decide

/-- **Every run of every locking function keeps the lock discipline.** -/
theorem fx_every_run (name : String) (f : Fx.Fx) (hm : (name, f) ∈ XmppVerif.Gen.Fx.all) :
    ∀ l s, Runs (lockSem pol) f {} (.ret l s) → s.held = [] ∧ s.bad = false := by
  have h := List.all_eq_true.mp fx_balanced (name, f) hm
  exact balanced_sound pol f h

/-- The type registry's lookup (`GetExtensionType`, used by every hand-written decoder of stanza/ - C01, C02) does nothing
but read the two maps under its read lock: it calls nothing, it keeps nothing (a memo that a later `MapExtension` does
not clear would make a registered extension vanish from parsed stanzas). -/
theorem registry_lookup_calls_nothing :
    ((XmppVerif.Gen.Fx.all.lookup "stanza/registry.GetExtensionType").map fun f =>
      allTraces f fun t => t.all fun a =>
        match a with
        | .lock _ | .unlock _ | .deferUnlock _ => true
        | .call w => w.startsWith "return "
        | _ => false) = some true := by decide +kernel

/-- not vacuous: the skeleton of sendAndStore does lock the queue, store and write; that of Router.route takes the
router's lock, removes the entry and hands the response over -/
theorem fx_not_vacuous :
    ((XmppVerif.Gen.Fx.all.lookup "Client.sendAndStore").any fun f =>
      f.mentions (.lock queueCls) && f.mentions .store && f.mentions .write) = true ∧
    ((XmppVerif.Gen.Fx.all.lookup "Router.route").any fun f =>
      f.mentions (.lock "Router.IQResultRouteLock") && f.mentions (.call "delete") && f.mentions (.chsend "IQResultRoute.result")) = true ∧
    ((XmppVerif.Gen.Fx.all.lookup "SendMissingStz").any fun f => f.mentions (.lock queueCls)) = true := by decide

end XmppVerif.Tie.Fx
#print axioms XmppVerif.Fx.ends_sound
#print axioms XmppVerif.Fx.balanced_sound
#print axioms XmppVerif.Tie.Fx.tie_fx_supported
#print axioms XmppVerif.Tie.Fx.tie_fx_covers
#print axioms XmppVerif.Tie.Fx.fx_balanced
#print axioms XmppVerif.Tie.Fx.fx_every_run
#print axioms XmppVerif.Tie.Fx.fx_not_vacuous
#print axioms XmppVerif.Tie.Fx.registry_lookup_calls_nothing
