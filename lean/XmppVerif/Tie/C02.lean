import XmppVerif.Gen.Dispatch
import XmppVerif.Model.C02
/-
Tie (regenerated facts) for C02: the dispatch of NextPacket, the list of hand-written UnmarshalXML loops, what each
loop does with a child start element (the fact the F-02 fix establishes: it is consumed on every path), the case
labels of the loops, and the extension registry, read off /repo's AST, equal what `Model/C02.lean` transcribes.
Removing a `d.Skip()` from a loop, adding a loop, a case label or a dispatch entry breaks one of these.
-/
namespace XmppVerif.Tie.C02
open XmppVerif.Gen.Dispatch XmppVerif.Model.C02

/-- the decode call NextPacket hands an element of this kind to -/
def decodeCall : Kind → String
  | .message => "message.decode" | .presence => "presence.decode" | .iq => "iq.decode"
  | .streamFeatures => "streamFeatures.decode" | .streamError => "streamError.decode"
  | .saslSuccess => "saslSuccess.decode" | .saslFailure => "saslFailure.decode"
  | .smEnabled => "s.decodeEnabled" | .smResumed => "s.decodeResumed" | .smResume => "s.decodeResume"
  | .smRequest => "s.decodeRequest" | .smAnswer => "s.decodeAnswer" | .smFailed => "s.decodeFailed"
  | .handshake => "handshake.decode" | .streamClose => "streamClose.decode"

theorem tie_ns_switch : nsSwitch =
    [(nsStream, "decodeStream"), (nsSASL, "decodeSASL"), (nsClient, "decodeClient"), (nsComponent, "decodeComponent"),
     (nsSM, "sm.decode"), ("default", "error")] := by decide

theorem tie_dispatch_table : table = dispatchTable.map (fun e => (e.1, decodeCall e.2)) := by decide +kernel

theorem tie_defaults_error : defaultsReturnError = true := by decide

theorem tie_end_element :
    endElementReturned = "((t.Name.Space==NSStream)&&(t.Name.Local==\"stream\"))" ∧
    nsStreamValue = streamEnd.space ∧ streamEnd.loc = "stream" := by decide

/-- the Go types behind the decoders: hand-written loops for Message / Presence / IQ / SMFailed, reflection (with a
StartTLS field that has a loop) for StreamFeatures, plain reflection for the others (`kindDec`) -/
theorem tie_decode_types : decodeTypes =
    [("handshakeDecoder.decode", "Handshake"), ("iqDecoder.decode", "IQ"), ("messageDecoder.decode", "Message"),
     ("presenceDecoder.decode", "Presence"), ("saslFailureDecoder.decode", "SASLFailure"),
     ("saslSuccessDecoder.decode", "SASLSuccess"), ("smDecoder.decodeAnswer", "SMAnswer"),
     ("smDecoder.decodeEnabled", "SMEnabled"), ("smDecoder.decodeFailed", "SMFailed"),
     ("smDecoder.decodeRequest", "SMRequest"), ("smDecoder.decodeResume", "SMResume"),
     ("smDecoder.decodeResumed", "SMResumed"), ("streamErrorDecoder.decode", "StreamError"),
     ("streamFeatureDecoder.decode", "StreamFeatures")] := by decide +kernel

/-- every hand-written UnmarshalXML of the package is a `Dec` constructor of the model (Node = `skip`) -/
theorem tie_unmarshalers : unmarshalers =
    ["Command", "Err", "Forwarded", "History", "IQ", "Message", "Node", "Presence", "PubSubEvent", "PubSubOwner",
     "SMFailed", "TlsStartTLS"] := by decide

/-- the reflection walks that reach a hand-written loop: `Dec.delegation`, `Dec.mucx`, `Dec.features` -/
theorem tie_containers : containers =
    [("Delegation", "Forwarded"), ("MucPresence", "History"), ("StreamFeatures", "TlsStartTLS")] := by decide

/-- F-02: in every loop the child start element is consumed on every path (`armFix` has no `descend`) -/
theorem tie_loops_consume_child : loopConsumesChild =
    [("Command", true), ("Err", true), ("Forwarded", true), ("History", true), ("IQ", true), ("Message", true),
     ("Presence", true), ("PubSubEvent", true), ("PubSubOwner", true), ("SMFailed", true), ("TlsStartTLS", true)] := by
  decide

theorem tie_loop_exit : loopExit.map Prod.snd = List.replicate 11 "(tt==start.End())" := by decide

theorem tie_loop_local_cases : loopLocalCases =
    [("Command", ["actions", "note", "x"], true),
     ("Forwarded", ["message", "presence", "iq"], true),
     ("Message", ["body", "thread", "subject", "error"], true),
     ("Presence", ["show", "status", "priority", "error"], true),
     ("PubSubEvent", ["collection", "configuration", "delete", "items", "purge", "subscription"], true),
     ("PubSubOwner", ["affiliations", "configure", "default", "delete", "purge", "subscriptions"], true),
     ("SMFailed", smFailedConds, true)] := by decide +kernel

theorem tie_iq_error_test : iqErrorTest = "(tt.Name.Local==\"error\")" := by decide

def regNames (pkt : String) : List (String × String) :=
  ((registry.filter fun r => r.1 == pkt).map fun r => (r.2.1, r.2.2.1)).eraseDups

theorem tie_registry_message : regNames "PKTMessage" = msgExt := by decide +kernel
theorem tie_registry_presence : regNames "PKTPresence" = presExt := by decide +kernel
theorem tie_registry_iq : regNames "PKTIQ" = iqExt := by decide +kernel

/-- the registered extension types that have (or contain) a hand-written loop: `extDec` -/
theorem tie_registry_loops :
    (registry.filter fun r => ["Command", "PubSubEvent", "PubSubOwner", "Delegation", "MucPresence"].contains r.2.2.2) =
    [("PKTIQ", nsCommands, "command", "Command"), ("PKTIQ", nsPSOwner, "pubsub", "PubSubOwner"),
     ("PKTIQ", nsDelegation, "delegation", "Delegation"), ("PKTMessage", nsPSEvent, "event", "PubSubEvent"),
     ("PKTMessage", nsDelegation, "delegation", "Delegation"), ("PKTPresence", nsMuc, "x", "MucPresence")] := by
  decide +kernel

end XmppVerif.Tie.C02
#print axioms XmppVerif.Tie.C02.tie_ns_switch
#print axioms XmppVerif.Tie.C02.tie_dispatch_table
#print axioms XmppVerif.Tie.C02.tie_defaults_error
#print axioms XmppVerif.Tie.C02.tie_end_element
#print axioms XmppVerif.Tie.C02.tie_decode_types
#print axioms XmppVerif.Tie.C02.tie_unmarshalers
#print axioms XmppVerif.Tie.C02.tie_containers
#print axioms XmppVerif.Tie.C02.tie_loops_consume_child
#print axioms XmppVerif.Tie.C02.tie_loop_exit
#print axioms XmppVerif.Tie.C02.tie_loop_local_cases
#print axioms XmppVerif.Tie.C02.tie_iq_error_test
#print axioms XmppVerif.Tie.C02.tie_registry_message
#print axioms XmppVerif.Tie.C02.tie_registry_presence
#print axioms XmppVerif.Tie.C02.tie_registry_iq
#print axioms XmppVerif.Tie.C02.tie_registry_loops
