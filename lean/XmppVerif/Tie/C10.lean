import XmppVerif.Gen.Queue
import XmppVerif.Gen.SendPath
/- Tie (regenerated facts) for C10: `SendMissingStz` (nil guard, lock held to the end, drop loop, early return on an
empty queue, re-send loop through `resendStz`, one trailing `<r/>`), `resendStz` (a Client re-sends without storing
again), what `Client.Send` never stores, and that store + write happen under the queue lock. -/
namespace XmppVerif.Tie.C10
open XmppVerif.Gen.Queue XmppVerif.Gen.SendPath
theorem tie_send_missing : sendMissing =
  ["if:return", "uaq.RWMutex.Lock", "defer uaq.RWMutex.Unlock()", "for:uaq.Pop", "if:return", "for:resendStz",
   "for:if:return", "s.Send", "return"] ∧
  sendMissingConds = ["(uaq==nil)", "(len(uaq.Uslice)==0)", "(err!=nil)"] := by decide
theorem tie_resend_does_not_store : resendStz = ["if:c.sendWithWriter", "if:[]byte", "if:return", "s.SendRaw", "return"] := by decide
theorem tie_nonzas_not_stored :
    clientSendTypeSwitch = ["stanza.SMRequest|*stanza.SMRequest|stanza.SMAnswer|*stanza.SMAnswer", "default"] := by decide
theorem tie_store_under_lock : clientSendAndStore =
  ["if:c.sendWithWriter", "if:[]byte", "if:return", "uaq.Lock", "defer uaq.Unlock()", "uaq.Push", "c.sendWithWriter",
   "[]byte", "return"] := by decide
end XmppVerif.Tie.C10
#print axioms XmppVerif.Tie.C10.tie_send_missing
#print axioms XmppVerif.Tie.C10.tie_resend_does_not_store
#print axioms XmppVerif.Tie.C10.tie_nonzas_not_stored
#print axioms XmppVerif.Tie.C10.tie_store_under_lock
