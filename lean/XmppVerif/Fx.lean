/-
Fx: the control-flow / effect skeleton of a Go function, REGENERATED from /repo on every run by go/extract/fx.go
(Gen/Fx.lean), and a VERIFIED static analysis of it for lock discipline.

A skeleton keeps, of a function body, exactly: its branching structure (`if`, `switch`, `select`, type switches: all
as a nondeterministic `branch` - conditions are labels, not evaluated), its loops, its `return`s, and the calls it
makes, in order (`act`): lock operations on a lock CLASS (the type or field that owns the mutex), `defer`red unlocks,
goroutine starts, writes to the transport, stores into the un-acknowledged queue, channel operations, other calls.

Semantics: a big-step relation `Runs pol p s o` over ALL resolutions of the branches and ALL iteration counts of the
loops (conditions are not interpreted: every path of the control-flow graph is a run - an over-approximation of the
real executions of that function body). The checker `ends` is an abstract interpreter over the lock state;
`ends_sound` proves once and for all that its answer covers EVERY run. The per-function obligations (Tie/Fx.lean) are
then `balanced pol gen_f = true` by `decide` on the regenerated skeleton: a theorem about every path and every loop
count - not a sample of paths.
-/
namespace XmppVerif.Fx

/-- effects the analysis interprets; everything else is `other` -/
inductive Act where
  | lock (cls : String)
  | unlock (cls : String)
  | deferUnlock (cls : String)
  | write                      -- a write to the transport
  | store                      -- UnAckQueue.Push
  | spawn (what : String)      -- `go f(...)`
  | chsend (what : String)     -- `ch <- v`
  | chclose (what : String)    -- `close(ch)`
  | call (what : String)       -- any other call, rendered `recv.Method` / `pkg.Func` / `Func`
  deriving DecidableEq, Repr

inductive Fx where
  | ret (label : String)
  | act (a : Act) (k : Fx)
  | branch (cond : String) (t e : Fx)
  | loop (body : Fx) (k : Fx)
  | brk
  | cont
  deriving DecidableEq, Repr

/-- lock state: classes held, deferred unlocks (LIFO), whether discipline was broken, and whether a stanza stored in the
un-acknowledged queue by this call has not been written yet -/
structure St where
  held : List String := []
  deferred : List String := []
  bad : Bool := false
  stored : Bool := false
  deriving DecidableEq, Repr

/-- the lock class of the un-acknowledged queue (`stanza.UnAckQueue` embeds its mutex) -/
def queueCls : String := "UnAckQueue"

/-- A policy says which acts are allowed while which classes are held (e.g. no handler call under the router's lock). -/
abbrev Policy := Act → List String → Bool

def St.unlock (s : St) (c : String) : St :=
  if s.held.contains c then
    -- releasing the queue between the store of a stanza and its write breaks "order of the queue = order on the wire"
    { s with held := s.held.erase c, bad := s.bad || (c == queueCls && s.stored) }
  else { s with bad := true }

def upd (pol : Policy) (s : St) (a : Act) : St :=
  let s := if pol a s.held then s else { s with bad := true }
  match a with
  | .lock c => if s.held.contains c then { s with bad := true } else { s with held := c :: s.held }
  | .unlock c => s.unlock c
  | .deferUnlock c => { s with deferred := c :: s.deferred }
  | .store => if s.held.contains queueCls then { s with stored := true } else { s with bad := true }
  | .write => { s with stored := false }
  | _ => s

/-- at `return`: the deferred unlocks run, last registered first -/
def atReturn (s : St) : St :=
  s.deferred.foldl (fun s c => s.unlock c) { s with deferred := [] }

/-- An interpretation of the acts over a state type σ: what an act does, what happens at `return l`. The lock
discipline below and the trace semantics at the end of the file are two instances; the soundness theorem is proved
once for all of them. -/
structure Sem (σ : Type) where
  upd : σ → Act → σ
  atRet : String → σ → σ

inductive Out (σ : Type) where
  | ret (label : String) (s : σ)
  | brk (s : σ)
  | cont (s : σ)

/-- every path of the skeleton, every number of loop iterations -/
inductive Runs {σ : Type} (pol : Sem σ) : Fx → σ → Out σ → Prop where
  | ret (l s) : Runs pol (.ret l) s (.ret l (pol.atRet l s))
  | act (a k s o) : Runs pol k (pol.upd s a) o → Runs pol (.act a k) s o
  | branchT (c t e s o) : Runs pol t s o → Runs pol (.branch c t e) s o
  | branchE (c t e s o) : Runs pol e s o → Runs pol (.branch c t e) s o
  | brk (s) : Runs pol .brk s (.brk s)
  | cont (s) : Runs pol .cont s (.cont s)
  | loopExit (b k s o) : Runs pol k s o → Runs pol (.loop b k) s o
  | loopRet (b k s l s') : Runs pol b s (.ret l s') → Runs pol (.loop b k) s (.ret l s')
  | loopBrk (b k s s' o) : Runs pol b s (.brk s') → Runs pol k s' o → Runs pol (.loop b k) s o
  | loopCont (b k s s' o) : Runs pol b s (.cont s') → Runs pol (.loop b k) s' o → Runs pol (.loop b k) s o

/-- what a run may end in, as the analysis sees it (labels dropped) -/
structure Ends (σ : Type) where
  rets : List σ := []
  brks : List σ := []
  conts : List σ := []

variable {σ : Type}

def Ends.union (a b : Ends σ) : Ends σ := ⟨a.rets ++ b.rets, a.brks ++ b.brks, a.conts ++ b.conts⟩

def Ends.has (e : Ends σ) : Out σ → Prop
  | .ret _ s => s ∈ e.rets
  | .brk s => s ∈ e.brks
  | .cont s => s ∈ e.conts

def Ends.sub (a b : Ends σ) : Prop := ∀ o, a.has o → b.has o

theorem Ends.sub_union_left (a b : Ends σ) : a.sub (a.union b) := by
  intro o h; cases o <;> simp only [Ends.has, Ends.union, List.mem_append] at * <;> exact Or.inl h

theorem Ends.sub_union_right (a b : Ends σ) : b.sub (a.union b) := by
  intro o h; cases o <;> simp only [Ends.has, Ends.union, List.mem_append] at * <;> exact Or.inr h

/-- run `f` from every state of a list, all must be accepted -/
def collect (f : σ → Option (Ends σ)) : List σ → Option (Ends σ)
  | [] => some {}
  | s :: r =>
    match f s, collect f r with
    | some a, some b => some (a.union b)
    | _, _ => none

theorem collect_mem (f : σ → Option (Ends σ)) : ∀ (l : List σ) (e : Ends σ), collect f l = some e →
    ∀ s ∈ l, ∃ e', f s = some e' ∧ e'.sub e := by
  intro l
  induction l with
  | nil => intro e _ s hs; simp at hs
  | cons x r ih =>
    intro e h s hs
    simp only [collect] at h
    cases hx : f x with
    | none => simp [hx] at h
    | some a =>
      cases hr : collect f r with
      | none => simp [hx, hr] at h
      | some b =>
        simp only [hx, hr, Option.some.injEq] at h
        subst h
        rcases List.mem_cons.mp hs with rfl | hs'
        · exact ⟨a, hx, Ends.sub_union_left a b⟩
        · obtain ⟨e', h1, h2⟩ := ih b hr s hs'
          exact ⟨e', h1, fun o ho => Ends.sub_union_right a b o (h2 o ho)⟩

/-- The abstract interpreter. A loop is accepted only when every `continue` (and the end of the body) comes back to the
state the loop was entered with - the loop-head state is then an invariant and the number of iterations is irrelevant. -/
def ends [DecidableEq σ] (pol : Sem σ) : Fx → σ → Option (Ends σ)
  | .ret l, s => some { rets := [pol.atRet l s] }
  | .act a k, s => ends pol k (pol.upd s a)
  | .branch _ t e, s =>
    match ends pol t s, ends pol e s with
    | some a, some b => some (a.union b)
    | _, _ => none
  | .brk, s => some { brks := [s] }
  | .cont, s => some { conts := [s] }
  | .loop b k, s =>
    match ends pol b s with
    | none => none
    | some eb =>
      if eb.conts.all (· == s) then
        -- after the loop: from the head state (the condition was false) and from every break state
        match collect (ends pol k) (s :: eb.brks) with
        | some ek => some (({ rets := eb.rets } : Ends σ).union ek)
        | none => none
      else none

/-- **Soundness of the analysis**: whatever `ends` answers covers every run - every resolution of every branch, every
number of iterations of every loop. -/
theorem ends_sound [DecidableEq σ] (pol : Sem σ) : ∀ p s o, Runs pol p s o → ∀ e, ends pol p s = some e → e.has o := by
  intro p s o h
  induction h with
  | ret l s => intro e he; simp only [ends, Option.some.injEq] at he; subst he; simp [Ends.has]
  | act a k s o _ ih => intro e he; simp only [ends] at he; exact ih e he
  | branchT c t e' s o _ ih =>
    intro e he
    simp only [ends] at he
    cases ht : ends pol t s with
    | none => simp [ht] at he
    | some a =>
      cases hb : ends pol e' s with
      | none => simp [ht, hb] at he
      | some b =>
        simp only [ht, hb, Option.some.injEq] at he; subst he
        exact Ends.sub_union_left a b o (ih a ht)
  | branchE c t e' s o _ ih =>
    intro e he
    simp only [ends] at he
    cases ht : ends pol t s with
    | none => simp [ht] at he
    | some a =>
      cases hb : ends pol e' s with
      | none => simp [ht, hb] at he
      | some b =>
        simp only [ht, hb, Option.some.injEq] at he; subst he
        exact Ends.sub_union_right a b o (ih b hb)
  | brk s => intro e he; simp only [ends, Option.some.injEq] at he; subst he; simp [Ends.has]
  | cont s => intro e he; simp only [ends, Option.some.injEq] at he; subst he; simp [Ends.has]
  | loopExit b k s o _ ih =>
    intro e he
    simp only [ends] at he
    cases hb : ends pol b s with
    | none => simp [hb] at he
    | some eb =>
      simp only [hb] at he
      split at he
      · cases hk : collect (ends pol k) (s :: eb.brks) with
        | none => simp [hk] at he
        | some ek =>
          simp only [hk, Option.some.injEq] at he; subst he
          obtain ⟨e1, h1, h2⟩ := collect_mem _ _ _ hk s List.mem_cons_self
          exact Ends.sub_union_right _ ek o (h2 o (ih e1 h1))
      · simp at he
  | loopRet b k s l s' _ ih =>
    intro e he
    simp only [ends] at he
    cases hb : ends pol b s with
    | none => simp [hb] at he
    | some eb =>
      simp only [hb] at he
      split at he
      · cases hk : collect (ends pol k) (s :: eb.brks) with
        | none => simp [hk] at he
        | some ek =>
          simp only [hk, Option.some.injEq] at he; subst he
          have := ih eb hb
          simp only [Ends.has] at this
          simp only [Ends.has, Ends.union, List.mem_append]
          exact Or.inl this
      · simp at he
  | loopBrk b k s s' o _ _ ihb ihk =>
    intro e he
    simp only [ends] at he
    cases hb : ends pol b s with
    | none => simp [hb] at he
    | some eb =>
      simp only [hb] at he
      split at he
      · cases hk : collect (ends pol k) (s :: eb.brks) with
        | none => simp [hk] at he
        | some ek =>
          simp only [hk, Option.some.injEq] at he; subst he
          have hm : s' ∈ eb.brks := by have := ihb eb hb; simpa [Ends.has] using this
          obtain ⟨e1, h1, h2⟩ := collect_mem _ _ _ hk s' (List.mem_cons_of_mem _ hm)
          exact Ends.sub_union_right _ ek o (h2 o (ihk e1 h1))
      · simp at he
  | loopCont b k s s' o _ _ ihb ihl =>
    intro e he
    have he0 := he
    simp only [ends] at he
    cases hb : ends pol b s with
    | none => simp [hb] at he
    | some eb =>
      simp only [hb] at he
      split at he
      · rename_i hall
        have hm : s' ∈ eb.conts := by have := ihb eb hb; simpa [Ends.has] using this
        have : s' = s := by
          have := List.all_eq_true.mp hall s' hm
          simpa using this
        subst this
        exact ihl e he0
      · simp at he

/-- the lock discipline as an interpretation of the acts -/
def lockSem (pol : Policy) : Sem St := ⟨upd pol, fun _ s => atReturn s⟩

/-- the verdict for a whole function body: every return path ends with no lock held and no broken discipline, and no
`break` / `continue` escapes the body -/
def balanced (pol : Policy) (p : Fx) : Bool :=
  match ends (lockSem pol) p {} with
  | some e => e.rets.all (fun s => s.held.isEmpty && !s.bad) && e.brks.isEmpty && e.conts.isEmpty
  | none => false

/-- **What `balanced` means**: on EVERY run of the body - whatever the conditions evaluate to, however often the loops
iterate - the function returns with every lock released (deferred unlocks included), never acquires a class it
already holds, never releases one it does not hold, never lets go of the queue between storing a stanza and writing
it, and never does under a lock what the policy forbids there. -/
theorem balanced_sound (pol : Policy) (p : Fx) (h : balanced pol p = true) :
    ∀ l s, Runs (lockSem pol) p {} (.ret l s) → s.held = [] ∧ s.bad = false := by
  intro l s hr
  unfold balanced at h
  cases he : ends (lockSem pol) p {} with
  | none => simp [he] at h
  | some e =>
    simp only [he, Bool.and_eq_true, List.all_eq_true] at h
    have hm : s ∈ e.rets := by have := ends_sound (lockSem pol) p {} _ hr e he; simpa [Ends.has] using this
    have := h.1.1 s hm
    simp only [List.isEmpty_iff, Bool.not_eq_true'] at this
    exact this

/-- does the skeleton contain this act anywhere -/
def Fx.mentions : Fx → Act → Bool
  | .ret _, _ => false
  | .act a k, b => a == b || k.mentions b
  | .branch _ t e, b => t.mentions b || e.mentions b
  | .loop bd k, b => bd.mentions b || k.mentions b
  | .brk, _ => false
  | .cont, _ => false

-- policies
/-- nothing is forbidden -/
def polAny : Policy := fun _ _ => true
/-- while `cls` is held only the listed calls may happen (no handler, no channel operation, no write, no spawn) -/
def polQuiet (cls : String) (allowed : List String) : Policy := fun a held =>
  !held.contains cls ||
  match a with
  | .call w => allowed.contains w
  | .lock _ | .unlock _ | .deferUnlock _ => true
  | _ => false

-- non-vacuity: a leaked lock on an error path is refused, the deferred form is accepted, a loop that keeps the lock is refused
example : balanced polAny (.act (.lock "q") (.act .store (.act .write (.branch "err != nil" (.ret "err") (.act (.unlock "q") (.ret "nil")))))) = false := by decide
example : balanced polAny (.act (.lock "UnAckQueue") (.act (.deferUnlock "UnAckQueue") (.act .store (.act .write (.ret "err"))))) = true := by decide
example : balanced polAny (.act (.lock "UnAckQueue") (.act .store (.act (.unlock "UnAckQueue") (.act .write (.ret "err"))))) = false := by decide
example : balanced polAny (.loop (.act (.lock "m") .cont) (.ret "")) = false := by decide
example : balanced polAny (.loop (.act (.lock "m") (.branch "c" (.act (.unlock "m") .brk) (.act (.unlock "m") .cont))) (.ret "")) = true := by decide
example : balanced (polQuiet "L" ["delete"]) (.act (.lock "L") (.act (.call "delete") (.act (.unlock "L") (.act (.chsend "result") (.ret ""))))) = true := by decide
example : balanced (polQuiet "L" ["delete"]) (.act (.lock "L") (.act (.deferUnlock "L") (.act (.chsend "result") (.ret "")))) = false := by decide

-- ---------------------------------------------------------------------------------------------------------------
-- the trace semantics: the state is the list of acts performed so far, the return label is appended at `return`.
-- For a body without loops (or whose loops perform no act) `ends` then enumerates EVERY complete trace of the body,
-- and `traces_sound` says that each run's trace is in that list: a decidable predicate checked on the list holds for
-- every run.

/-- acts so far, oldest first; the final element of a complete trace is `.call ("return " ++ label)` -/
def traceSem : Sem (List Act) := ⟨fun t a => t ++ [a], fun l t => t ++ [.call ("return " ++ l)]⟩

/-- all complete traces of a body (none when a loop of the body performs acts - the trace semantics has no invariant
for such a loop - or when `break` / `continue` escape) -/
def traces (p : Fx) : Option (List (List Act)) :=
  match ends traceSem p [] with
  | some e => if e.brks.isEmpty && e.conts.isEmpty then some e.rets else none
  | none => none

theorem traces_sound (p : Fx) (ts : List (List Act)) (h : traces p = some ts) :
    ∀ l t, Runs traceSem p [] (.ret l t) → t ∈ ts := by
  intro l t hr
  unfold traces at h
  cases he : ends traceSem p [] with
  | none => simp [he] at h
  | some e =>
    simp only [he] at h
    split at h
    · simp only [Option.some.injEq] at h; subst h
      have := ends_sound traceSem p [] _ hr e he
      simpa [Ends.has] using this
    · simp at h

/-- `allTraces p P`: every complete trace of `p` satisfies `P` (false when the traces cannot be enumerated) -/
def allTraces (p : Fx) (P : List Act → Bool) : Bool :=
  match traces p with
  | some ts => ts.all P
  | none => false

theorem allTraces_sound (p : Fx) (P : List Act → Bool) (h : allTraces p P = true) :
    ∀ l t, Runs traceSem p [] (.ret l t) → P t = true := by
  intro l t hr
  unfold allTraces at h
  cases ht : traces p with
  | none => simp [ht] at h
  | some ts =>
    simp only [ht] at h
    exact List.all_eq_true.mp h t (traces_sound p ts ht l t hr)

/-- the body of the first loop of a skeleton (what one pass of a receive loop or of the keepalive does) -/
def loopBody : Fx → Option Fx
  | .loop b _ => some b
  | .act _ k => loopBody k
  | _ => none

/-- how a pass ended, appended to its trace -/
def Out.trace : Out (List Act) → List Act
  | .ret _ t => t
  | .cont t => t ++ [.call "continue"]
  | .brk t => t ++ [.call "break"]

/-- every complete trace of ONE pass through a body (its own loops, if any, must perform no act), with how the pass
ended: `return <label>` (appended by the semantics), `continue` (also: the end of the body), `break` -/
def iterTraces (p : Fx) : Option (List (List Act)) :=
  (ends traceSem p []).map fun e =>
    e.rets ++ e.conts.map (· ++ [.call "continue"]) ++ e.brks.map (· ++ [.call "break"])

theorem iterTraces_sound (p : Fx) (ts : List (List Act)) (h : iterTraces p = some ts) :
    ∀ o, Runs traceSem p [] o → o.trace ∈ ts := by
  intro o hr
  unfold iterTraces at h
  cases he : ends traceSem p [] with
  | none => simp [he] at h
  | some e =>
    simp only [he, Option.map_some, Option.some.injEq] at h; subst h
    have := ends_sound traceSem p [] o hr e he
    cases o with
    | ret l t => simp only [Ends.has] at this; simp [Out.trace, this]
    | cont t => simp only [Ends.has] at this; simp only [Out.trace, List.mem_append, List.mem_map]; exact Or.inl (Or.inr ⟨t, this, rfl⟩)
    | brk t => simp only [Ends.has] at this; simp only [Out.trace, List.mem_append, List.mem_map]; exact Or.inr ⟨t, this, rfl⟩

/-- every pass through the body satisfies `P` -/
def allIter (p : Fx) (P : List Act → Bool) : Bool :=
  match iterTraces p with
  | some ts => ts.all P
  | none => false

theorem allIter_sound (p : Fx) (P : List Act → Bool) (h : allIter p P = true) :
    ∀ o, Runs traceSem p [] o → P o.trace = true := by
  intro o hr
  unfold allIter at h
  cases ht : iterTraces p with
  | none => simp [ht] at h
  | some ts =>
    simp only [ht] at h
    exact List.all_eq_true.mp h _ (iterTraces_sound p ts ht o hr)

-- helpers for predicates over traces
def isSpawn : Act → Bool | .spawn _ => true | _ => false
def isCall (names : List String) : Act → Bool | .call w => names.contains w | _ => false
/-- the label the trace returned with -/
def retLabel (t : List Act) : String :=
  match t.getLast? with
  | some (.call w) => (w.drop 7).toString
  | _ => ""
/-- no act satisfying `q` occurs after the first act satisfying `p` -/
def noneAfter (p q : Act → Bool) (t : List Act) : Bool := !((t.dropWhile (fun a => !p a)).drop 1).any q

end XmppVerif.Fx
