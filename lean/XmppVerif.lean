-- Root of the library: every model, spec, driver handler and property module.
import XmppVerif.Util
import XmppVerif.Drv.Core
import XmppVerif.Props.C17
import XmppVerif.Drv.C17
import XmppVerif.Props.C19
import XmppVerif.Drv.C19
import XmppVerif.Props.C20
import XmppVerif.Drv.C20
import XmppVerif.Props.C15
import XmppVerif.Drv.C15
import XmppVerif.Tie.C15
import XmppVerif.Tie.C19
import XmppVerif.Tie.C20
import XmppVerif.Props.C06
import XmppVerif.Drv.C06
import XmppVerif.Props.C10
import XmppVerif.Drv.C10
