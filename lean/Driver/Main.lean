import XmppVerif.Drv.Core
import XmppVerif.Drv.C01Schema
import XmppVerif.Drv.C02
import XmppVerif.Drv.Recv
import XmppVerif.Drv.Neg
import XmppVerif.Drv.C06
import XmppVerif.Drv.C07
import XmppVerif.Drv.C08
import XmppVerif.Drv.C10
import XmppVerif.Drv.C13
import XmppVerif.Drv.C14
import XmppVerif.Drv.C15
import XmppVerif.Drv.C16
import XmppVerif.Drv.C17
import XmppVerif.Drv.C18
import XmppVerif.Drv.C19
import XmppVerif.Drv.C20
/-
`driver <Cxx>`: line filter. stdin: `begin <id> [variant…]`, then op lines
`f1<TAB>f2…<TAB>=><TAB>impl-observation`, then `end`. One output line per input line.
-/
open XmppVerif.Drv

def handlers : List (String × Handler) := [
  ("C01", XmppVerif.Drv.C01S.handler),
  ("C02", XmppVerif.Drv.C02.handler),
  ("C03", XmppVerif.Drv.Neg.handlerC03),
  ("C04", XmppVerif.Drv.Neg.handlerC04),
  ("C11", XmppVerif.Drv.Neg.handlerC11),
  ("C05", XmppVerif.Drv.Recv.handlerC05),
  ("C09", XmppVerif.Drv.Recv.handlerC09),
  ("C12", XmppVerif.Drv.Recv.handlerC12),
  ("C06", XmppVerif.Drv.C06.handler),
  ("C07", XmppVerif.Drv.C07.handler),
  ("C08", XmppVerif.Drv.C08.handler),
  ("C10", XmppVerif.Drv.C10.handler),
  ("C13", XmppVerif.Drv.C13.handler),
  ("C14", XmppVerif.Drv.C14.handler),
  ("C15", XmppVerif.Drv.C15.handler),
  ("C16", XmppVerif.Drv.C16.handler),
  ("C17", XmppVerif.Drv.C17.handler),
  ("C18", XmppVerif.Drv.C18.handler),
  ("C19", XmppVerif.Drv.C19.handler),
  ("C20", XmppVerif.Drv.C20.handler)
]

def splitLine (line : String) : List String × String :=
  let fs := line.splitOn "\t"
  match fs.span (· != "=>") with
  | (ops, _ :: rest) => (ops, String.intercalate "\t" rest)
  | (ops, []) => (ops, "")

partial def loop (h : Handler) (inp : IO.FS.Stream) (out : IO.FS.Stream) (s : h.σ) : IO Unit := do
  let line ← inp.getLine
  if line.isEmpty then return ()
  let line := if line.endsWith "\n" then (line.dropEnd 1).toString else line
  let fs := line.splitOn "\t"
  match fs with
  | "begin" :: _ :: variant =>
    out.putStrLn "begin"
    loop h inp out (h.init variant)
  | ["end"] =>
    out.putStrLn "end"
    loop h inp out s
  | _ =>
    let (ops, impl) := splitLine line
    let (s', r) := h.step s ops impl
    out.putStrLn r.render
    loop h inp out s'

def main (args : List String) : IO UInt32 := do
  match args with
  | [id] =>
    match handlers.lookup id with
    | some h =>
      let inp ← IO.getStdin
      let out ← IO.getStdout
      loop h inp out (h.init [])
      out.flush
      return 0
    | none => IO.eprintln s!"unknown property {id}"; return 2
  | _ => IO.eprintln "usage: driver <Cxx>"; return 2
