"""Orchestrator library for /verif/bin/check (see DESIGN.md sections 3-4)."""
import sys, os, re, json, subprocess, time, hashlib, fcntl, shutil, argparse, glob

VERIF = os.path.dirname(os.path.dirname(os.path.abspath(__file__)))
REPO = os.environ.get("VERIF_REPO", "/repo")
LEAN = os.path.join(VERIF, "lean")
WORK = os.path.join(VERIF, ".work")
DRIVER = os.path.join(LEAN, ".lake", "build", "bin", "driver")
HARNESS = os.path.join(WORK, "bin", "harness")
EXTRACT = os.path.join(WORK, "bin", "extract")
ALLOWED_AXIOMS = {"propext", "Classical.choice", "Quot.sound"}
FORBIDDEN = re.compile(r"\bsorry\b|\badmit\b|^\s*axiom\s|native_decide|bv_decide|implemented_by|\bunsafe\s|maxHeartbeats\s+0\b")


def goenv():
    e = dict(os.environ)
    e.update(GOFLAGS="-mod=mod", GOPROXY="off", GOSUMDB="off", GOTOOLCHAIN="local",
             GOCACHE=os.environ.get("GOCACHE", os.path.join(WORK, "gocache")))
    return e


def sh(cmd, cwd=None, env=None, timeout=None, stdin=None):
    t0 = time.time()
    try:
        p = subprocess.run(cmd, cwd=cwd, env=env, stdout=subprocess.PIPE, stderr=subprocess.STDOUT,
                           timeout=timeout, stdin=stdin)
        return p.returncode, p.stdout.decode("utf-8", "replace"), time.time() - t0
    except subprocess.TimeoutExpired as ex:
        out = (ex.stdout or b"").decode("utf-8", "replace")
        return 124, out + "\n[timeout]", time.time() - t0


class Lock:
    """Serialises everything that writes into lean/.lake, lean/XmppVerif/Gen and .work/bin."""
    def __enter__(self):
        os.makedirs(WORK, exist_ok=True)
        self.f = open(os.path.join(WORK, "lock"), "w")
        fcntl.flock(self.f, fcntl.LOCK_EX)
        return self
    def __exit__(self, *a):
        fcntl.flock(self.f, fcntl.LOCK_UN)
        self.f.close()


def load_cfg(pid):
    with open(os.path.join(VERIF, "checks", pid + ".json")) as f:
        return json.load(f)


def known_findings():
    p = os.path.join(VERIF, "known_findings.json")
    if not os.path.exists(p):
        return []
    with open(p) as f:
        return json.load(f)["findings"]


# ---------------------------------------------------------------------------------------------
# Lean side

def strip_comments(src):
    # remove /- ... -/ (nested not handled beyond one level, enough for our sources) and -- comments
    out, i, depth = [], 0, 0
    while i < len(src):
        if src.startswith("/-", i):
            depth += 1; i += 2; continue
        if depth and src.startswith("-/", i):
            depth -= 1; i += 2; continue
        if depth:
            if src[i] == "\n": out.append("\n")
            i += 1; continue
        if src.startswith("--", i):
            j = src.find("\n", i)
            i = len(src) if j < 0 else j
            continue
        out.append(src[i]); i += 1
    return "".join(out)


def audit_sources():
    """grep the Lean sources (outside comments) for anything that would weaken a proof."""
    hits = []
    for path in glob.glob(os.path.join(LEAN, "**", "*.lean"), recursive=True):
        if "/.lake/" in path:
            continue
        body = strip_comments(open(path).read())
        for n, line in enumerate(body.split("\n"), 1):
            if FORBIDDEN.search(line):
                hits.append("%s:%d: %s" % (os.path.relpath(path, LEAN), n, line.strip()))
    return hits


def expected_theorems(modules):
    """Obligations = every `#print axioms X` line in the property's Props/Tie modules."""
    names = []
    for m in modules:
        path = os.path.join(LEAN, m.replace(".", "/") + ".lean")
        if not os.path.exists(path):
            names.append(m + ":<module missing>")
            continue
        for line in strip_comments(open(path).read()).split("\n"):
            mm = re.match(r"\s*#print axioms\s+(\S+)", line)
            if mm:
                names.append(mm.group(1))
    return names


def run_extract(log):
    """Regenerate lean/XmppVerif/Gen/*.lean from /repo's current working tree."""
    src = os.path.join(VERIF, "go", "extract")
    if not os.path.isdir(src):
        return True
    os.makedirs(os.path.dirname(EXTRACT), exist_ok=True)
    rc, out, _ = sh(["go", "build", "-o", EXTRACT, "."], cwd=src, env=goenv(), timeout=300)
    if rc != 0:
        log.append("extract build failed:\n" + out)
        return False
    gen = os.path.join(LEAN, "XmppVerif", "Gen")
    os.makedirs(gen, exist_ok=True)
    tmp = os.path.join(WORK, "gen.tmp")
    shutil.rmtree(tmp, ignore_errors=True)
    os.makedirs(tmp)
    rc, out, _ = sh([EXTRACT, "-repo", REPO, "-out", tmp], env=goenv(), timeout=300)
    log.append(out)
    # install only files whose content changed (keeps lake's cache warm), delete stale ones
    new = set(os.listdir(tmp))
    for fn in os.listdir(gen):
        if fn.endswith(".lean") and fn not in new:
            os.remove(os.path.join(gen, fn))
    for fn in new:
        a, b = os.path.join(tmp, fn), os.path.join(gen, fn)
        if not os.path.exists(b) or open(a, "rb").read() != open(b, "rb").read():
            shutil.copyfile(a, b)
    return rc == 0


def lake_build(targets, log):
    rc, out, dt = sh(["lake", "build"] + targets, cwd=LEAN, timeout=3000)
    log.append(out)
    axioms = {}
    for m in re.finditer(r"'([^']+)' depends on axioms: \[([^\]]*)\]", out):
        axioms[m.group(1)] = [a.strip() for a in m.group(2).split(",") if a.strip()]
    for m in re.finditer(r"'([^']+)' does not depend on any axioms", out):
        axioms[m.group(1)] = []
    errors = [l for l in out.split("\n") if l.startswith("error:")]
    return rc == 0, axioms, errors, dt


def build_harness(log):
    os.makedirs(os.path.dirname(HARNESS), exist_ok=True)
    src = os.path.join(VERIF, "go", "harness")
    shutil.copyfile(os.path.join(REPO, "go.sum"), os.path.join(src, "go.sum"))
    if os.path.exists(HARNESS):
        os.remove(HARNESS)
    rc, out, _ = sh(["go", "build", "-tags", "verif", "-o", HARNESS, "."], cwd=src, env=goenv(), timeout=600)
    if rc != 0:
        log.append("harness build failed:\n" + out)
    return rc == 0, out


# ---------------------------------------------------------------------------------------------
# Correspondence

class CaseResult:
    __slots__ = ("id", "variant", "ops", "impl", "model", "agree", "specM", "specI", "known")
    def __init__(self, cid, variant):
        self.id, self.variant = cid, variant
        self.ops, self.impl, self.model, self.agree, self.specM, self.specI, self.known = [], [], [], [], [], [], []
    def violates(self): return not all(self.specI)
    def disagrees(self): return not all(self.agree)
    def key(self): return "\n".join(["\t".join(self.variant)] + ["\t".join(o) for o in self.ops])
    def to_json(self):
        return {"id": self.id, "variant": self.variant, "ops": self.ops, "impl_obs": self.impl,
                "model_obs": self.model, "agree": self.agree, "spec_holds_model": self.specM,
                "spec_holds_impl": self.specI, "known_tag": self.known}


def run_driver(pid, ops_path, out_path):
    with open(ops_path, "rb") as fin, open(out_path, "wb") as fout:
        p = subprocess.run([DRIVER, pid], stdin=fin, stdout=fout, stderr=subprocess.PIPE, timeout=3000)
    return p.returncode, p.stderr.decode("utf-8", "replace")


def zip_results(ops_path, out_path):
    """Yield CaseResult by walking the harness file and the driver output in lock step."""
    cur = None
    with open(ops_path, encoding="utf-8", errors="replace") as fo, open(out_path, encoding="utf-8", errors="replace") as fd:
        for lo in fo:
            lo = lo.rstrip("\n")
            ld = fd.readline().rstrip("\n")
            f = lo.split("\t")
            if f[0] == "begin" and len(f) >= 2 and "=>" not in f:
                cur = CaseResult(f[1], f[2:])
                continue
            if lo == "end":
                if cur is not None:
                    yield cur
                cur = None
                continue
            if cur is None:
                continue
            if "=>" in f:
                i = f.index("=>")
                op, impl = f[:i], "\t".join(f[i + 1:])
            else:
                op, impl = f, ""
            d = ld.split("\t")
            # driver line, read from the right: model…, agree, specModel, specImpl, known-tag
            if len(d) < 5:
                d = [ld, "false", "false", "false", "-"]
            cur.ops.append(op); cur.impl.append(impl)
            cur.model.append("\t".join(d[:-4]))
            cur.agree.append(d[-4] == "true")
            cur.specM.append(d[-3] == "true")
            cur.specI.append(d[-2] == "true")
            cur.known.append(d[-1])


def write_case_file(path, cases):
    with open(path, "w") as f:
        for c in cases:
            f.write("\t".join(["begin", c["id"]] + c.get("variant", [])) + "\n")
            for op in c["ops"]:
                f.write("\t".join(op) + "\t=>\t\n")
            f.write("end\n")


def exec_cases(pid, cases, tag):
    """Run implementation + model + oracle on explicit cases; returns list of CaseResult."""
    d = os.path.join(WORK, pid)
    os.makedirs(d, exist_ok=True)
    a, b, c = [os.path.join(d, "%s.%s" % (tag, x)) for x in ("in", "ops", "out")]
    write_case_file(a, cases)
    rc, out, _ = sh([HARNESS, "exec", pid, "-in", a, "-out", b], env=goenv(), timeout=600)
    if rc != 0:
        # the process died on these cases: record that as the observation
        tail = " ".join(out.strip().split("\n")[:3])[:300].replace("\t", " ")
        with open(b, "w") as f:
            for cs in cases:
                f.write("\t".join(["begin", cs["id"]] + cs.get("variant", [])) + "\n")
                for op in cs["ops"]:
                    f.write("\t".join(op) + "\t=>\tcrash: " + tail + "\n")
                f.write("end\n")
    rc, err = run_driver(pid, b, c)
    if rc != 0:
        raise RuntimeError("driver failed: " + err)
    return list(zip_results(b, c))


CRASHES = []   # harness process deaths of this check run (reported even if no single case reproduces them)


def gen_and_compare(pid, seed, tier, tag, log, timeout=3000):
    d = os.path.join(WORK, pid)
    os.makedirs(d, exist_ok=True)
    ops, out, stats = [os.path.join(d, "%s.%s" % (tag, x)) for x in ("ops", "out", "stats.json")]
    for p in (ops, out, stats):
        if os.path.exists(p):
            os.remove(p)
    rc, o, dt = sh([HARNESS, "gen", pid, "-seed", str(seed), "-tier", tier, "-out", ops, "-stats", stats],
                   env=goenv(), timeout=timeout)
    if rc != 0:
        log.append("harness gen failed rc=%d:\n%s" % (rc, o[-4000:]))
        # the process died: whatever the isolation below finds (a crash that needs minutes of run time, or an
        # interleaving, does not show again when one case is re-executed alone), the run is not a clean one
        CRASHES.append("harness process died (rc=%d) in the %s run: %s" % (rc, tag, " ".join(o.strip().split("\n")[:6])[:600]))
        crash = isolate_crash(pid, seed, tier, tag, log, o)
        if crash is None:
            return None, {}, dt
        ops = crash
    rc, err = run_driver(pid, ops, out)
    if rc != 0:
        log.append("driver failed: " + err)
        return None, {}, dt
    st = json.load(open(stats)) if os.path.exists(stats) else {}
    return (ops, out), st, dt


def read_case_file(path):
    cases, cur = [], None
    for line in open(path, encoding="utf-8", errors="replace"):
        f = line.rstrip("\n").split("\t")
        if f[0] == "begin" and len(f) >= 2:
            cur = {"id": f[1], "variant": f[2:], "ops": []}
            cases.append(cur)
        elif f == ["end"]:
            cur = None
        elif cur is not None:
            cur["ops"].append(f[:f.index("=>")] if "=>" in f else f)
    return cases


def isolate_crash(pid, seed, tier, tag, log, crash_output):
    """The harness process died (a panic in a goroutine of the library cannot be recovered in-process).
    Regenerate the cases without executing them and bisect for one case that kills the process; report it with the
    observation `crash` so that the oracle rejects it."""
    d = os.path.join(WORK, pid)
    dry = os.path.join(d, tag + ".dry")
    rc, o, _ = sh([HARNESS, "gen", pid, "-seed", str(seed), "-tier", tier, "-out", dry, "-dry"], env=goenv(), timeout=600)
    if rc != 0:
        return None
    cases = read_case_file(dry)
    def crashes(sub, tries=3):
        # a crash that needs a particular interleaving does not happen on every run: try a few times
        a, b = os.path.join(d, tag + ".bis.in"), os.path.join(d, tag + ".bis.out")
        write_case_file(a, sub)
        out = ""
        for _ in range(tries):
            rc, out, _ = sh([HARNESS, "exec", pid, "-in", a, "-out", b], env=goenv(), timeout=600)
            if rc != 0:
                return True, out
        return False, out
    bad, out = crashes(cases)
    if not bad:
        return None
    while len(cases) > 1:
        half = cases[:len(cases) // 2]
        b, o2 = crashes(half)
        if b:
            cases, out = half, o2
        else:
            cases = cases[len(cases) // 2:]
    c = cases[0]
    # within the case: drop ops while the process still dies (the ops of a batch case run concurrently)
    # (the last op is kept: for several properties it is the one the oracle judges - `finish` of the receive loop)
    ops = list(c["ops"])
    i = 0
    while len(ops) > 2 and i < len(ops) - 1:
        cand = ops[:i] + ops[i + 1:]
        b, o2 = crashes([{"id": c["id"], "variant": c["variant"], "ops": cand}], tries=2)
        if b:
            ops, out = cand, o2
        else:
            i += 1
        if len(c["ops"]) > 40:
            break
    c = {"id": c["id"], "variant": c["variant"], "ops": ops}
    tail = " ".join(out.strip().split("\n")[:3])[:300].replace("\t", " ")
    path = os.path.join(d, tag + ".crash.ops")
    with open(path, "w") as f:
        f.write("\t".join(["begin", c["id"]] + c["variant"]) + "\n")
        for op in c["ops"]:
            f.write("\t".join(op) + "\t=>\tcrash: " + tail + "\n")
        f.write("end\n")
    log.append("isolated crashing case %s" % c["id"])
    return path


def minimise(pid, case, pred, budget_s=60):
    """ddmin over the op list of one case; pred(CaseResult) says whether the failure is still there."""
    t0 = time.time()
    ops = list(case.ops)
    def test(cand):
        try:
            r = exec_cases(pid, [{"id": "min", "variant": case.variant, "ops": cand}], "min")
        except Exception:
            return None
        return r[0] if r and pred(r[0]) else None
    best = test(ops)
    if best is None:
        return case
    n = 2
    while len(ops) >= 2 and time.time() - t0 < budget_s:
        chunk = max(1, len(ops) // n)
        reduced = False
        for i in range(0, len(ops), chunk):
            cand = ops[:i] + ops[i + chunk:]
            if not cand:
                continue
            r = test(cand)
            if r is not None:
                ops, best, n, reduced = cand, r, max(n - 1, 2), True
                break
        if not reduced:
            if chunk == 1:
                break
            n = min(len(ops), n * 2)
    return best


# ---------------------------------------------------------------------------------------------

def write_replay(pid, name, payload):
    d = os.path.join(VERIF, "replays")
    os.makedirs(d, exist_ok=True)
    body = json.dumps(payload, indent=1, sort_keys=True)
    h = hashlib.sha1(body.encode()).hexdigest()[:10]
    path = os.path.join(d, "%s-%s-%s.json" % (pid, name, h))
    with open(path, "w") as f:
        f.write(body + "\n")
    return path


def nontrivial(c):
    """A case is non-trivial when it has at least two ops or two fields and its observations are not all identical
    (single-op properties: the observation is not the bare error marker)."""
    if len(c.ops) >= 2:
        return len(set(c.impl)) >= 2
    return len(c.impl) == 1 and c.impl[0] not in ("", "err", "bad-op")


def main(argv):
    ap = argparse.ArgumentParser()
    ap.add_argument("pid")
    ap.add_argument("--tier", default=os.environ.get("VERIF_TIER", "quick"))
    ap.add_argument("--seed", type=int, default=int(os.environ.get("VERIF_SEED", "1")))
    ap.add_argument("--replay")
    ap.add_argument("--keep", action="store_true", help="keep .work files")
    a = ap.parse_args(argv)
    pid, tier, seed = a.pid, a.tier, a.seed
    if tier not in ("quick", "thorough"):
        tier = "quick"
    cfg = load_cfg(pid)
    t0 = time.time()
    log = []
    with Lock():
        return run_check(pid, tier, seed, cfg, a, t0, log)


def run_check(pid, tier, seed, cfg, a, t0, log):
    modules = cfg["props_modules"] + cfg.get("tie_modules", [])
    obligations = expected_theorems(modules)
    problems = []          # broken proof obligations / ties (names)
    # 1. Lean
    extract_ok = run_extract(log)
    if not extract_ok:
        problems.append("extract:go/extract could not regenerate Gen/*.lean from /repo")
    hits = audit_sources()
    if hits:
        print("CHECK-BROKEN: forbidden construct in Lean sources:\n  " + "\n  ".join(hits))
        return 2
    ok_drv, _, errs, _ = lake_build(["driver"], log)
    if not ok_drv:
        print("CHECK-BROKEN: the Lean driver does not build:\n" + "\n".join(errs[:20]))
        return 2
    ok_lean, axioms, errs, lean_dt = lake_build(modules, log)
    discharged = []
    for th in obligations:
        ax = axioms.get(th)
        if ax is None:
            problems.append("theorem:%s (not checked: %s)" % (th, "; ".join(errs[:3]) or "module failed"))
        elif not set(ax) <= ALLOWED_AXIOMS:
            problems.append("theorem:%s depends on axioms %s" % (th, ax))
        else:
            discharged.append(th)
    if not ok_lean and not problems:
        problems.append("lake build failed: " + "; ".join(errs[:3]))
    leancheck = None
    if tier == "thorough" and ok_lean:
        rc, out, dt = sh(["lake", "env", "leanchecker"] + modules, cwd=LEAN, timeout=3000)
        leancheck = {"rc": rc, "wall_s": round(dt, 1), "tail": out[-300:]}
        if rc != 0:
            problems.append("leanchecker rejected " + " ".join(modules))

    # 2. harness
    ok_h, hout = build_harness(log)
    if not ok_h:
        # the hooks or the harness no longer compile against /repo: the tie cannot be evaluated
        rp = write_replay(pid, "harness-build", {"property": pid, "broken": "correspondence:%s (go build -tags verif failed)" % pid,
                                                 "build_output": hout[-3000:]})
        write_evidence(pid, tier, seed, cfg, obligations, discharged, [], {}, t0, 1, problems + ["harness build failed"], leancheck, {})
        print("VIOLATION property=%s replay=%s no-failing-input-found" % (pid, rp))
        return 1

    if a.replay:
        return do_replay(pid, a.replay)

    # 3. correspondence
    files, stats, gen_dt = gen_and_compare(pid, seed, tier, "run", log)
    if files is None:
        rp = write_replay(pid, "harness-run", {"property": pid, "broken": "correspondence:%s (harness or driver crashed)" % pid,
                                               "log": log[-1][-3000:]})
        write_evidence(pid, tier, seed, cfg, obligations, discharged, [], stats, t0, 1, problems + ["harness run failed"], leancheck, {})
        print("VIOLATION property=%s replay=%s no-failing-input-found" % (pid, rp))
        return 1
    for cr in CRASHES:
        if ("crash:" + cr) not in problems:
            problems.append("crash:" + cr)
    summary = summarise(files, pid)
    return verdict(pid, tier, seed, cfg, obligations, discharged, problems, summary, stats, t0, leancheck, log)


def summarise(files, pid=None):
    ops, out = files
    s = {"cases": 0, "ops": 0, "distinct": set(), "nontrivial": 0, "viol": [], "disagree": [], "samples": [],
         "spec_model_false": 0, "known_hits": {}, "known_cases": {}, "unsupported": {}}
    for c in zip_results(ops, out):
        s["cases"] += 1
        s["ops"] += len(c.ops)
        for mo in c.model:
            # a model may answer `unsupported:<why>|…` for an input outside what it covers: counted, never guessed
            if mo.startswith("unsupported:"):
                why = mo.split("|", 1)[0]
                s["unsupported"][why] = s["unsupported"].get(why, 0) + 1
        k = hashlib.sha1(c.key().encode()).digest()
        if k not in s["distinct"]:
            s["distinct"].add(k)
            if nontrivial(c):
                s["nontrivial"] += 1
        if len(s["samples"]) < 3 and (s["cases"] in (1, 50) or (len(c.ops) > 3 and s["cases"] % 997 == 0)):
            s["samples"].append({"id": c.id, "variant": c.variant, "ops": c.ops[:12], "impl_obs": c.impl[:12]})
        if not all(c.specM):
            s["spec_model_false"] += 1
        if c.violates():
            # recorded findings are classified at once (they may be many); only NEW violations are capped
            k = classify_known(pid, c) if pid else None
            if k:
                for key in k:
                    s["known_cases"].setdefault(key, c)
                    s["known_hits"][key] = s["known_hits"].get(key, 0) + 1
            elif len(s["viol"]) < 200:
                s["viol"].append(c)
        elif c.disagrees() and len(s["disagree"]) < 50:
            s["disagree"].append(c)
    if not s["samples"]:
        s["samples"].append({"note": "no case sampled"})
    return s


def classify_known(pid, c):
    """A violating case is a known finding iff the Lean handler tagged the violating op(s) with a key listed as
    status=known AND the implementation agrees with the as-is model on every op of the case."""
    if c.disagrees():
        return None
    keys = {k["key"] for k in known_findings() if k["property"] == pid and k["status"] == "known"}
    tags = {c.known[i] for i in range(len(c.ops)) if not c.specI[i]}
    if tags and tags <= keys:
        return sorted(tags)
    return None


def confirm(pid, cases, pred, max_cases=30, tries=2):
    """Re-execute failing cases (smallest first) and keep those on which the failure shows again. Many harnesses
    measure real time (hang detection, tick tolerances, waiting for goroutines): on a loaded machine a run can time
    out without anything being wrong. A failure that is never seen again when the same case is re-executed alone is
    not reported; it is counted in the evidence (`unconfirmed`)."""
    kept, unconfirmed = [], 0
    for c in sorted(cases, key=lambda c: len(c.ops))[:max_cases]:
        ok = False
        for _ in range(tries):
            try:
                r = exec_cases(pid, [{"id": c.id, "variant": c.variant, "ops": c.ops}], "confirm")
            except Exception:
                r = []
            if r and pred(r[0]):
                kept.append(r[0])
                ok = True
                break
        if not ok:
            unconfirmed += 1
            write_replay(pid, "unconfirmed", {"property": pid, "kind": "seen once, not seen again when re-executed alone (not reported)",
                                              "case": c.to_json()})
        if kept:
            break
    return kept, unconfirmed


def verdict(pid, tier, seed, cfg, obligations, discharged, problems, s, stats, t0, leancheck, log):
    new_viol, known_seen = [], dict(s.get("known_cases", {}))
    for c in s["viol"]:
        k = classify_known(pid, c)
        if k:
            for key in k:
                known_seen.setdefault(key, c)
        else:
            new_viol.append(c)
    for key in sorted(known_seen):
        desc = next((f.get("what", "") for f in known_findings() if f["key"] == key), "")
        print("KNOWN-FINDING: property=%s %s [%s]" % (pid, desc, key))
    extra = {"known_findings_seen": sorted(known_seen), "known_finding_cases": s.get("known_hits", {})}
    if s.get("unsupported"):
        extra["model_unsupported_skips"] = dict(sorted(s["unsupported"].items()))
        extra["model_unsupported_total"] = sum(s["unsupported"].values())

    def pred_violates(r):
        return r.violates() and classify_known(pid, r) is None

    if new_viol:
        new_viol, unc = confirm(pid, new_viol, pred_violates)
        extra["unconfirmed_violations"] = unc
    if s["disagree"]:
        kept, unc = confirm(pid, s["disagree"], lambda r: r.disagrees() or r.violates())
        extra["unconfirmed_disagreements"] = unc
        s["disagree"] = kept
        # a disagreement that turns into a violation on re-execution is a violation
        for r in kept:
            if pred_violates(r) and not new_viol:
                new_viol = [r]
    if new_viol:
        c = min(new_viol, key=lambda c: len(c.ops))
        m = minimise(pid, c, pred_violates)
        rp = write_replay(pid, "violation", {"property": pid, "kind": "spec-violated-by-implementation", "case": m.to_json(),
                                             "how_to_replay": "bin/check %s --replay <this file>" % pid,
                                             "broken_obligations": problems})
        write_evidence(pid, tier, seed, cfg, obligations, discharged, s, stats, t0, len(new_viol), problems, leancheck, extra)
        print("VIOLATION property=%s replay=%s" % (pid, rp))
        return 1

    if s["disagree"] or problems:
        # proof/tie/correspondence broke but no failing input yet: search harder
        found = search(pid, seed, tier, log, pred_violates)
        if found is not None:
            m = minimise(pid, found, pred_violates)
            rp = write_replay(pid, "violation", {"property": pid, "kind": "spec-violated-by-implementation (found by search)",
                                                 "case": m.to_json(), "broken_obligations": problems})
            write_evidence(pid, tier, seed, cfg, obligations, discharged, s, stats, t0, 1, problems, leancheck, extra)
            print("VIOLATION property=%s replay=%s" % (pid, rp))
            return 1
        payload = {"property": pid, "kind": "no-failing-input-found", "broken_obligations": problems}
        if s["disagree"]:
            c = min(s["disagree"], key=lambda c: len(c.ops))
            m = minimise(pid, c, lambda r: r.disagrees())
            payload["broken_correspondence"] = "correspondence:%s (implementation and Lean model differ; Spec.holds still true on the implementation's observation)" % pid
            payload["first_disagreeing_case"] = m.to_json()
        rp = write_replay(pid, "unproved", payload)
        write_evidence(pid, tier, seed, cfg, obligations, discharged, s, stats, t0, 1, problems, leancheck, extra)
        print("VIOLATION property=%s replay=%s no-failing-input-found" % (pid, rp))
        return 1

    write_evidence(pid, tier, seed, cfg, obligations, discharged, s, stats, t0, 0, problems, leancheck, extra)
    print("OK property=%s tier=%s seed=%d theorems=%d/%d cases=%d ops=%d wall=%.1fs" % (
        pid, tier, seed, len(discharged), len(obligations), s["cases"], s["ops"], time.time() - t0))
    return 0


def search(pid, seed, tier, log, pred):
    """After a broken proof/tie/correspondence: look for a concrete case on which the implementation violates the spec."""
    seeds = [seed + 1000 + i for i in range(2 if tier == "quick" else 6)]
    for sd in seeds:
        files, _, _ = gen_and_compare(pid, sd, "thorough", "search", log, timeout=900)
        if files is None:
            continue
        cands = [c for c in zip_results(*files) if pred(c)]
        if cands:
            kept, _ = confirm(pid, cands, pred)
            if kept:
                return kept[0]
    return None


def do_replay(pid, path):
    r = json.load(open(path))
    case = r.get("case") or r.get("first_disagreeing_case")
    if not case:
        print("replay file has no case (it names a broken obligation): " + json.dumps(r.get("broken_obligations")))
        return 0
    res = exec_cases(pid, [case], "replay")[0]
    for i, op in enumerate(res.ops):
        print("op    %s" % "\t".join(op))
        print("  impl  %s" % res.impl[i])
        print("  model %s" % res.model[i])
        print("  agree=%s spec(model)=%s spec(impl)=%s known=%s" % (res.agree[i], res.specM[i], res.specI[i], res.known[i]))
    if res.violates() and classify_known(pid, res) is None:
        rp = write_replay(pid, "violation", {"property": pid, "kind": "replayed", "case": res.to_json()})
        print("VIOLATION property=%s replay=%s" % (pid, rp))
        return 1
    return 0


def write_evidence(pid, tier, seed, cfg, obligations, discharged, s, stats, t0, violations, problems, leancheck, extra):
    # VERIF_EVIDENCE_DIR: where to write the evidence file (default: /verif/evidence). Set to a scratch directory when a
    # check is tried against a seeded change applied to /repo, so that the committed evidence stays the unchanged tree's.
    evdir = os.environ.get("VERIF_EVIDENCE_DIR") or os.path.join(VERIF, "evidence")
    os.makedirs(evdir, exist_ok=True)
    s = s or {"cases": 0, "ops": 0, "nontrivial": 0, "samples": [{"note": "correspondence did not run"}],
              "disagree": [], "spec_model_false": 0}
    cov = {
        "obligations": len(obligations),
        "discharged": len(discharged),
        "theorems": obligations,
        "undischarged": problems,
        "checker_cmd": "cd /verif/lean && lake build %s  (Lean 4.33.0 kernel; thorough tier adds `lake env leanchecker`)" % " ".join(cfg["props_modules"] + cfg.get("tie_modules", [])),
        "trusted_base": cfg.get("trusted_base", []),
        "evaluations": s["cases"],
        "ops_evaluated": s["ops"],
        "distinct_nontrivial": s["nontrivial"],
        "rule": cfg.get("rule", "") + " | distinct = distinct (variant, op list); non-trivial = >=2 distinct observations in the case (single-op cases: a non-error observation)",
        "samples": s["samples"],
        "exhaustive": bool(stats.get("exhaustive_part", False)),
        "exhaustive_note": "; ".join(stats.get("notes", [])),
        "input_distribution": stats.get("counters", {}),
        "correspondence_disagreements": len(s["disagree"]),
        "model_violates_spec_cases": s["spec_model_false"],
        "explanation": cfg.get("explanation", ""),
    }
    cov.update(extra or {})
    if stats.get("extra"):
        cov["harness_extra"] = stats["extra"]
    if leancheck:
        cov["leanchecker"] = leancheck
    ev = {"property_id": pid, "tier": tier, "seed": seed, "level": cfg.get("level", "proof"), "coverage": cov,
          "assumptions": cfg.get("assumptions", []), "wall_s": round(time.time() - t0, 2), "violations": violations}
    with open(os.path.join(evdir, pid + ".json"), "w") as f:
        json.dump(ev, f, indent=1)
        f.write("\n")
